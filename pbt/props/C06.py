"""C06 - JSON export and import are exact inverses (metadata-only, point and model isotherms)."""
import copy
import inspect
import math
import os
import json
import pathlib
import tempfile

import numpy as np
import pandas as pd
from hypothesis import strategies as st

import pygaps
from pygaps.core.baseisotherm import BaseIsotherm
from pygaps.core.material import Material
from pygaps.modelling import _MODELS, get_isotherm_model
from pygaps.parsing.json import isotherm_from_json, isotherm_to_json
from pygaps.utilities.exceptions import CalculationError

from pygaps.utilities.exceptions import pgError

from pbt import case as K
from pbt import strategies as S
from pbt.core import Check, Inconclusive, Violation

LEVEL = "exploration"
RULE = (
    "Cases: hypothesis-drawn descriptors of the three isotherm classes. Common part: any of the 10x27x19x2 unit "
    "configurations, registry / alias / unknown (unicode) adsorbate, material given as name, dict or Material object with "
    "0-4 (nested) properties, 0-5 metadata entries under non-reserved keys with recursive JSON values (text incl. text "
    "that spells numbers/booleans/None, ints incl. > 2**64, finite floats incl. -0.0 / subnormal / 1e300, bools, None, "
    "lists, nested dicts). Point isotherms: 1-60 rows; shapes increasing / increasing+decreasing / arbitrary order with "
    "ties; full-precision floats or ints; branch guessed, all 'ads', all 'des', the true marks or arbitrary user marks "
    "(bool keyword list, int or bool column); 0-3 extra float/int/text columns; default or custom column keys; default, "
    "shifted, shuffled, string and duplicated row labels. Model isotherms: every one of the 16 models from a model "
    "instance with drawn parameters / ranges / rmse and 11 models by fitting generated data (arrays or frame, ads or des "
    "branch). Each case: export to a string (and for 1/3 of the cases to a file given as str or pathlib.Path), import, "
    "compare with a snapshot of the original taken BEFORE the export: class, iso_id and ==, to_dict() and the metadata "
    "dict (.properties) with recursive type identity, unit labels, adsorbate, material name and properties, every data column exactly (values bit-for-bit via "
    "==, dtype; branch marks as integers and a numeric branch dtype), model class/name/parameters/ranges/rmse and 8+8 "
    "pointwise loading_at / pressure_at predictions (identical outcome incl. identical refusals), re-export == first "
    "document, file text == string and the isotherm read from the file identical to the one read from the string. All "
    "failed clauses of a case are collected (the known-finding predicates require the complete set of failed clauses to "
    "be the signature of that finding). Non-trivial: metadata-only with >= 1 non-text value or material properties; "
    "point with >= 1 desorption mark, an extra column or a non-text metadata value; every model case; distinct by "
    "descriptor hash."
)
ASSUMPTIONS = [
    "reserved keys = parameter names of the three constructors, their _reserved_params, the unit parameters, the "
    "shorthands m/t/a, file_version / isotherm_data / isotherm_model / iso_id and the varkw names; material property "
    "keys additionally exclude the Material constructor parameters name / store",
    "custom column keys are passed to isotherm_from_json (the format does not record them)",
    "branch marks are compared as integers; the branch column must come back with a numeric (bool/int) dtype but not "
    "with the same width (int8 from the guess, int64 from 'ads'/'des', bool from a user list are all legitimate "
    "originals); every other column must keep its dtype",
    "row labels are not part of the format: the index of the re-imported frame is not compared",
    "model ranges are compared as sequences of floats (tuple vs list is not a difference of a range)",
    "pressure, loading and metadata floats are finite (NaN / inf are not JSON); supplementary float columns may have "
    "missing readings (NaN, which the library's writer emits and its reader accepts) or no reading at all; the NaN rmse "
    "/ ranges of an unfitted model instance and NaN cells are compared NaN == NaN",
    "material names are never names of registry materials, so importing cannot alias a shared registry object",
    "a refused fit (CalculationError) while building a fitted model isotherm is inconclusive, not a violation",
]


def worker_init():
    K.reset_registries()


# ---------------------------------------------------------------------------------------------------------------------
# reserved keys
def _reserved():
    out = set()
    for cls in (BaseIsotherm, pygaps.PointIsotherm, pygaps.ModelIsotherm):
        out.update(inspect.signature(cls.__init__).parameters)  # includes 'self'
        out.update(cls._reserved_params)
        out.update(cls._unit_params)
    out.update(["m", "t", "a", "file_version", "isotherm_data", "isotherm_model", "iso_id", "plot_fit",
                "properties", "other_properties"])
    return frozenset(out)


RESERVED = _reserved()
RESERVED_MATERIAL = frozenset(["name", "store"])


def _weighted(*pairs):
    """Explicitly weighted choice between strategies: [(weight, strategy)] (nested one_of is not uniform)."""
    idx = [i for i, (w, _) in enumerate(pairs) for _ in range(w)]
    return st.sampled_from(idx).flatmap(lambda i: pairs[i][1])


# ---- metadata ------------------------------------------------------------------------------------------------------------
_TRICKY_TEXT = ["1", "1.5", "-3", "1e5", "0", "True", "False", "true", "None", "null", "nan", "NaN", "inf", "[1, 2]",
                "{'a': 1}", "", " ", " padded ", "des", "ads", "guess", "é", "日本語", "a,b", 'q"uote', "back\\slash",
                "line\nbreak", "tab\t", "\x00", "0x10", "1_000", " ", "3.0", "file_version"]
_free_text = st.text(max_size=8)
_floats = _weighted(
    (4, st.floats(-1e6, 1e6, allow_nan=False, allow_infinity=False)),
    (2, st.floats(allow_nan=False, allow_infinity=False)),
    (2, st.sampled_from([0.0, -0.0, 1.0, 1e300, -1e300, 5e-324, 1e-320, 0.1, 1e22, 1e16, 77.355, 2.0 ** 53])),
)
_ints = _weighted((4, st.integers(-1000, 1000)), (1, st.integers(-2 ** 70, 2 ** 70)), (1, st.sampled_from([0, 1, -1, 2 ** 63])))
_leaf = _weighted(
    (3, st.sampled_from(_TRICKY_TEXT)), (2, _free_text), (3, _ints), (3, _floats), (2, st.booleans()), (1, st.none()))
_meta_value = _weighted(
    (5, _leaf),
    (2, st.recursive(_leaf, lambda ch: st.one_of(st.lists(ch, max_size=3), st.dictionaries(st.text(max_size=4), ch, max_size=3)),
                     max_leaves=5)),
)
_KEY_POOL = ["user", "machine", "iso_type", "comment", "name", "date", "type", "id", "0", "é key", "with space", "DFT",
             "_x", "Branch", "Material", "model_from", "", "Temperature", "unit", "lab", "data", "model", "1.5"]
_meta_key = _weighted((3, st.sampled_from(_KEY_POOL)), (1, st.text(max_size=6))).filter(lambda k: k not in RESERVED)


def meta_strategy(max_size=5):
    # the number of entries is drawn explicitly (st.dictionaries alone returns {} for about half of the draws)
    sizes = [1, 0, 1, 2, 2, 3] + ([max_size] if max_size > 3 else [])
    return st.sampled_from(sizes).flatmap(
        lambda n: st.dictionaries(_meta_key, _meta_value, min_size=min(n, max_size), max_size=max_size if n else 0))


# ---- material / adsorbate --------------------------------------------------------------------------------------------------
_MAT_NAMES = [f"m-{k}" for k in range(10)] + ["é mat", "MOF-5(Zn)", "a/b c", "Takeda 5A", "名前", "0"]
_mat_prop_key = _weighted((3, st.sampled_from(["density", "molar_mass", "batch", "comment", "form", "sub", "é"])),
                          (1, st.text(max_size=5))).filter(lambda k: k not in RESERVED_MATERIAL)
_mat_prop_value = _weighted((2, st.floats(0.05, 5000.0)), (1, st.integers(1, 100)), (3, _meta_value))


@st.composite
def material_strategy(draw):
    form = draw(st.sampled_from(["dict", "str", "str", "dict", "dict", "object", "object"]))
    n_props = draw(st.sampled_from([1, 0, 1, 2, 2, 4]))
    name = draw(_weighted((4, st.sampled_from(_MAT_NAMES)), (1, st.text(min_size=1, max_size=6))))
    props = {} if form == "str" or not n_props else draw(
        st.dictionaries(_mat_prop_key, _mat_prop_value, min_size=n_props, max_size=max(n_props, 2)))
    return {"form": form, "name": name, "props": props}


_UNKNOWN_ADS = ["verif-gas", "Gas é", "X 1", "ガス", "UNKNOWN", "n-x9"]


@st.composite
def adsorbate_T(draw):
    """Registry adsorbate with a subcritical temperature (needed by nothing here, but realistic), an alias, or an
    unknown adsorbate with an arbitrary temperature."""
    kind = draw(st.sampled_from(["registry"] * 4 + ["alias", "unknown", "unknown"]))
    if kind == "registry":
        at = draw(S.ads_T())
        return {"adsorbate": at["adsorbate"], "T_K": at["T_K"], "ads_kind": kind}
    if kind == "alias":
        return {"adsorbate": draw(st.sampled_from(["N2", "CO2", "Ar", "n-butane", "NITROGEN", "Methane"])),
                "T_K": draw(st.floats(60.0, 500.0)), "ads_kind": kind}
    return {"adsorbate": draw(_weighted((3, st.sampled_from(_UNKNOWN_ADS)), (1, st.text(min_size=1, max_size=6)))),
            "T_K": draw(st.floats(1.0, 1500.0)), "ads_kind": kind}


@st.composite
def common_strategy(draw, meta_max=5, units=None):
    # categorical choices first (draws made after long lists are skewed towards the first element)
    target = draw(st.sampled_from(["string", "file_str", "string", "file_path"]))
    via_method = draw(st.booleans())
    u = draw(units if units is not None else S.units())
    at = draw(adsorbate_T())
    t = at["T_K"] if u["temperature_unit"] == "K" else at["T_K"] - 273.15
    if draw(st.sampled_from([False] * 5 + [True])):
        t = int(round(t))  # an int literal for the temperature (stored as float)
    return {
        "units": u, "adsorbate": at["adsorbate"], "ads_kind": at["ads_kind"], "T": t,
        "material": draw(material_strategy()), "meta": draw(meta_strategy(meta_max)),
        "target": target, "via_method": via_method, "namesake": draw(st.sampled_from([False, False, False, True])),
    }


def _common_kwargs(d):
    m = d["material"]
    if m["form"] == "str":
        material = m["name"]
    elif m["form"] == "dict":
        material = dict(copy.deepcopy(m["props"]), name=m["name"])
    else:
        material = Material(m["name"], **copy.deepcopy(m["props"]))
    kw = dict(material=material, adsorbate=d["adsorbate"], temperature=d["T"], **d["units"])
    kw.update(copy.deepcopy(d["meta"]))
    return kw


# ---------------------------------------------------------------------------------------------------------------------
# comparison helpers
def typed_diff(a, b, path="$"):
    """First difference between two JSON-like values, types included (None when identical)."""
    if type(a) is not type(b):
        return f"{path}: {type(a).__name__} {a!r} became {type(b).__name__} {b!r}"
    if isinstance(a, dict):
        if list(map(str, sorted(a, key=str))) != list(map(str, sorted(b, key=str))) or set(a) != set(b):
            return f"{path}: keys {sorted(a, key=str)!r} became {sorted(b, key=str)!r}"
        for k in a:
            r = typed_diff(a[k], b[k], f"{path}.{k}")
            if r:
                return r
        return None
    if isinstance(a, (list, tuple)):
        if len(a) != len(b):
            return f"{path}: length {len(a)} became {len(b)}"
        for i, (x, y) in enumerate(zip(a, b)):
            r = typed_diff(x, y, f"{path}[{i}]")
            if r:
                return r
        return None
    if isinstance(a, float):
        if a == b or (math.isnan(a) and math.isnan(b)):
            return None
        return f"{path}: {a!r} became {b!r}"
    if a != b:
        return f"{path}: {a!r} became {b!r}"
    return None


def _float_seq_equal(a, b):
    a = [float(v) for v in a]
    b = [float(v) for v in b]
    return len(a) == len(b) and all(x == y or (math.isnan(x) and math.isnan(y)) for x, y in zip(a, b))


class Fails:
    """Collects every failed clause of a case; raises one Violation carrying the complete set of tags."""

    def __init__(self):
        self.items = []
        self.facts = {}

    def add(self, tag, message):
        self.items.append((tag, message))

    def raise_if_any(self, what):
        if not self.items:
            return
        tags = sorted({t for t, _ in self.items})
        tag, msg = self.items[0]
        more = "" if len(tags) == 1 else f" [all failed clauses: {', '.join(tags)}]"
        raise Violation(f"{what}: {msg}{more}", tag=tag, detail=dict(self.facts, tags=tags))


def _snapshot(iso):
    snap = {
        "cls": type(iso), "id": iso.iso_id, "to_dict": copy.deepcopy(iso.to_dict()),
        "properties": copy.deepcopy(iso.properties),
        "units": dict(iso.units), "adsorbate": str(iso.adsorbate), "material_name": iso.material.name,
        "material_props": copy.deepcopy(iso.material.properties), "temperature": iso.temperature,
    }
    if isinstance(iso, pygaps.PointIsotherm):
        snap["frame"] = iso.data_raw.copy(deep=True)
    if isinstance(iso, pygaps.ModelIsotherm):
        m = iso.model
        snap["model"] = {"cls": type(m), "name": m.name, "params": dict(m.params), "prange": list(m.pressure_range),
                         "lrange": list(m.loading_range), "rmse": m.rmse, "branch": iso.branch}
    return snap


def _compare_common(snap, x, r, f, who="re-imported isotherm"):
    if type(r) is not snap["cls"]:
        f.add("class", f"{who} is a {type(r).__name__}, the original a {snap['cls'].__name__}")
        return False
    d = typed_diff(snap["to_dict"], r.to_dict())
    if d:
        f.add("to_dict", f"to_dict() differs at {d}")
    d = typed_diff(snap["properties"], r.properties)
    if d:
        f.add("metadata", f"metadata (properties) differ at {d}")
    if dict(r.units) != snap["units"]:
        f.add("units", f"unit labels {snap['units']} became {dict(r.units)}")
    if str(r.adsorbate) != snap["adsorbate"]:
        f.add("adsorbate", f"adsorbate {snap['adsorbate']!r} became {str(r.adsorbate)!r}")
    if r.material.name != snap["material_name"] or type(r.material.name) is not type(snap["material_name"]):
        f.add("material_name", f"material name {snap['material_name']!r} became {r.material.name!r}")
    d = typed_diff(snap["material_props"], r.material.properties)
    if d:
        f.add("material_properties", f"material properties differ at {d}")
    if r.temperature != snap["temperature"] or r._temperature != x._temperature:
        f.add("temperature", f"temperature {snap['temperature']!r} K became {r.temperature!r} K")
    if r.iso_id != snap["id"]:
        f.add("id", f"iso_id {snap['id']} became {r.iso_id}")
    if not (r == x):
        f.add("eq", "re-imported == original is False")
    return True


def _branch_ints(col):
    return [int(v) for v in col.tolist()]


def _compare_frames(orig, new, f):
    if sorted(map(str, orig.columns)) != sorted(map(str, new.columns)) or set(orig.columns) != set(new.columns):
        f.add("columns", f"data columns {list(orig.columns)} became {list(new.columns)}")
        return
    if len(orig) != len(new):
        f.add("rows", f"{len(orig)} data rows became {len(new)}")
        return
    for c in orig.columns:
        a, b = orig[c], new[c]
        if c == "branch":
            try:
                ai, bi = _branch_ints(a), _branch_ints(b)
            except (TypeError, ValueError):
                f.add("branch_marks", f"branch marks {a.tolist()} became {b.tolist()}")
                continue
            if ai != bi:
                f.add("branch_marks", f"branch marks {ai} became {bi}")
            if b.dtype.kind not in "biu":
                f.add("branch_dtype", f"branch column of dtype {a.dtype} came back with dtype {b.dtype} "
                                      f"(values {b.tolist()[:6]}...)")
            continue
        av, bv = a.tolist(), b.tolist()
        d = typed_diff(av, bv, f"column {c!r}")
        if d:
            f.add("data_values", f"data differ at {d}")
        elif str(a.dtype) != str(b.dtype):
            f.add("data_dtype", f"column {c!r} of dtype {a.dtype} came back with dtype {b.dtype}")
    # the order of the columns is not a clause of its own (the identifier clause covers it where it matters)
    f.facts["column_order_changed"] = list(orig.columns) != list(new.columns)


def _predict(iso, fn, values):
    """Pointwise predictions; an exception is an outcome (its type), so that refusals are compared too."""
    out = []
    for v in values:
        try:
            y = getattr(iso, fn)(v)
            out.append(("v", float(y)))
        except CalculationError:
            out.append(("e", "CalculationError"))
        except Exception as e:  # noqa - symmetric comparison only, the prediction itself is C10's business
            out.append(("e", type(e).__name__))
    return out


def _outcomes_equal(a, b):
    if len(a) != len(b):
        return False
    for (ka, va), (kb, vb) in zip(a, b):
        if ka != kb:
            return False
        if ka == "e":
            if va != vb:
                return False
        elif not (va == vb or (math.isnan(va) and math.isnan(vb))):
            return False
    return True


def _compare_models(snap, x, r, f, queries_p, queries_l):
    sm, m = snap["model"], r.model
    if type(m) is not sm["cls"] or m.name != sm["name"]:
        f.add("model_name", f"model {sm['name']} became {m.name}")
        return
    if list(m.params) != list(sm["params"]) or not _float_seq_equal(m.params.values(), sm["params"].values()):
        f.add("model_parameters", f"parameters {sm['params']} became {dict(m.params)}")
    if not _float_seq_equal(m.pressure_range, sm["prange"]) or not _float_seq_equal(m.loading_range, sm["lrange"]):
        f.add("model_ranges", f"ranges {sm['prange']} / {sm['lrange']} became {list(m.pressure_range)} / "
                              f"{list(m.loading_range)}")
    if not _float_seq_equal([m.rmse], [sm["rmse"]]):
        f.add("model_rmse", f"rmse {sm['rmse']!r} became {m.rmse!r}")
    if r.branch != sm["branch"]:
        f.add("model_branch", f"model branch {sm['branch']!r} became {r.branch!r}")
    la, lb = _predict(x, "loading_at", queries_p), _predict(r, "loading_at", queries_p)
    if not _outcomes_equal(la, lb):
        f.add("model_loading", f"loading_at({list(queries_p)}) = {la} became {lb}")
    pa, pb = _predict(x, "pressure_at", queries_l), _predict(r, "pressure_at", queries_l)
    if not _outcomes_equal(pa, pb):
        f.add("model_pressure", f"pressure_at({list(queries_l)}) = {pa} became {pb}")


def _export(x, d, path=None):
    if d.get("via_method"):
        return x.to_json(path) if path is not None else x.to_json()
    return isotherm_to_json(x, path) if path is not None else isotherm_to_json(x)


def _other_value(v):
    if isinstance(v, bool):
        return not v
    if isinstance(v, (int, float)):
        return v + 1
    if isinstance(v, str):
        return v + "x"
    return "other"


def roundtrip(x, d, f, import_kwargs=None, model_queries=None):
    """The oracle, with (one case in four) a material of the SAME NAME but other property values registered in the
    material list in the meantime: the re-imported isotherm carries the exported description all the same."""
    from pygaps.data import MATERIAL_LIST
    ns = None
    if d.get("namesake") and x.material.properties and not any(m.name == x.material.name for m in MATERIAL_LIST):
        ns = Material(x.material.name, store=True, **{k: _other_value(v) for k, v in x.material.properties.items()})
    try:
        return _roundtrip(x, d, f, import_kwargs, model_queries)
    finally:
        if ns is not None:
            MATERIAL_LIST[:] = [m for m in MATERIAL_LIST if m is not ns]


def _roundtrip(x, d, f, import_kwargs=None, model_queries=None):
    """The oracle shared by the three classes. `x` the original, `d` the descriptor, `f` the failure collector."""
    import_kwargs = import_kwargs or {}
    snap = _snapshot(x)
    doc = _export(x, d)
    if not isinstance(doc, str):
        f.add("export_type", f"export to a string returned {type(doc).__name__}")
        return None
    r = isotherm_from_json(doc, **import_kwargs)
    if _compare_common(snap, x, r, f):
        if "frame" in snap:
            _compare_frames(snap["frame"], r.data_raw, f)
            if r.pressure_key != x.pressure_key or r.loading_key != x.loading_key:
                f.add("column_keys", "pressure/loading keys changed")
        if "model" in snap:
            _compare_models(snap, x, r, f, *model_queries)
        doc2 = _export(r, d)
        if doc2 != doc:
            f.add("document_fixed_point", f"re-export differs from the first document: {_first_diff(doc, doc2)}")
    # the original must still be what it was (the snapshot was taken before the export)
    if x.iso_id != snap["id"] or typed_diff(snap["to_dict"], x.to_dict()):
        f.add("export_mutates", "exporting changed the original isotherm")
    if d["target"] != "string":
        with tempfile.TemporaryDirectory(prefix="verif_c06_") as tmp:
            p = os.path.join(tmp, "iso é.json")
            p_arg = pathlib.Path(p) if d["target"] == "file_path" else p
            if d["target"] == "file_str":
                # the path already exists (longer, unrelated content): exporting must replace it
                with open(p, "w", encoding="utf-8") as fh:
                    fh.write("{" + "x" * (len(doc) + 100))
            ret = _export(x, d, p_arg)
            if ret is not None:
                f.add("export_type", f"export to a file returned {type(ret).__name__}")
            with open(p, encoding="utf-8") as fh:
                text = fh.read()
            if text != doc:
                f.add("file_vs_string", f"file content differs from the string document: {_first_diff(doc, text)}")
            rf = isotherm_from_json(p_arg, **import_kwargs)
            f2 = Fails()
            if _compare_common(snap, x, rf, f2, who="isotherm imported from the file"):
                if "frame" in snap:
                    _compare_frames(snap["frame"], rf.data_raw, f2)
                if "model" in snap:
                    _compare_models(snap, x, rf, f2, *model_queries)
            # the same path written a second time with ANOTHER isotherm: the import must see the new content
            try:
                dct = json.loads(doc)
                dct["zz_second_export"] = 7
                xb = isotherm_from_json(json.dumps(dct), **import_kwargs)
                _export(xb, d, p_arg)
                rb = isotherm_from_json(p_arg, **import_kwargs)
                if rb.iso_id != xb.iso_id or not rb == xb or rb.properties.get("zz_second_export") != 7:
                    f.add("file_rewritten", f"after a second export to the same path the import returns id {rb.iso_id} "
                                            f"(metadata {sorted(rb.properties)}), the isotherm written last has id {xb.iso_id}")
            except pgError:
                pass
            # the file route must behave exactly like the string route
            if sorted({t for t, _ in f2.items}) != sorted({t for t, _ in f.items if t not in (
                    "document_fixed_point", "export_mutates", "file_vs_string", "export_type", "column_keys", "file_rewritten")}):
                f.add("file_route", "the file route fails other clauses than the string route: "
                      + "; ".join(f"{t}: {m}" for t, m in f2.items)[:400])
    return r


def _first_diff(a, b):
    n = next((i for i, (x, y) in enumerate(zip(a, b)) if x != y), min(len(a), len(b)))
    return f"at char {n}: {a[max(0, n - 30):n + 30]!r} vs {b[max(0, n - 30):n + 30]!r}"


def _meta_flags(meta):
    flags = set()

    def walk(v, top):
        if isinstance(v, bool):
            flags.add("bool")
        elif isinstance(v, int):
            flags.add("int")
        elif isinstance(v, float):
            flags.add("float")
        elif v is None:
            flags.add("none")
        elif isinstance(v, str):
            if v in _TRICKY_TEXT:
                flags.add("tricky_text")
        elif isinstance(v, (list, dict)):
            flags.add("nested")
            for w in (v.values() if isinstance(v, dict) else v):
                walk(w, False)

    for v in meta.values():
        walk(v, True)
    return flags


def _label_common(d, ctx):
    flags = _meta_flags(d["meta"])
    ctx.label("meta_empty" if not d["meta"] else "meta_some")
    for fl in sorted(flags):
        ctx.label("meta_" + fl)
    ctx.label("material_" + d["material"]["form"], "ads_" + d["ads_kind"], "target_" + d["target"])
    if d.get("namesake") and d["material"]["props"]:
        ctx.label("registered_namesake")
    if d["material"]["props"]:
        ctx.label("material_props")
    u = d["units"]
    if u["pressure_mode"] != "absolute":
        ctx.label("units_relative")
    if u["loading_basis"] in ("fraction", "percent"):
        ctx.label("units_fraction")
    if u["temperature_unit"] != "K":
        ctx.label("units_celsius")
    return flags - {"tricky_text"}


# ---------------------------------------------------------------------------------------------------------------------
# 1. metadata-only isotherms
def strat_base():
    return common_strategy(meta_max=6).map(lambda d: dict(d, cls="base"))


def check_base(desc, ctx):
    x = BaseIsotherm(**_common_kwargs(desc))
    f = Fails()
    roundtrip(x, desc, f)
    f.raise_if_any("metadata-only isotherm")
    nonstring = _label_common(desc, ctx)
    if nonstring or desc["material"]["props"]:
        ctx.nt(desc, desc)


# ---------------------------------------------------------------------------------------------------------------------
# 2. point isotherms
_SPECIAL_FLOATS = [0.0, -0.0, 0.1, 0.30000000000000004, 1e-300, 1e15, 1.0, 2.0, 123456.789012345, 1e-9, 5e-324]


def _val():
    return _weighted((6, st.floats(0.0, 1e3, allow_nan=False)), (2, st.floats(1e-9, 1e-3)),
                     (1, st.sampled_from(_SPECIAL_FLOATS)), (1, st.floats(1e-6, 1e6).map(lambda v: round(v, 6))))


def _inc():
    return _weighted((5, st.floats(1e-3, 10.0)), (1, st.floats(1e-9, 1e-6)), (1, st.integers(1, 5).map(float)))


_EXTRA_NAMES = ["enthalpy", "note", "é col", "x y", "0", "Pressure", "alpha", "zeta", "time"]
_TEXT_CELLS = ["a", "b", "c d", "des", "ads", "1.5", "", "é", "True", "None"]


@st.composite
def point_strategy(draw):
    # the plan (all categorical choices) first: draws made after long lists are skewed towards the first element
    size = draw(st.sampled_from(["small", "one", "small", "small", "medium", "medium", "large"]))
    shape = draw(st.sampled_from(["ads_des", "ads", "ads", "ads_des", "ads_des", "random", "random"]))
    ints = draw(st.sampled_from([False] * 5 + [True]))
    bkind = draw(st.sampled_from(["true", "guess", "guess", "guess", "true", "ads", "des", "user", "user"]))
    n_extra = draw(st.sampled_from([0, 1, 0, 0, 1, 2, 3]))
    keys = draw(st.sampled_from([["pressure", "loading"]] * 4 + [["P", "L"], ["p é", "uptake (mmol/g)"]]))
    index = draw(st.sampled_from([None] * 5 + ["shift", "shuffle", "str", "dup"]))
    route_pref = draw(st.sampled_from(["arrays", "frame", "arrays"]))
    bform_pref = draw(st.sampled_from(["col_int", "kw_bool", "col_int", "col_bool"]))
    n = {"one": 1, "small": draw(st.integers(2, 6)), "medium": draw(st.integers(7, 20)),
         "large": draw(st.integers(21, 60))}[size]
    d = draw(common_strategy(meta_max=3))
    d["cls"] = "point"
    if n == 1:
        shape = "ads"
    # pressures
    if shape == "random":
        p = draw(st.lists(st.integers(0, 50) if ints else _val(), min_size=n, max_size=n))
        true_marks = None
    else:
        n_des = 0 if shape == "ads" else draw(st.integers(1, n - 1))
        n_ads = n - n_des
        incs = draw(st.lists(st.integers(1, 9) if ints else _inc(), min_size=n_ads, max_size=n_ads))
        scale = 1 if ints else draw(st.sampled_from([1.0, 1e-4, 1e-2, 10.0]))
        p, acc = [], 0
        for i in incs:
            acc = acc + i * scale
            p.append(acc)
        if n_des:
            fr = sorted(draw(st.lists(st.floats(0.02, 0.98), min_size=n_des, max_size=n_des, unique=True)), reverse=True)
            p += [int(p[-1] * q) if ints else p[n_ads - 1] * q for q in fr]
        true_marks = [0] * n_ads + [1] * n_des
    l = draw(st.lists(st.integers(-3, 500) if ints else _weighted((8, _val()), (1, st.floats(-5.0, 0.0))),
                      min_size=n, max_size=n))
    d.update(pressure=p, loading=l, shape=shape, ints=ints)
    # branch
    if bkind == "true" and true_marks is None:
        bkind = "user"
    if bkind == "user":
        branch = draw(st.lists(st.integers(0, 1), min_size=n, max_size=n))
    elif bkind == "true":
        branch = true_marks
    else:
        branch = bkind
    # frame decorations
    extras = {}
    if n_extra:
        names = draw(st.lists(st.sampled_from(_EXTRA_NAMES), min_size=n_extra, max_size=n_extra, unique=True))
        if n_extra >= 2 and draw(st.sampled_from([False, False, True])):
            # two channels whose names differ by case only (t / T, time / Time), in either order
            twin = names[0].swapcase() if names[0].swapcase() != names[0] else names[0] + "T"
            names[1] = twin if twin not in names else names[1]
        for name in names:
            kind = draw(st.sampled_from(["float", "text", "int", "float", "float_gaps", "float_unmeasured"]))
            # float_gaps: a channel with missing readings (None in the descriptor = NaN in the table); float_unmeasured: a
            # channel without any reading
            cell = {"float": st.floats(-1e3, 1e3, allow_nan=False), "int": st.integers(-1000, 1000),
                    "text": st.sampled_from(_TEXT_CELLS),
                    "float_gaps": st.one_of(st.none(), st.floats(-1e3, 1e3, allow_nan=False)),
                    "float_unmeasured": st.none()}[kind]
            extras[name] = draw(st.lists(cell, min_size=n, max_size=n))
    if index == "shuffle":
        index = {"perm": draw(st.permutations(list(range(n))))}
    frame_needed = bool(extras) or keys != ["pressure", "loading"] or index is not None
    route = "frame" if frame_needed else route_pref
    if index == "dup" and branch == "guess":
        # the branch guess itself refuses duplicated row labels (constructor, outside this property)
        branch = true_marks if true_marks is not None else "ads"
    bform = None
    if isinstance(branch, list):
        bform = "kw_bool" if route == "arrays" else bform_pref
    d.update(branch=branch, branch_kind=bkind, branch_form=bform, extras=extras, keys=keys, index=index, route=route)
    return d


def build_point(d):
    kw = _common_kwargs(d)
    branch = d["branch"]
    if d["route"] == "arrays":
        b = [bool(v) for v in branch] if isinstance(branch, list) else branch
        return pygaps.PointIsotherm(pressure=list(d["pressure"]), loading=list(d["loading"]), branch=b, **kw)
    pk, lk = d["keys"]
    data = {pk: list(d["pressure"]), lk: list(d["loading"])}
    for name, vals in d["extras"].items():
        data[name] = [float("nan") if v is None else v for v in vals]
    n = len(d["pressure"])
    if isinstance(branch, list) and d["branch_form"] in ("col_int", "col_bool"):
        data["branch"] = [bool(v) for v in branch] if d["branch_form"] == "col_bool" else [int(v) for v in branch]
    df = pd.DataFrame(data)
    idx = d["index"]
    if idx == "shift":
        df.index = range(1, n + 1)
    elif idx == "str":
        df.index = [f"r{i}" for i in range(n)]
    elif idx == "dup":
        df.index = [i // 2 for i in range(n)]
    elif isinstance(idx, dict):
        df.index = list(idx["perm"])
    if "branch" in data:
        return pygaps.PointIsotherm(isotherm_data=df, pressure_key=pk, loading_key=lk, **kw)
    b = [bool(v) for v in branch] if isinstance(branch, list) else branch
    return pygaps.PointIsotherm(isotherm_data=df, pressure_key=pk, loading_key=lk, branch=b, **kw)


def _guess_marks(pressures):
    """The documented guess rule (position of the first pressure maximum), on plain lists."""
    n = len(pressures)
    infl = pressures.index(max(pressures)) + 1
    marks = [0] * n
    if infl != n:
        if infl == 1:
            infl = 0
        for i in range(infl, n):
            marks[i] = 1
    return marks


def check_point(desc, ctx):
    x = build_point(desc)
    marks = _branch_ints(x.data_raw["branch"])
    n_des = sum(marks)
    f = Fails()
    f.facts.update(n_des=n_des, n=len(marks), guess_is_all_ads=(sum(_guess_marks(list(desc["pressure"]))) == 0),
                   branch_was_column=("branch" in desc["keys"] or desc["branch_form"] in ("col_int", "col_bool")))
    pk, lk = desc["keys"]
    kwargs = {} if [pk, lk] == ["pressure", "loading"] else {"pressure_key": pk, "loading_key": lk}
    r = roundtrip(x, desc, f, import_kwargs=kwargs)
    if r is not None and isinstance(r, pygaps.PointIsotherm):
        f.facts["new_branch_dtype"] = str(r.data_raw["branch"].dtype)
    # labels / non-trivial registration first: every clause was evaluated also when some of them failed
    nonstring = _label_common(desc, ctx)
    ctx.label("branch_" + desc["branch_kind"], "shape_" + desc["shape"], "route_" + desc["route"],
              "rows_1" if len(marks) == 1 else "rows_2_6" if len(marks) <= 6 else "rows_7_20" if len(marks) <= 20 else "rows_21_60",
              "des_none" if n_des == 0 else "des_all" if n_des == len(marks) else "des_some")
    if desc["branch_form"]:
        ctx.label("bform_" + desc["branch_form"])
    if desc["extras"]:
        ctx.label("extras")
        if any(isinstance(v[0], str) for v in desc["extras"].values()):
            ctx.label("extras_text")
    if desc["ints"]:
        ctx.label("int_data")
    if desc["keys"] != ["pressure", "loading"]:
        ctx.label("custom_keys")
    ctx.label("index_" + ("default" if desc["index"] is None else "shuffle" if isinstance(desc["index"], dict) else desc["index"]))
    if n_des or desc["extras"] or nonstring:
        ctx.nt(desc, desc)
    f.raise_if_any(f"point isotherm ({len(marks)} rows, {n_des} desorption marks, branch={desc['branch_kind']})")



# ---------------------------------------------------------------------------------------------------------------------
# 4. isotherms brought into their representation by a permanent conversion (labels such as loading_unit = None for
#    fraction / percent and pressure_unit = None for relative modes come from convert_*, not from the constructor)
def strat_converted():
    from pbt import strategies as S
    return st.builds(lambda iso, p, l, m, t: {"iso": iso, "to_p": p, "to_l": l, "to_m": m, "to_t": t},
                     S.point_desc(min_points=1, max_points=8, allow_fraction=True),
                     st.one_of(st.none(), S.p_rep()), st.sampled_from([None, ("fraction", None), ("percent", None),
                                                                       ("fraction", None), ("percent", None), ("molar", "mol"),
                                                                       ("volume_liquid", "cm3")]),
                     st.one_of(st.none(), S.m_rep()), st.sampled_from([None, "K", "°C"]))


def check_converted(desc, ctx):
    from pbt import case as K
    K.reset_registries()
    x = K.build_point(desc["iso"])
    if desc["to_p"]:
        x.convert_pressure(mode_to=desc["to_p"][0], unit_to=desc["to_p"][1])
    if desc["to_m"]:
        x.convert_material(basis_to=desc["to_m"][0], unit_to=desc["to_m"][1])
    if desc["to_l"]:
        x.convert_loading(basis_to=desc["to_l"][0], unit_to=desc["to_l"][1])
    if desc["to_t"]:
        x.convert_temperature(desc["to_t"])
    units = dict(x.units)
    doc = x.to_json()
    r = isotherm_from_json(doc)
    if dict(r.units) != units:
        diff = {k: (units[k], r.units[k]) for k in units if units[k] != r.units[k]}
        raise Violation(f"isotherm converted to {units}: unit labels after the JSON round trip differ: {diff}",
                        tag="converted_units")
    if r.iso_id != x.iso_id or not (r == x):
        raise Violation(f"isotherm converted to {units}: re-imported isotherm is not equal to the original (id "
                        f"{x.iso_id} -> {r.iso_id})", tag="converted_id")
    td = typed_diff(x.to_dict(), r.to_dict())
    if td:
        raise Violation(f"isotherm converted to {units}: to_dict differs after the round trip: {td}", tag="converted_dict")
    for c in x.data_raw.columns:
        a, b = x.data_raw[c].tolist(), r.data_raw[c].tolist()
        if a != b:
            raise Violation(f"isotherm converted to {units}: column {c!r} differs after the round trip", tag="converted_data")
    if r.to_json() != doc:
        raise Violation(f"isotherm converted to {units}: re-export differs from the first document", tag="converted_fixed_point")
    ctx.label("lu_none" if units["loading_unit"] is None else "lu_set", "pu_none" if units["pressure_unit"] is None else "pu_set")
    ctx.nt([units, desc["iso"]["pressure"], desc["iso"]["loading"]], desc)


# ---------------------------------------------------------------------------------------------------------------------
# 3. model isotherms
def _lu(lo, hi):
    """log-uniform"""
    return st.floats(math.log(lo), math.log(hi)).map(math.exp)


_PARAMS = {
    "Henry": {"K": _lu(1e-3, 1e3)},
    "Langmuir": {"K": _lu(1e-3, 1e3), "n_m": _lu(1e-2, 1e2)},
    "DSLangmuir": {"n_m1": _lu(1e-2, 1e2), "K1": _lu(1e-3, 1e3), "n_m2": _lu(1e-2, 1e2), "K2": _lu(1e-3, 1e3)},
    "TSLangmuir": {"n_m1": _lu(1e-2, 1e2), "n_m2": _lu(1e-2, 1e2), "n_m3": _lu(1e-2, 1e2), "K1": _lu(1e-3, 1e3),
                   "K2": _lu(1e-3, 1e3), "K3": _lu(1e-3, 1e3)},
    "BET": {"n_m": _lu(1e-2, 1e2), "C": _lu(1.0, 500.0), "N": st.floats(0.05, 0.95)},
    "GAB": {"n_m": _lu(1e-2, 1e2), "C": _lu(1.0, 500.0), "K": st.floats(0.05, 0.95)},
    "Freundlich": {"K": _lu(1e-2, 1e2), "m": st.floats(0.5, 5.0)},
    "DA": {"n_m": _lu(1e-2, 1e2), "e": _lu(1e3, 3e4), "m": st.floats(1.0, 3.0)},
    "DR": {"n_m": _lu(1e-2, 1e2), "e": _lu(1e3, 3e4)},
    "Quadratic": {"n_m": _lu(1e-2, 1e2), "Ka": _lu(1e-3, 1e2), "Kb": _lu(1e-3, 1e2)},
    "TemkinApprox": {"n_m": _lu(1e-2, 1e2), "K": _lu(1e-3, 1e3), "tht": st.floats(0.0, 3.0)},
    "Virial": {"K": _lu(1e-2, 1e2), "A": st.floats(-1.0, 1.0), "B": st.floats(-0.5, 0.5), "C": st.floats(0.0, 0.2)},
    "Toth": {"n_m": _lu(1e-2, 1e2), "K": _lu(1e-3, 1e3), "t": st.floats(0.2, 3.0)},
    "JensenSeaton": {"K": _lu(1e-1, 1e3), "a": _lu(1e-1, 1e2), "b": _lu(1e-3, 1.0), "c": st.floats(0.3, 3.0)},
    "FHVST": {"n_m": _lu(1e-2, 1e2), "K": _lu(1e-3, 1e3), "a1v": st.floats(-1.0, 1.0)},
    "WVST": {"n_m": _lu(1e-2, 1e2), "K": _lu(1e-3, 1e3), "L1v": st.floats(0.1, 3.0), "Lv1": st.floats(0.1, 3.0)},
}
_RELATIVE_ONLY = ("DA", "DR", "BET", "GAB")  # models formulated in p/p0: pressures are kept inside (0, 1)
_FIT_MODELS = ["Henry", "Langmuir", "Freundlich", "DR", "DA", "Toth", "BET", "TemkinApprox", "Quadratic", "JensenSeaton",
               "DSLangmuir"]
assert sorted(_PARAMS) == sorted(_MODELS), "model list of the library changed: update the parameter windows"

_REL_UNITS = S.units().map(lambda u: dict(u, pressure_mode="relative", pressure_unit=None))


@st.composite
def model_strategy(draw):
    how = draw(st.sampled_from(["instance", "fit", "instance"]))
    name = draw(st.sampled_from(_FIT_MODELS if how == "fit" else list(_MODELS)))
    mbranch = draw(st.sampled_from(["ads", "des", "ads"]))
    ranges_given = draw(st.sampled_from([True, False, True]))
    fit_route = draw(st.sampled_from(["arrays", "frame"]))
    noise = draw(st.sampled_from([0.0, 1e-3, 0.0, 1e-2]))
    units = _REL_UNITS if name in _RELATIVE_ONLY else None
    d = draw(common_strategy(meta_max=3, units=units))
    d.update(cls="model", how=how, model=name)
    d["params"] = {k: draw(s) for k, s in _PARAMS[name].items()}
    if name in _RELATIVE_ONLY or d["units"]["pressure_mode"] == "relative":
        lo = draw(st.floats(1e-4, 0.2))
        hi = draw(st.floats(0.3, 0.9))
    else:
        lo = draw(_lu(1e-4, 1.0))
        hi = lo + draw(_lu(1e-2, 50.0))
    d["prange"] = [lo, hi]
    d["mbranch"] = mbranch
    d["queries"] = draw(st.lists(st.floats(0.0, 1.0), min_size=8, max_size=8))
    if how == "instance":
        l0 = draw(_lu(1e-3, 10.0))
        d["lrange"] = [l0, l0 + draw(_lu(1e-2, 50.0))]
        d["rmse"] = draw(st.one_of(st.none(), st.floats(0.0, 1.0)))
        d["ranges_given"] = ranges_given
    else:
        d["n_fit"] = draw(st.integers(6, 14))
        d["noise"] = noise
        d["rng"] = draw(st.integers(0, 2 ** 31))
        d["fit_route"] = fit_route
    return d


def build_model(d):
    kw = _common_kwargs(d)
    name = d["model"]
    if d["how"] == "instance":
        args = {"parameters": dict(d["params"])}
        if d["ranges_given"]:
            args["pressure_range"] = tuple(d["prange"])
            args["loading_range"] = tuple(d["lrange"])
        if d["rmse"] is not None:
            args["rmse"] = d["rmse"]
        model = get_isotherm_model(name, **args)
        return pygaps.ModelIsotherm(model=model, branch=d["mbranch"], **kw)
    gen = get_isotherm_model(name, parameters=dict(d["params"]))
    if name in ("DR", "DA"):
        t_k = d["T"] if d["units"]["temperature_unit"] == "K" else d["T"] + 273.15
        gen.__init_parameters__({"temperature": t_k})
    p = np.linspace(d["prange"][0], d["prange"][1], d["n_fit"])
    l = np.asarray(gen.loading(p), dtype=float)
    if d["noise"]:
        l = l * (1 + d["noise"] * np.random.default_rng(d["rng"]).standard_normal(len(l)))
    if not np.all(np.isfinite(l)) or np.ptp(l) <= 0:
        raise Inconclusive()
    try:
        if d["fit_route"] == "arrays":
            return pygaps.ModelIsotherm(pressure=p, loading=l, model=name, branch=d["mbranch"], **kw)
        df = pd.DataFrame({"pressure": p, "loading": l, "branch": [0 if d["mbranch"] == "ads" else 1] * len(p)})
        return pygaps.ModelIsotherm(isotherm_data=df, pressure_key="pressure", loading_key="loading", model=name,
                                    branch=d["mbranch"], **kw)
    except CalculationError:
        raise Inconclusive()


def check_model(desc, ctx):
    x = build_model(desc)
    m = x.model
    pr = [float(v) for v in m.pressure_range]
    lr = [float(v) for v in m.loading_range]
    if not all(math.isfinite(v) for v in pr):
        pr = list(desc["prange"])
    if not all(math.isfinite(v) for v in lr):
        lr = [0.1, 5.0]
    qp = [pr[0] + u * (pr[1] - pr[0]) for u in desc["queries"]]
    ql = [lr[0] + u * (lr[1] - lr[0]) for u in desc["queries"]]
    f = Fails()
    roundtrip(x, desc, f, model_queries=(qp, ql))
    _label_common(desc, ctx)
    ctx.label("model_" + desc["model"], "how_" + desc["how"], "mbranch_" + desc["mbranch"])
    ctx.nt(desc, desc)
    f.raise_if_any(f"{desc['model']} model isotherm ({desc['how']})")


# ---------------------------------------------------------------------------------------------------------------------
# known-finding predicates (narrow: class of input + complete signature of failed clauses)
def _tags(viol):
    return set((viol.detail or {}).get("tags") or [])


def kf_branch_object_dtype(check_name, desc, viol):
    """KF-C06-1: a re-imported point isotherm with >= 1 desorption mark has a branch column of dtype object
    (fillna(0).replace('des', 1) no longer downcasts under pandas 3); nothing else may differ."""
    det = viol.detail or {}
    return (check_name == "point" and _tags(viol) == {"branch_dtype"} and det.get("n_des", 0) >= 1
            and det.get("new_branch_dtype") == "object")


def kf_all_ads_reguessed(check_name, desc, viol):
    """KF-C06-2: an isotherm without any desorption mark is written without marks and read with branch='guess'; when
    the guess on its pressures is not 'all adsorption' the marks (and with them id, ==, the re-exported document)
    change."""
    det = viol.detail or {}
    tags = _tags(viol)
    return (check_name == "point" and "branch_marks" in tags and det.get("n_des") == 0
            and det.get("guess_is_all_ads") is False
            and tags <= {"branch_marks", "id", "eq", "document_fixed_point", "branch_dtype", "file_route"})


def kf_branch_column_position(check_name, desc, viol):
    """KF-C06-5: the constructor puts 'branch' third when the marks come as a keyword / are guessed, but sorts it among
    the extra columns when the marks come as a column of the data. The JSON reader supplies the marks as a column iff
    the document has a 'des' mark, so the position of 'branch' relative to the extra columns can change in the round
    trip (either direction); the identifier hashes the columns in order and differs although every column is equal."""
    det = viol.detail or {}
    tags = _tags(viol)
    return (check_name == "point" and "id" in tags and det.get("column_order_changed") is True
            and bool(desc.get("extras")) and tags <= {"id", "eq", "branch_dtype", "file_route"})


def kf_duplicate_index_export(check_name, desc, viol):
    """KF-C06-3: a point isotherm whose frame has duplicated row labels cannot be exported
    (DataFrame.to_dict(orient='index') raises ValueError)."""
    return (check_name == "point" and desc.get("index") == "dup" and len(desc.get("pressure", [])) >= 2
            and viol.tag.startswith("crash:ValueError:") and viol.tag.endswith("json.py:isotherm_to_json"))


def kf_dr_da_minus_rt(check_name, desc, viol):
    """KF-C06-4: a fitted DR/DA model isotherm has minus_rt = -R*T, the re-imported one (built from a model instance)
    keeps the class default -1000: parameters are equal, predictions differ."""
    return (check_name == "model" and desc.get("model") in ("DR", "DA") and desc.get("how") == "fit"
            and bool(_tags(viol)) and _tags(viol) <= {"model_loading", "model_pressure", "file_route"})


CHECKS = [
    Check("base", check_base, strategy=strat_base, budget={"quick": 2400, "thorough": 40000},
          rule="metadata-only isotherms: rich recursive metadata, material as name/dict/object, all unit configurations"),
    Check("point", check_point, strategy=point_strategy, budget={"quick": 2400, "thorough": 40000},
          rule="point isotherms: 1-60 rows, all branch assignments, extra columns, custom keys, row labels"),
    Check("model", check_model, strategy=model_strategy, budget={"quick": 1200, "thorough": 16000}, shrink_quick=False,
          rule="all 16 models from an instance, 11 models fitted; name, parameters, ranges, rmse, 16 predictions"),
    Check("converted_point", check_converted, strategy=strat_converted, budget={"quick": 1200, "thorough": 20000},
          rule="point isotherms permanently converted (relative modes, fraction / percent, other material / temperature "
               "units) before export: unit labels, id, typed dict, columns and document fixed point after the round trip"),
]
