"""C02 - permanent isotherm conversions stay consistent over any conversion history (model-based histories)."""
import numpy as np
from hypothesis import strategies as st

import pygaps
from pygaps.core.baseisotherm import BaseIsotherm
from pygaps.utilities.exceptions import pgError

from pbt import case as K
from pbt import ref_units as ru
from pbt import strategies as S
from pbt.core import Check, Violation, allclose

LEVEL = "exploration"
RULE = (
    "A case is a history: a hypothesis-drawn point isotherm (any of the 10x27x19x2 unit configurations, backend "
    "adsorbate at sub-critical T, material with density and molar mass; 15 % 'handicapped': no backend / "
    "supercritical / no density / no molar mass) followed by 3-12 operations drawn from convert_pressure / "
    "convert_loading / convert_material / convert_temperature / convert(subset) / read, every argument drawn from "
    "{omitted, valid value of the right table, valid value of a wrong table, unknown string}. Model = original data and "
    "labels; after EVERY step: labels valid (constructor accepts, tables), data == reference conversion of the "
    "original data to the current labels, specified targets named, refusal => bit-identical pre-state (combined "
    "convert: == sequential single steps on a clone), frame/metadata invariants, reads at knots return stored data; at "
    "the end a fully specified conversion home restores the original numbers. A second check enumerates single-step "
    "edges (every fully specified target of one quantity) from generated configurations. Non-trivial = history with >= 2 "
    "effective steps incl. a mode/basis change; distinct by (start labels, op sequence)."
)
ASSUMPTIONS = [
    "reference conversion model pbt/ref_units.py (SI + CoolProp PropsSI); rel 1e-9 per step, 2e-4 when a unit with a "
    "rounded library constant is involved",
    "whether an under-specified conversion call is accepted or refused is not prescribed - only validity and consistency",
    "'refused' = any exception",
]


def worker_init():
    K.reset_registries()


# ---- strategies ------------------------------------------------------------------------------------------------------
OMIT = "<omit>"
_UNKNOWN = ["xx", "Bar", "volume", "relative %", "gram", ""]
_NEAR = {"pressure": ["relative %", "Absolute", "rel", "relative%%"],
         "loading": ["volume", "volume", "Molar", "volume_gaz", "vol_gas"],
         "material": ["volume_gas", "volume_liquid", "Mass", "fraction"]}
_ALL_UNITS = sorted(set(ru.PRESSURE_PA) | set(ru.MOLAR_MOL) | set(ru.MASS_G) | set(ru.VOLUME_CM3))


def _arg(valid, other):
    return st.one_of(
        st.sampled_from(valid), st.sampled_from(valid), st.sampled_from(valid), st.sampled_from(valid),
        st.just(OMIT), st.sampled_from(other), st.sampled_from(_UNKNOWN), st.none())


@st.composite
def _target(draw, reps, modes, near=()):
    """A (mode, unit) target: mostly coherent (a real representation), sometimes partial / incoherent.
    (explicit selector: nested one_of would let the many-branched 'wild' alternative dominate)"""
    kind = draw(st.sampled_from(["coherent"] * 9 + ["partial_unit", "partial_mode", "wild"] + (["near_miss"] if near else [])))
    if kind == "near_miss":
        # a name that is valid in ANOTHER slot, an old spelling or another letter case - with a perfectly good unit
        r = draw(st.sampled_from(reps))
        return {"mode": draw(st.sampled_from(list(near))), "unit": r[1] if r[1] is not None else OMIT}
    if kind == "wild":
        return {"mode": draw(_arg(list(modes), ["mass", "absolute", "fraction"])), "unit": draw(_arg(_ALL_UNITS, ["K", "°C"]))}
    r = draw(st.sampled_from(reps))
    if kind == "coherent":
        return {"mode": r[0], "unit": r[1] if r[1] is not None else OMIT}
    if kind == "partial_unit":
        return {"mode": OMIT, "unit": r[1] if r[1] is not None else OMIT}
    return {"mode": r[0], "unit": OMIT}


def op_strategy():
    p = _target(ru.P_REPS, ru.PRESSURE_MODES, _NEAR["pressure"]).map(lambda t: dict(op="pressure", **t))
    l = _target(ru.L_REPS, list(ru.LOADING_BASES), _NEAR["loading"]).map(lambda t: dict(op="loading", **t))
    m = _target(ru.M_REPS, list(ru.MATERIAL_BASES), _NEAR["material"]).map(lambda t: dict(op="material", **t))
    t = st.sampled_from(["K", "°C", "°C", "K", "C", "c", "K", "°C", "xx", "Bar", None]).map(
        lambda u: {"op": "temperature", "unit": u})
    conv = st.builds(
        lambda a, b, c: {"op": "convert", "pressure": a, "loading": b, "material": c},
        st.one_of(st.none(), _target(ru.P_REPS, ru.PRESSURE_MODES, _NEAR["pressure"])),
        st.one_of(st.none(), _target(ru.L_REPS, list(ru.LOADING_BASES), _NEAR["loading"])),
        st.one_of(st.none(), _target(ru.M_REPS, list(ru.MATERIAL_BASES), _NEAR["material"])))
    read = st.integers(0, 1000).map(lambda k: {"op": "read", "k": k})
    return st.sampled_from(["p", "l", "l", "m", "m", "t", "c", "c", "r"]).flatmap(
        lambda k: {"p": p, "l": l, "m": m, "t": t, "c": conv, "r": read}[k])


def strat_history():
    return st.builds(lambda iso, ops: {"iso": iso, "ops": ops},
                     S.point_desc(handicap=0.15, max_points=8), st.lists(op_strategy(), min_size=3, max_size=12))


# ---- the model --------------------------------------------------------------------------------------------------------
class Model:
    def __init__(self, desc, iso):
        self.desc = desc
        self.units0 = dict(desc["units"])
        self.p0 = np.array(desc["pressure"], dtype=float)
        self.l0 = np.array(desc["loading"], dtype=float)
        self.T0 = float(desc["T"])
        hc = desc.get("handicap")
        if hc == "no_backend":
            self.fluid = None
        elif hc == "user_constants":
            self.fluid = ru.UserFluid(*desc["user_fluid"])
        else:
            self.fluid = next(e for e in K.backend_table() if e[0] == desc["adsorbate"])[1]
        self.T_K = desc["T_K"]
        self.supercritical = hc == "supercritical"
        self.density = desc["material"].get("density")
        self.mm = desc["material"].get("molar_mass")
        self.frame0 = iso.data_raw.copy(deep=True)
        self.props0 = dict(iso.properties)
        self.mat_props0 = dict(iso.material.properties)
        self.ads0 = iso.adsorbate

    def expected(self, units):
        """Reference data for the labels `units`; returns (p, l, T) or raises ru.RefRefusal / ValueError when the
        conversion is physically impossible for this isotherm."""
        p0r, l0r, m0r = K.reps_of(self.units0)
        pr, lr, mr = K.reps_of(units)
        fluid = self.fluid
        T = self.T_K
        try:
            p = np.array([ru.conv_pressure(v, p0r, pr, fluid, T) for v in self.p0])
            l = np.array([ru.conv_full_loading(v, l0r, m0r, lr, mr, fluid, T, self.density, self.mm) for v in self.l0])
        except (ValueError, TypeError) as e:  # CoolProp refuses (supercritical) / no fluid
            raise ru.RefRefusal(str(e))
        t = ru.conv_temperature(self.T0, self.units0["temperature_unit"], _norm_T(units["temperature_unit"]))
        return p, l, t

    def tol(self, units):
        p0r, l0r, m0r = K.reps_of(self.units0)
        pr, lr, mr = K.reps_of(units)
        return ru.tol_for(p0r, pr, base=1e-8), ru.tol_for(l0r, lr, m0r, mr, base=1e-8)


def _norm_T(u):
    return "°C" if u in ("C", "c", "°C") else u


def _labels_valid(iso):
    u = iso.units
    if u["pressure_mode"] not in ru.PRESSURE_MODES:
        return f"pressure_mode {u['pressure_mode']!r}"
    if u["pressure_mode"] == "absolute":
        if u["pressure_unit"] not in ru.PRESSURE_PA:
            return f"pressure_unit {u['pressure_unit']!r} in absolute mode"
    elif u["pressure_unit"] is not None:
        return f"pressure_unit {u['pressure_unit']!r} in {u['pressure_mode']} mode"
    if u["loading_basis"] not in ru.LOADING_BASES:
        return f"loading_basis {u['loading_basis']!r}"
    if ru.LOADING_BASES[u["loading_basis"]] is not None:
        if u["loading_unit"] not in ru.LOADING_BASES[u["loading_basis"]]:
            return f"loading_unit {u['loading_unit']!r} for basis {u['loading_basis']}"
    elif u["loading_unit"] is not None:
        return f"loading_unit {u['loading_unit']!r} for basis {u['loading_basis']}"
    if u["material_basis"] not in ru.MATERIAL_BASES:
        return f"material_basis {u['material_basis']!r}"
    if u["material_unit"] not in ru.MATERIAL_BASES[u["material_basis"]]:
        return f"material_unit {u['material_unit']!r} for basis {u['material_basis']}"
    if u["temperature_unit"] not in ("K", "°C"):
        return f"temperature_unit {u['temperature_unit']!r}"
    try:
        BaseIsotherm(material=iso.material, adsorbate=str(iso.adsorbate), temperature=iso._temperature, **u)
    except Exception as e:  # noqa
        return f"constructor rejects labels {u}: {type(e).__name__}: {e}"
    return None


def _snapshot(iso):
    return (dict(iso.units), K.frame_fingerprint(iso.data_raw), iso._temperature)


def _col_close(a, b):
    """Columns of two frame fingerprints: numeric columns to 1e-12 (an equivalent order of operations may round
    differently), everything else exactly."""
    if len(a) != len(b):
        return False
    for x, y in zip(a, b):
        if isinstance(x, float) and isinstance(y, float):
            if not (x == y or abs(x - y) <= 1e-12 * max(abs(x), abs(y))):
                return False
        elif x != y:
            return False
    return True


def _kwargs(t, mode_key, unit_key):
    kw = {}
    if t is None:
        return kw
    if t["mode"] != OMIT:
        kw[mode_key] = t["mode"]
    if t["unit"] != OMIT:
        kw[unit_key] = t["unit"]
    return kw


def _apply(iso, op):
    """Issue the operation; returns None or the exception."""
    try:
        if op["op"] == "pressure":
            iso.convert_pressure(**_kwargs(op, "mode_to", "unit_to"))
        elif op["op"] == "loading":
            iso.convert_loading(**_kwargs(op, "basis_to", "unit_to"))
        elif op["op"] == "material":
            iso.convert_material(**_kwargs(op, "basis_to", "unit_to"))
        elif op["op"] == "temperature":
            iso.convert_temperature(op["unit"])
        elif op["op"] == "convert":
            kw = {}
            kw.update(_kwargs(op["pressure"], "pressure_mode", "pressure_unit"))
            kw.update(_kwargs(op["loading"], "loading_basis", "loading_unit"))
            kw.update(_kwargs(op["material"], "material_basis", "material_unit"))
            iso.convert(**kw)
        return None
    except Exception as e:  # noqa - 'refused' = any exception; the state oracle below decides
        return e


def _check_state(iso, model, where, nsteps):
    bad = _labels_valid(iso)
    if bad:
        raise Violation(f"{where}: invalid labels: {bad}", tag="invalid_labels")
    u = iso.units
    # frame invariants
    df, df0 = iso.data_raw, model.frame0
    if list(df.columns) != list(df0.columns) or list(df.index) != list(df0.index):
        raise Violation(f"{where}: columns / index changed", tag="frame_changed")
    for c in df.columns:
        if c in (iso.pressure_key, iso.loading_key):
            continue
        if df[c].tolist() != df0[c].tolist():
            raise Violation(f"{where}: column {c!r} changed: {df0[c].tolist()} -> {df[c].tolist()}", tag="column_changed")
    if dict(iso.properties) != model.props0:
        raise Violation(f"{where}: metadata changed: {model.props0} -> {iso.properties}", tag="metadata_changed")
    if dict(iso.material.properties) != model.mat_props0 or iso.adsorbate is not model.ads0:
        raise Violation(f"{where}: material/adsorbate changed", tag="material_changed")
    # consistency with the reference conversion of the ORIGINAL data
    p = df[iso.pressure_key].to_numpy(dtype=float)
    l = df[iso.loading_key].to_numpy(dtype=float)
    try:
        ep, el, et = model.expected(u)
    except ru.RefRefusal as e:
        raise Violation(f"{where}: isotherm is in representation {u} although that conversion is physically impossible "
                        f"for it ({model.desc.get('handicap')}: {e})", tag="impossible_representation")
    tp, tl = model.tol(u)
    k = max(1, nsteps)
    if not allclose(p, ep, rel=tp * k):
        raise Violation(f"{where}: pressure column {p.tolist()} != original converted to {K.reps_of(u)[0]} "
                        f"{ep.tolist()}", tag="pressure_inconsistent")
    if not allclose(l, el, rel=tl * k):
        raise Violation(f"{where}: loading column {l.tolist()} != original converted to {K.reps_of(u)[1:]} "
                        f"{el.tolist()}", tag="loading_inconsistent")
    if not abs(iso._temperature - et) <= 1e-9 * max(abs(et), 273.15) * k:
        raise Violation(f"{where}: temperature {iso._temperature} {u['temperature_unit']} != {et}", tag="temperature_inconsistent")
    if not abs(iso.temperature - model.T_K) <= 1e-9 * model.T_K * k:
        raise Violation(f"{where}: kelvin temperature {iso.temperature} != {model.T_K}", tag="temperature_inconsistent")


def _check_naming(iso, op, where):
    u = iso.units

    def one(t, mode_key, unit_key, dimless):
        if t is None:
            return
        if t["mode"] != OMIT and t["mode"] and u[mode_key] != t["mode"]:
            raise Violation(f"{where}: requested {mode_key}={t['mode']!r} but label is {u[mode_key]!r}", tag="naming")
        if t["unit"] != OMIT and t["unit"] and u[mode_key] not in dimless and u[unit_key] != t["unit"]:
            raise Violation(f"{where}: requested {unit_key}={t['unit']!r} but label is {u[unit_key]!r}", tag="naming")

    if op["op"] == "pressure":
        one(op, "pressure_mode", "pressure_unit", ("relative", "relative%"))
    elif op["op"] == "loading":
        one(op, "loading_basis", "loading_unit", ("fraction", "percent"))
    elif op["op"] == "material":
        one(op, "material_basis", "material_unit", ())
    elif op["op"] == "convert":
        one(op["pressure"], "pressure_mode", "pressure_unit", ("relative", "relative%"))
        one(op["loading"], "loading_basis", "loading_unit", ("fraction", "percent"))
        one(op["material"], "material_basis", "material_unit", ())
    elif op["op"] == "temperature":
        if _norm_T(u["temperature_unit"]) != _norm_T(op["unit"]):
            raise Violation(f"{where}: requested temperature unit {op['unit']!r}, label {u['temperature_unit']!r}", tag="naming")


def _read_check(iso, model, k, where):
    """loading_at / pressure_at at a measured adsorption point must return the stored datum (catches stale caches)."""
    df = iso.data_raw
    ads = df[df["branch"] == 0]
    if len(ads) < 2:
        return False
    p = ads[iso.pressure_key].to_numpy(dtype=float)
    l = ads[iso.loading_key].to_numpy(dtype=float)
    if not (np.all(np.diff(p) > 0)):
        return False
    i = k % len(p)
    got = float(iso.loading_at(p[i], branch="ads"))
    if not allclose(got, l[i], rel=1e-9, abs_=1e-300):
        raise Violation(f"{where}: loading_at(stored pressure {p[i]}) = {got}, stored loading {l[i]} (stale interpolator?)",
                        tag="stale_read")
    nat = iso.pressure(branch="ads")
    if not np.array_equal(np.asarray(nat, dtype=float), p):
        raise Violation(f"{where}: pressure() != stored column", tag="stale_read")
    if np.all(np.diff(l) > 0):
        gotp = float(iso.pressure_at(l[i], branch="ads"))
        if not allclose(gotp, p[i], rel=1e-9, abs_=1e-300):
            raise Violation(f"{where}: pressure_at(stored loading {l[i]}) = {gotp}, stored pressure {p[i]}", tag="stale_read")
    return True


def _prelude_other_namesake(d):
    """Earlier in the same process, ANOTHER user-made gas was registered under the same name (other vapour pressure and
    densities), an isotherm on it converted through every pressure mode, and the registration removed again. Nothing
    of that may show in the conversions of the isotherm under test."""
    import copy
    d0 = copy.deepcopy(d)
    uf = d0["user_fluid"]
    d0["user_fluid"] = [uf[0] * 2.5, uf[1] * 0.5, uf[2] * 1.7, uf[3] * 0.6]
    K.reset_registries()
    other = K.build_point(d0)
    for unit in ("bar", "Pa", "kPa", "torr"):
        for mode, u in (("relative", None), ("absolute", unit), ("relative%", None), ("absolute", unit)):
            try:
                other.convert_pressure(mode_to=mode, unit_to=u)
            except pgError:
                return
    for basis, u in (("volume_liquid", "cm3"), ("volume_gas", "cm3"), ("mass", "g"), ("molar", "mmol")):
        try:
            other.convert_loading(basis_to=basis, unit_to=u)
        except pgError:
            return


def check_history(desc, ctx):
    if desc["iso"].get("user_fluid"):
        _prelude_other_namesake(desc["iso"])
        ctx.label("prelude_other_namesake")
    K.reset_registries()
    iso = K.build_point(desc["iso"])
    model = Model(desc["iso"], iso)
    _check_state(iso, model, "after construction", 0)
    # a bystander: a second isotherm made from the first one's own table (the working-copy idiom without .copy()); no
    # call is ever made on it, so its stored data and labels must stay what they are
    try:
        twin = pygaps.PointIsotherm.from_isotherm(iso, isotherm_data=iso.data_raw, pressure_key=iso.pressure_key,
                                                  loading_key=iso.loading_key)
        twin0 = _snapshot(twin)
    except Exception:  # noqa - the idiom is not part of this property; without a twin the clause is simply not exercised
        twin = twin0 = None
    effective = 0
    mode_changes = 0
    nsteps = 0
    for n, op in enumerate(desc["ops"]):
        where = f"step {n} {op}"
        if op["op"] == "read":
            if _read_check(iso, model, op["k"], where):
                ctx.label("read")
            continue
        pre = _snapshot(iso)
        clone = K.clone_point(iso) if op["op"] == "convert" else None
        err = _apply(iso, op)
        post = _snapshot(iso)
        nsteps += 1
        if twin is not None and _snapshot(twin) != twin0:
            now = _snapshot(twin)
            raise Violation(f"{where}: the conversion of one isotherm changed ANOTHER isotherm built from the same table (no "
                            f"call was made on it): labels {twin0[0]} -> {now[0]}; data changed={twin0[1] != now[1]}",
                            tag="bystander_changed")
        if err is not None:
            ctx.label("refused")
            if op["op"] != "convert":
                if post != pre:
                    raise Violation(f"{where}: refused with {type(err).__name__} ({str(err)[:120]}) but the isotherm changed: "
                                    f"labels {pre[0]} -> {post[0]}; data changed={pre[1] != post[1]}", tag="refusal_changed_state")
            else:
                ctx.label("convert_refused")
        if op["op"] == "convert":
            # differential: convert() == its documented sequence of single steps, stopping at the first refusal
            cerr = None
            for sub, key in (("pressure", "pressure"), ("material", "material"), ("loading", "loading")):
                t = op[key]
                if t is None or not _kwargs(t, "m", "u") or not any(v for v in _kwargs(t, "m", "u").values()):
                    continue
                cerr = _apply(clone, dict(op=sub, **t))
                if cerr is not None:
                    break
            cs = _snapshot(clone)
            if (cerr is None) != (err is None):
                raise Violation(f"{where}: convert() {'raised ' + type(err).__name__ if err else 'succeeded'} but the sequence "
                                f"of single steps {'raised ' + type(cerr).__name__ if cerr else 'succeeded'}", tag="convert_vs_steps")
            same = (cs[0] == post[0] and cs[1][:3] == post[1][:3] and abs(cs[2] - post[2]) <= 1e-12 * max(1.0, abs(cs[2])) and
                    all(_col_close(a, b) for a, b in zip(cs[1][3], post[1][3])))
            if not same:
                raise Violation(f"{where}: state after convert() differs from pressure->material->loading single steps "
                                f"(stopping at the first refusal): labels {post[0]} vs {cs[0]}", tag="convert_vs_steps")
        if err is None:
            _check_naming(iso, op, where)
            if post[0] != pre[0] or post[2] != pre[2]:
                effective += 1
                if any(post[0][k] != pre[0][k] for k in ("pressure_mode", "loading_basis", "material_basis")):
                    mode_changes += 1
        _check_state(iso, model, where, nsteps)
    # ---- going home with fully specified arguments restores the original numbers
    u0 = model.units0
    steps = {
        "pressure": lambda: iso.convert_pressure(mode_to=u0["pressure_mode"], unit_to=u0["pressure_unit"]),
        "material": lambda: iso.convert_material(basis_to=u0["material_basis"], unit_to=u0["material_unit"]),
        "loading": lambda: iso.convert_loading(basis_to=u0["loading_basis"], unit_to=u0["loading_unit"]),
        "temperature": lambda: iso.convert_temperature(u0["temperature_unit"]),
    }
    # Either order of the material / loading steps is a legitimate way home (for isotherms lacking some physical
    # data only one of them may be possible: the reverse of the way out).
    pending = ["pressure", "material", "loading", "temperature"]
    progress = True
    last_err = None
    while pending and progress:
        progress = False
        for name in list(pending):
            try:
                steps[name]()
            except Exception as e:  # noqa
                last_err = (name, e)
                continue
            pending.remove(name)
            progress = True
            nsteps += 1
    if pending:
        name, e = last_err
        raise Violation(f"going home: convert_{name} back to the starting representation {u0} from {iso.units} was "
                        f"refused in every order: {type(e).__name__}: {str(e)[:150]}", tag="home_refused")
    if K.reps_of(iso.units) != K.reps_of(u0) or iso.units["temperature_unit"] != u0["temperature_unit"]:
        raise Violation(f"going home: labels {iso.units} != starting labels {u0}", tag="home_labels")
    _check_state(iso, model, "after going home", nsteps)
    if effective >= 2 and mode_changes >= 1:
        ctx.nt([desc["iso"]["units"], [_opkey(o) for o in desc["ops"]]], desc)
    if desc["iso"].get("handicap"):
        ctx.label("handicap_" + desc["iso"]["handicap"])
    if K.reps_of(u0)[1][1] is None:
        ctx.label("starts_fraction")
    ctx.label(f"effective_{min(effective, 5)}")


def _opkey(o):
    return [o.get("op"), o.get("mode"), o.get("unit"), o.get("pressure"), o.get("loading"), o.get("material")]


# ---- single-step edges: every fully specified target of one quantity from a generated configuration --------------
def strat_edges():
    return S.point_desc(handicap=0.0, max_points=3, extras=False, meta=False, desorption=False)


def check_edges(desc, ctx):
    K.reset_registries()
    base = K.build_point(desc)
    model = Model(desc, base)
    u0 = dict(desc["units"])
    n = 0
    for quantity, reps in (("pressure", ru.P_REPS), ("loading", ru.L_REPS), ("material", ru.M_REPS)):
        for r in reps:
            iso = K.build_point(desc)
            if quantity == "pressure":
                op = {"op": "pressure", "mode": r[0], "unit": r[1] if r[1] else OMIT}
            elif quantity == "loading":
                op = {"op": "loading", "mode": r[0], "unit": r[1] if r[1] else OMIT}
            else:
                op = {"op": "material", "mode": r[0], "unit": r[1]}
            where = f"edge {K.reps_of(u0)} --{op}-->"
            err = _apply(iso, op)
            if err is not None:
                raise Violation(f"{where} refused ({type(err).__name__}: {str(err)[:150]}) although the target is fully "
                                "specified and physically possible", tag="edge_refused")
            _check_naming(iso, op, where)
            _check_state(iso, model, where, 1)
            n += 1
    for tu in ("K", "°C"):
        iso = K.build_point(desc)
        iso.convert_temperature(tu)
        _check_state(iso, model, f"edge temperature -> {tu}", 1)
    ctx.nt([u0, desc["adsorbate"], round(desc["T_K"], 3)], desc)
    ctx.label("edges", )
    ctx.labels["edges_total"] += n


CHECKS = [
    Check("histories", check_history, strategy=strat_history, budget={"quick": 4000, "thorough": 60000},
          rule="model-based conversion histories, 3-12 steps + going home"),
    Check("single_step_edges", check_edges, strategy=strat_edges, budget={"quick": 320, "thorough": 10260},
          rule="from a generated configuration: all 10 + 27 + 19 + 2 fully specified single-quantity targets"),
]
