"""Class predicates of the open known findings (see known_findings.json).

Each predicate gets (check_name, descriptor, violation) and must be narrow: it names the specific input class and
the specific violation tag of one recorded defect, so any other violation of the same property is still reported.
"""
