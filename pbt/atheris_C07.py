"""C07 - coverage-guided campaign (atheris / libFuzzer) on the CSV metadata codec and header loop.

Run as a subprocess by the `csv_codec_fuzz` check of pbt/props/C07.py (thorough tier):

    python -m pbt.atheris_C07 --runs N --seed S [--corpus seeded|empty]

Target: one metadata-only isotherm with ONE generated (key, value) entry -> isotherm_to_csv -> isotherm_from_csv, with
the C07 oracle inside the target. hypothesis' `fuzz_one_input` is the structure-aware mutator: libFuzzer mutates the
byte string that drives the strategy, coverage feedback comes from the instrumented pygaps.utilities.string_utilities and
pygaps.parsing.csv.  The value is classified by python rules that do not use cast_string:

* in the CSV value domain (non-negative int, negative int, finite float, bool, plain text): the entry must come back with
  the same value and type;
* outside (text that may be read as number/bool/none/list, edge blanks, separator, quotes, control characters): a pgError
  or an exact round trip.

Violations that belong to a class of the known-findings ledger (same predicates as the property module) are counted, any
other violation is printed (first of each violation tag) as one line `VIOLATION <json>`; `FUZZ-STATS <json>` lines report
progress (the last one counts).
"""
import argparse
import json
import os
import sys


def main(argv=None):
    ap = argparse.ArgumentParser()
    ap.add_argument("--runs", type=int, default=20000)
    ap.add_argument("--seed", type=int, default=1)
    ap.add_argument("--corpus", default="seeded", choices=["seeded", "empty"])
    a = ap.parse_args(argv)

    import atheris
    with atheris.instrument_imports(include=["pygaps.utilities.string_utilities", "pygaps.parsing.csv"]):
        import pygaps.utilities.string_utilities  # noqa
        import pygaps.parsing.csv  # noqa

    import logging
    import warnings
    warnings.filterwarnings("ignore")
    import pygaps
    pygaps.logger.setLevel(logging.CRITICAL)
    for h in list(pygaps.logger.handlers):
        h.setLevel(logging.CRITICAL)

    from hypothesis import given, settings, HealthCheck
    from hypothesis import strategies as st

    from pbt import core
    from pbt.ledger import Ledger
    import pbt.props.C07 as M

    ledger = Ledger()
    check_in = next(c for c in M.CHECKS if c.name == "csv_roundtrip")
    check_out = next(c for c in M.CHECKS if c.name == "csv_outside")
    stats = {"runs": 0, "inside": 0, "outside": 0, "known": 0, "refused": 0, "violations": 0}
    found = {}

    text = st.text(max_size=12)
    value = st.one_of(text, text, st.integers(-10 ** 9, 10 ** 9), st.floats(allow_nan=False, allow_infinity=False),
                      st.booleans(), st.sampled_from(M._NUMTEXT + M._BOOLTEXT + M._NONETEXT + M._LISTTEXT))
    key = st.one_of(st.sampled_from(M._KEYS), st.text(alphabet="abcdehlmotDM_:.-1", min_size=1, max_size=8))

    def run_one(k, v):
        if k in M.RESERVED or k.startswith("_material_") or k != k.strip() or "," in k or " " in k:
            return
        cls = M.classify_value(v, sep=",")
        inside = not cls.startswith("out:")
        if k.startswith("data") or k.startswith("model"):
            # suspect key classes of the property module (one special thing per case: only with a healthy value)
            if not inside or cls == "in:negint":
                return
            cls = "in:key_data_prefix" if k.startswith("data") else "in:key_model_prefix"
        desc = M.minimal_case("csv", k, v, cls.split(":", 1)[1])
        chk = check_in if inside else check_out
        ctx = core.Ctx("C07", chk.name, "fuzz")
        stats["runs"] += 1
        stats["inside" if inside else "outside"] += 1
        viol = core.run_case(chk, desc, ctx, ledger)
        stats["known"] += sum(ctx.known.values())
        stats["refused"] += sum(n for lab, n in ctx.labels.items() if lab.startswith("refused:"))
        if viol is not None:
            stats["violations"] += 1
            if viol.tag not in found:
                found[viol.tag] = {"check": chk.name, "case": core.jsonable(desc), "message": viol.message, "tag": viol.tag}
                print("VIOLATION " + json.dumps(found[viol.tag], sort_keys=True), flush=True)
        if stats["runs"] % 500 == 0:
            print("FUZZ-STATS " + json.dumps(stats, sort_keys=True), flush=True)

    @settings(database=None, deadline=None, suppress_health_check=list(HealthCheck))
    @given(key, value)
    def target(k, v):
        run_one(k, v)

    corpus_dir = None
    args = [sys.argv[0], f"-runs={a.runs}", f"-seed={a.seed}", "-max_len=256", "-print_final_stats=0", "-verbosity=0"]
    if a.corpus == "seeded":
        # a few explicit examples first (not bytes: they go straight through the target)
        for k, v in [("k1", "12"), ("k1", "-3"), ("k1", -3), ("data_x", "a"), ("model_from", "Langmuir"), ("k1", "²"),
                     ("k1", "a b"), ("k1", True), ("k1", 1e-300), ("k1", "[a b]"), ("k1", "é中")]:
            run_one(k, v)

    def test_one_input(data):
        target.hypothesis.fuzz_one_input(data)

    def finish():
        print("FUZZ-STATS " + json.dumps(stats, sort_keys=True), flush=True)

    import atexit
    atexit.register(finish)
    atheris.Setup(args, test_one_input)
    atheris.Fuzz()


if __name__ == "__main__":
    main()
