"""Core of the PBT framework: Violation, Check registry, per-worker context, hypothesis driver."""
import hashlib
import json
import math
import os
import sys
import traceback
from collections import Counter

HERE = os.path.dirname(os.path.dirname(os.path.abspath(__file__)))
PBT_DIR = os.path.join(HERE, "pbt")


class Violation(Exception):
    """The property is violated by the library on this case."""

    def __init__(self, message, tag="", detail=None):
        super().__init__(message)
        self.message = message
        self.tag = tag  # short machine-readable class of the violation (used by the ledger)
        self.detail = detail


class Inconclusive(Exception):
    """The case says nothing about the property (e.g. library reported a numerical failure)."""


class HarnessError(Exception):
    pass


def canon(obj):
    """Canonical JSON text of a descriptor (used for hashing and distinctness)."""
    return json.dumps(obj, sort_keys=True, default=_json_default, separators=(",", ":"))


def _json_default(o):
    import numpy as np
    if isinstance(o, (np.integer,)):
        return int(o)
    if isinstance(o, (np.floating,)):
        return float(o)
    if isinstance(o, np.ndarray):
        return o.tolist()
    if isinstance(o, (set, frozenset, tuple)):
        return sorted(o, key=str) if isinstance(o, (set, frozenset)) else list(o)
    return repr(o)


def jsonable(obj):
    return json.loads(canon(obj))


def h16(obj):
    return hashlib.sha1(canon(obj).encode()).hexdigest()[:16]


def derive_seed(*parts):
    s = "|".join(str(p) for p in parts)
    return int.from_bytes(hashlib.sha256(s.encode()).digest()[:8], "big")


class Check:
    """One executable clause of a property.

    mode 'hyp'  : `strategy()` returns a hypothesis strategy of JSON-able descriptors; `budget[tier]` cases
                  (split over the shards) are drawn.
    mode 'enum' : `cases(tier, seed)` returns a deterministic list / generator of descriptors; all are executed
                  (split over shards by position); the sub-space is reported exhaustive if `exhaustive`.
    fn(desc, ctx) raises Violation / Inconclusive or returns.
    """

    def __init__(self, name, fn, mode="hyp", strategy=None, cases=None, budget=None, shrink=True,
                 exhaustive=False, rule="", shrink_quick=None, max_shards=None):
        self.name = name
        self.fn = fn
        self.mode = mode
        self.strategy = strategy
        self.cases = cases
        self.budget = budget or {"quick": 200, "thorough": 2000}
        self.shrink = shrink
        self.shrink_quick = shrink if shrink_quick is None else shrink_quick
        self.exhaustive = exhaustive
        self.rule = rule
        self.max_shards = max_shards


class Ctx:
    """Per-worker, per-check recorder."""

    MAX_SAMPLES = 4

    def __init__(self, prop, check_name, tier):
        self.prop = prop
        self.check = check_name
        self.tier = tier
        self.evaluations = 0
        self.labels = Counter()
        self.nontrivial = set()
        self.samples = []
        self.known = Counter()
        self.inconclusive = 0
        self.violations = []
        self._in_replay = False

    def label(self, *names):
        for n in names:
            self.labels[n] += 1

    def nt(self, key, sample=None):
        """Register a non-trivial case; `key` defines distinctness."""
        hk = h16([self.check, key])
        if hk not in self.nontrivial:
            self.nontrivial.add(hk)
            if sample is not None and len(self.samples) < self.MAX_SAMPLES:
                self.samples.append(jsonable(sample))

    def dump(self):
        return {
            "check": self.check,
            "evaluations": self.evaluations,
            "labels": dict(self.labels),
            "nontrivial": sorted(self.nontrivial),
            "samples": self.samples,
            "known": dict(self.known),
            "inconclusive": self.inconclusive,
            "violations": self.violations,
        }


def _innermost_is_library(tb):
    """True when the innermost frame of the traceback lies outside the harness (i.e. in pygaps or below it
    with no harness frame after the last pygaps frame)."""
    frames = traceback.extract_tb(tb)
    repo = os.path.realpath(os.environ.get("VERIF_REPO", "/repo"))
    last_pbt = -1
    last_lib = -1
    for i, fr in enumerate(frames):
        fn = os.path.realpath(fr.filename)
        if fn.startswith(PBT_DIR):
            last_pbt = i
        if fn.startswith(repo):
            last_lib = i
    return last_lib > last_pbt, frames


def lib_crash_to_violation(exc):
    """Convert an unexpected exception that escaped from library code into a Violation; harness bugs stay."""
    is_lib, frames = _innermost_is_library(exc.__traceback__)
    if not is_lib:
        return None
    where = "?"
    repo = os.path.realpath(os.environ.get("VERIF_REPO", "/repo"))
    for fr in reversed(frames):
        if os.path.realpath(fr.filename).startswith(repo):
            where = f"{os.path.relpath(os.path.realpath(fr.filename), repo)}:{fr.name}"
            break
    return Violation(
        f"library raised unexpected {type(exc).__name__}: {str(exc)[:200]} at {where}",
        tag=f"crash:{type(exc).__name__}:{where}",
    )


def run_case(check, desc, ctx, ledger=None):
    """Run one case. Returns None (pass / inconclusive / known) or a Violation (unknown)."""
    ctx.evaluations += 1
    try:
        check.fn(desc, ctx)
        return None
    except Inconclusive:
        ctx.inconclusive += 1
        return None
    except Violation as v:
        viol = v
    except HarnessError:
        raise
    except (KeyboardInterrupt, SystemExit, MemoryError):
        raise
    except BaseException as e:  # noqa
        viol = lib_crash_to_violation(e)
        if viol is None:
            raise
    if ledger is not None:
        fid = ledger.match(ctx.prop, check.name, desc, viol)
        if fid:
            ctx.known[fid] += 1
            return None
    return viol


def drive_hyp(check, n, seed, ctx, ledger, shrink=True):
    import hypothesis
    from hypothesis import HealthCheck, Phase, given, settings

    failing = {}

    phases = [Phase.explicit, Phase.generate]
    if shrink:
        phases.append(Phase.shrink)

    @hypothesis.seed(seed)
    @settings(
        max_examples=max(1, n), database=None, deadline=None, derandomize=False,
        report_multiple_bugs=False, phases=phases,
        suppress_health_check=[HealthCheck.too_slow, HealthCheck.data_too_large],
        verbosity=hypothesis.Verbosity.quiet,
    )
    @given(check.strategy())
    def t(desc):
        v = run_case(check, desc, ctx, ledger)
        if v is not None:
            failing["last"] = (jsonable(desc), v)
            raise v

    try:
        t()
    except Violation:
        desc, v = failing["last"]
        ctx.violations.append({"check": check.name, "case": desc, "message": v.message, "tag": v.tag,
                               "seed": seed})
    except hypothesis.errors.Flaky as e:
        # the check was not deterministic on a case: report the last failing case but mark it
        if "last" in failing:
            desc, v = failing["last"]
            ctx.violations.append({"check": check.name, "case": desc, "message": "[flaky] " + v.message,
                                   "tag": v.tag, "seed": seed})
        else:
            raise HarnessError(f"flaky harness in {check.name}: {e}")


def drive_enum(check, tier, seed, shard, nshards, ctx, ledger):
    best = None
    nfail = 0
    for i, desc in enumerate(check.cases(tier, seed)):
        if i % nshards != shard:
            continue
        v = run_case(check, desc, ctx, ledger)
        if v is not None:
            nfail += 1
            size = len(canon(desc))
            if best is None or size < best[0]:
                best = (size, jsonable(desc), v)
            if nfail >= 25:
                break
    if best is not None:
        _, desc, v = best
        ctx.violations.append({"check": check.name, "case": desc, "message": v.message, "tag": v.tag,
                               "seed": seed, "failures_in_shard": nfail})


def close(a, b, rel=1e-9, abs_=0.0):
    if a == b:
        return True
    try:
        if math.isnan(a) and math.isnan(b):
            return True
    except TypeError:
        pass
    return abs(a - b) <= max(rel * max(abs(a), abs(b)), abs_)


def allclose(a, b, rel=1e-9, abs_=0.0):
    import numpy as np
    a = np.asarray(a, dtype=float)
    b = np.asarray(b, dtype=float)
    if a.shape != b.shape:
        return False
    if a.size == 0:
        return True
    both_nan = np.isnan(a) & np.isnan(b)
    with np.errstate(invalid="ignore"):
        ok = (np.abs(a - b) <= np.maximum(rel * np.maximum(np.abs(a), np.abs(b)), abs_)) | both_nan | (a == b)
    return bool(np.all(ok))
