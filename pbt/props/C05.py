"""C05 - isotherm identity is determined by content, and only by content."""
import copy
import json
import os
import subprocess
import sys

import numpy as np
import pandas as pd
from hypothesis import strategies as st

import pygaps
from pygaps.core.baseisotherm import BaseIsotherm

from pbt import case as K
from pbt import ref_units as ru
from pbt import strategies as S
from pbt.core import HERE, Check, HarnessError, Violation

LEVEL = "exploration"
RULE = (
    "Pairs of isotherms. (i) same content by another route: numpy arrays, DataFrame with default / shifted / permuted / "
    "string / float row labels, integer literals for integral values, material as object or dict, from_isotherm, clone, "
    "perturbation below the 8-decimal threshold (values on a 1e-6 grid +- <= 4e-9, -1e-12 vs 0), read-only calls and "
    "cache fills before taking the id, a second process with another PYTHONHASHSEED (batched) -> ids equal, == true, list "
    "membership true. (ii) minimally different content: one metadata value / key, one unit label, material name or "
    "property, adsorbate, temperature, one data value changed by 1e-6, one branch mark, one extra-column value, one model "
    "parameter, model name, model range, two different rows exchanged -> ids differ. Every pair is non-trivial; distinct by (route or field, descriptor)."
)
ASSUMPTIONS = [
    "data values are kept on a 1e-6 grid so that the documented 8-decimal rounding is unambiguous",
    "exchanging two different whole rows is treated as a content change (the sequence of measured points is content)",
]


def worker_init():
    K.reset_registries()


ROUTES = ["shorthand_keywords", "arrays", "frame_default", "frame_shift", "frame_perm_labels", "frame_string_labels", "frame_float_labels",
          "int_literals", "material_dict", "from_isotherm", "clone", "below_threshold", "negative_zero", "after_reads",
          "branch_as_bool", "branch_as_float", "meta_order", "temperature_literal", "meta_nan", "meta_tuple_export", "export_parse_json", "export_parse_json"]


def strat_same():
    return st.builds(lambda route, iso, k, intv: {"route": route, "iso": iso, "k": k, "int_valued": intv},
                     st.sampled_from(ROUTES), S.point_desc(min_points=1, max_points=8, grid=6, int_data=False), st.integers(0, 10 ** 6),
                     st.booleans())


def _kwargs(d, material):
    kw = dict(material=material, adsorbate=d["adsorbate"], temperature=d["T"], **d["units"])
    kw.update(copy.deepcopy(d.get("meta") or {}))
    return kw


def _frame(d, p, l, branch_col=None, index=None):
    data = {"pressure": p, "loading": l}
    for k, v in (d.get("extra") or {}).items():
        data[k] = list(v)
    if branch_col is not None:
        data["branch"] = branch_col
    return pd.DataFrame(data, index=index)


def _build(d, p, l, material=None, via="lists", index=None, branch_override=None, extra=None, shorthand=0):
    if extra is not None:
        d = dict(d, extra=extra)
    material = material if material is not None else K.build_material(d["material"])
    kw = _kwargs(d, material)
    # the documented shorthand keywords m / a / t for material / adsorbate / temperature (bit mask)
    for bit, (long, short) in enumerate((("material", "m"), ("adsorbate", "a"), ("temperature", "t"))):
        if shorthand >> bit & 1 and kw[long]:
            kw[short] = kw.pop(long)
    branch = d.get("branch", "guess") if branch_override is None else branch_override
    if via == "lists" and not d.get("extra"):
        b = [bool(x) for x in branch] if isinstance(branch, list) else branch
        return pygaps.PointIsotherm(pressure=p, loading=l, branch=b, **kw)
    if via == "arrays" and not d.get("extra"):
        b = np.array(branch, dtype=bool) if isinstance(branch, list) else branch
        return pygaps.PointIsotherm(pressure=np.array(p), loading=np.array(l), branch=b, **kw)
    if isinstance(branch, list):
        df = _frame(d, p, l, branch_col=branch, index=index)
        return pygaps.PointIsotherm(isotherm_data=df, pressure_key="pressure", loading_key="loading", **kw)
    df = _frame(d, p, l, index=index)
    return pygaps.PointIsotherm(isotherm_data=df, pressure_key="pressure", loading_key="loading", branch=branch, **kw)


def _same(a, b, what):
    ida, idb = a.iso_id, b.iso_id
    if ida != idb:
        raise Violation(f"same content built via {what}: ids differ ({ida} vs {idb}); frames:\n{a.data_raw.to_dict('list')} "
                        f"dtypes {[str(t) for t in a.data_raw.dtypes]} index {list(a.data_raw.index)}\n"
                        f"{b.data_raw.to_dict('list')} dtypes {[str(t) for t in b.data_raw.dtypes]} index {list(b.data_raw.index)}",
                        tag=f"same_content:{what}")
    if not (a == b) or not (b == a):
        raise Violation(f"same content via {what}: == is false although ids are equal", tag="eq")
    if a not in [b] or b not in [a]:
        raise Violation(f"same content via {what}: list membership false", tag="membership")
    if a.iso_id != ida:
        raise Violation("iso_id changed between two reads", tag="id_unstable")


def check_same(desc, ctx):
    K.reset_registries()
    d = desc["iso"]
    route = desc["route"]
    p, l = list(d["pressure"]), list(d["loading"])
    if desc["int_valued"] or route == "int_literals":
        # integral values (as floats): rising adsorption leg, falling desorption leg, like the generated shape
        bt0 = d["branch_true"]
        n_ads = bt0.index(1) if 1 in bt0 else len(bt0)
        p = [float(3 * (i + 1)) for i in range(n_ads)] + [float(3 * n_ads - 1 - j) for j in range(len(bt0) - n_ads)]
        l = [float(round(v * 1e3)) for v in l]
    a = _build(d, p, l)
    n = len(p)
    if route == "arrays":
        b = _build(d, p, l, via="arrays")
    elif route == "frame_default":
        b = _build(d, p, l, via="frame")
    elif route == "frame_shift":
        b = _build(d, p, l, via="frame", index=[i + 1 + desc["k"] % 7 for i in range(n)])
    elif route == "frame_perm_labels":
        b = _build(d, p, l, via="frame", index=np.random.default_rng(desc["k"]).permutation(n).tolist())
    elif route == "frame_string_labels":
        b = _build(d, p, l, via="frame", index=[f"pt{(i * 5 + desc['k']) % 97}_{i}" for i in range(n)])
    elif route == "frame_float_labels":
        b = _build(d, p, l, via="frame", index=[i + 0.5 for i in range(n)])
    elif route == "int_literals":
        # numeric supplementary columns as well: integral values as floats in a, as python ints in b
        exa = {k: ([float(round(x)) for x in v] if all(isinstance(x, float) for x in v) else v) for k, v in (d.get("extra") or {}).items()}
        exb = {k: ([int(round(x)) for x in v] if all(isinstance(x, float) for x in v) else v) for k, v in (d.get("extra") or {}).items()}
        a = _build(d, p, l, extra=exa or None)
        b = _build(d, [int(v) for v in p], [int(v) for v in l], extra=exb or None)
    elif route == "material_dict":
        b = _build(d, p, l, material=dict(d["material"]))
    elif route == "shorthand_keywords":
        b = _build(d, p, l, shorthand=1 + desc["k"] % 7)
        ctx.label("shorthand_mask_%d" % (1 + desc["k"] % 7))
    elif route == "from_isotherm":
        if d.get("branch") != "guess" or d.get("extra"):
            b = K.clone_point(a)
        else:
            b = pygaps.PointIsotherm.from_isotherm(a, pressure=p, loading=l)
    elif route == "clone":
        b = K.clone_point(a)
    elif route == "below_threshold":
        rng = np.random.default_rng(desc["k"])
        dp = rng.uniform(-4e-9, 4e-9, n)
        dl = rng.uniform(-4e-9, 4e-9, n)
        # keep the branch guess unaffected: explicit branches
        bt = a.data_raw["branch"].tolist()
        a = _build(d, p, l, branch_override=bt)
        # supplementary numeric columns are data columns too (same 8-decimal threshold)
        ex = {k: ([x + float(e) for x, e in zip(v, rng.uniform(-4e-9, 4e-9, n))] if all(isinstance(x, float) for x in v) else v)
              for k, v in (d.get("extra") or {}).items()} or None
        b = _build(d, [x + e for x, e in zip(p, dp)], [x + e for x, e in zip(l, dl)], branch_override=bt, extra=ex)
    elif route == "negative_zero":
        bt = a.data_raw["branch"].tolist()
        i = desc["k"] % n
        l0 = list(l)
        l0[i] = 0.0
        l1 = list(l)
        l1[i] = -1e-12
        a = _build(d, p, l0, branch_override=bt)
        b = _build(d, p, l1, branch_override=bt)
    elif route == "after_reads":
        b = _build(d, p, l)
        idb = b.iso_id
        b.pressure(branch="ads")
        b.loading(branch="all", indexed=True)
        b.data()
        try:
            b.loading_at(p[0] if len(p) else 0.0)
            b.pressure_at(l[0])
            b.spreading_pressure_at(p[0])
        except Exception:  # noqa - reads may be refused (non-monotone data); they must not change the id either way
            pass
        # reads in other representations (they consult the material's and the adsorbate's properties)
        for read in (lambda: b.loading(material_basis="volume", material_unit="cm3"),
                     lambda: b.loading(material_basis="molar", material_unit="mol"),
                     lambda: b.loading(material_basis="mass", material_unit="kg"),
                     lambda: b.loading(loading_basis="mass", loading_unit="g"),
                     lambda: b.loading(loading_basis="volume_liquid", loading_unit="cm3"),
                     lambda: b.pressure(pressure_mode="relative"),
                     lambda: b.pressure(pressure_mode="absolute", pressure_unit="Pa"),
                     lambda: (b.material.density, b.material.molar_mass, b.material.to_dict()),
                     lambda: b.loading_at(p[0], material_basis="volume", material_unit="cm3")):
            try:
                read()
            except Exception:  # noqa - a refused read must not change the id either
                pass
        b.to_dict()
        b.to_json()
        str(b)
        if b.iso_id != idb:
            raise Violation("iso_id changed after read-only calls", tag="id_changed_by_reads")
    elif route in ("branch_as_bool", "branch_as_float"):
        bt = a.data_raw["branch"].tolist()
        a = _build(d, p, l, via="frame", branch_override=[int(x) for x in bt])
        conv = bool if route == "branch_as_bool" else float
        b = _build(d, p, l, via="frame", branch_override=[conv(x) for x in bt])
    elif route == "meta_order":
        # same keyword arguments passed in another order (metadata, units, material properties)
        d2 = copy.deepcopy(d)
        d2["meta"] = dict(reversed(list(dict(d.get("meta") or {}, zz_last=1, aa_first="x").items())))
        d1 = copy.deepcopy(d)
        d1["meta"] = dict(d.get("meta") or {}, zz_last=1, aa_first="x")
        d2["units"] = dict(reversed(list(d["units"].items())))
        d2["material"] = dict(reversed(list(d["material"].items())))
        a = _build(d1, p, l)
        b = _build(d2, p, l)
    elif route == "meta_nan":
        # a not-a-number metadata value (e.g. a missing reading) written twice: same content, two float objects
        a = _build(dict(d, meta=dict(d.get("meta") or {}, ratio=float("nan"), parts=[1.0, float("nan")])), p, l)
        b = _build(dict(d, meta=dict(d.get("meta") or {}, ratio=float("nan"), parts=[1.0, float("nan")])), p, l)
    elif route == "meta_tuple_export":
        # a tuple-valued metadata entry vs the parse of its own JSON export (where it is a list)
        a = _build(dict(d, meta=dict(d.get("meta") or {}, dims=(1, 2))), p, l)
        from pygaps.parsing.json import isotherm_from_json
        b = isotherm_from_json(a.to_json())
    elif route == "export_parse_json":
        # a parse of the isotherm's own export - with the branch marks as generated, or interleaved user marks (scanning curves)
        marks = None
        if desc["k"] % 2:
            marks = [int(x) for x in np.random.default_rng(desc["k"]).integers(0, 2, n)]
        a = _build(d, p, l, branch_override=marks) if marks is not None else _build(d, p, l)
        from pygaps.parsing.json import isotherm_from_json
        b = isotherm_from_json(a.to_json())
        ctx.label("export_parse_json", "interleaved_marks" if marks is not None and marks != sorted(marks) else "ordered_marks")
    elif route == "temperature_literal":
        # an integral temperature given as python int / numpy integer / numpy float / text vs the float literal
        t_int = int(round(d["T"]))
        if t_int == 0 and d["units"]["temperature_unit"] == "K":
            t_int = 1
        form = [int, np.int64, np.float64, str, np.int32][desc["k"] % 5]
        a = _build(dict(d, T=float(t_int)), p, l)
        b = _build(dict(d, T=form(t_int)), p, l)
        ctx.label("temperature_literal", form.__name__)
    else:
        raise HarnessError(route)
    _same(a, b, route)
    ctx.nt([route, d["pressure"], d["loading"], d["units"], desc["int_valued"]], desc)
    ctx.label(route)


# ---- minimally different content -----------------------------------------------------------------------------------------
FIELDS = ["meta_value", "meta_key", "pressure_unit", "pressure_mode", "loading_unit", "loading_basis", "material_unit",
          "material_basis", "temperature_unit", "material_name", "material_prop", "adsorbate", "temperature",
          "pressure_value", "loading_value", "branch_mark", "extra_value", "point_added", "rows_exchanged", "meta_empty_values"]


def strat_diff():
    return st.builds(lambda field, iso, k: {"field": field, "iso": iso, "k": k},
                     st.sampled_from(FIELDS), S.point_desc(min_points=1, max_points=8, grid=6, force_extras=True, extras=True, int_data=False),
                     st.integers(0, 10 ** 6))


def _other(options, current, k):
    opts = [o for o in options if o != current]
    return opts[k % len(opts)]


def check_diff(desc, ctx):
    K.reset_registries()
    d = copy.deepcopy(desc["iso"])
    d["meta"] = dict(d.get("meta") or {})
    d["meta"].setdefault("user", "u0")
    bt = None
    a = K.build_point(d)
    bt = a.data_raw["branch"].tolist()
    d["branch"] = [int(x) for x in bt]  # explicit marks in both so that only the chosen field differs
    a = K.build_point(d)
    e = copy.deepcopy(d)
    f, k = desc["field"], desc["k"]
    u = e["units"]
    n = len(e["pressure"])
    if f == "meta_value":
        key = sorted(e["meta"])[k % len(e["meta"])]
        v = e["meta"][key]
        e["meta"][key] = (not v) if isinstance(v, bool) else (v + 1 if isinstance(v, (int, float)) else str(v) + "x")
    elif f == "meta_empty_values":
        # two different 'empty' values of different types under one key (0, '', [], {} are four different values)
        pool = [0, "", [], {}]
        i, j = k % 4, (k // 4) % 3
        d["meta"]["cycle"] = pool[i]
        e["meta"]["cycle"] = pool[(i + 1 + j) % 4]
        a = K.build_point(d)
    elif f == "meta_key":
        e["meta"]["extra_key_z"] = 1
    elif f == "pressure_unit":
        if u["pressure_mode"] != "absolute":
            u["pressure_mode"] = "absolute"
            u["pressure_unit"] = "bar"
            a = K.build_point(dict(d, units=dict(u)))
            u = e["units"] = dict(u)
        u["pressure_unit"] = _other(list(ru.PRESSURE_PA), u["pressure_unit"], k)
    elif f == "pressure_mode":
        u["pressure_mode"] = _other(list(ru.PRESSURE_MODES), u["pressure_mode"], k)
        if u["pressure_mode"] == "absolute":
            u["pressure_unit"] = "bar"
    elif f == "loading_unit":
        if u["loading_basis"] in ("fraction", "percent"):
            u["loading_basis"], u["loading_unit"] = "molar", "mmol"
            a = K.build_point(dict(d, units=dict(u)))
            u = e["units"] = dict(u)
        u["loading_unit"] = _other(list(ru.LOADING_BASES[u["loading_basis"]]), u["loading_unit"], k)
    elif f == "loading_basis":
        nb = _other(list(ru.LOADING_BASES), u["loading_basis"], k)
        u["loading_basis"] = nb
        u["loading_unit"] = None if ru.LOADING_BASES[nb] is None else list(ru.LOADING_BASES[nb])[k % len(ru.LOADING_BASES[nb])]
    elif f == "material_unit":
        u["material_unit"] = _other(list(ru.MATERIAL_BASES[u["material_basis"]]), u["material_unit"], k)
    elif f == "material_basis":
        nb = _other(list(ru.MATERIAL_BASES), u["material_basis"], k)
        u["material_basis"] = nb
        u["material_unit"] = list(ru.MATERIAL_BASES[nb])[k % len(ru.MATERIAL_BASES[nb])]
    elif f == "temperature_unit":
        u["temperature_unit"] = "°C" if u["temperature_unit"] == "K" else "K"
    elif f == "material_name":
        e["material"]["name"] = e["material"]["name"] + "-b"
    elif f == "material_prop":
        e["material"]["density"] = e["material"]["density"] + 0.25
    elif f == "adsorbate":
        names = [t[0] for t in K.backend_table()]
        e["adsorbate"] = _other(names, e["adsorbate"], k)
    elif f == "temperature":
        e["T"] = e["T"] + 0.5
    elif f == "pressure_value":
        e["pressure"][k % n] = round(e["pressure"][k % n] + 1e-6, 6)
    elif f == "loading_value":
        e["loading"][k % n] = round(e["loading"][k % n] + 1e-6, 6)
    elif f == "branch_mark":
        e["branch"][k % n] = 1 - e["branch"][k % n]
    elif f == "extra_value":
        e["extra"]["enthalpy"][k % n] = round(e["extra"]["enthalpy"][k % n] + 0.0001, 4)
    elif f == "point_added":
        e["pressure"].append(round(e["pressure"][-1] + 0.5, 6))
        e["loading"].append(e["loading"][-1])
        e["branch"].append(e["branch"][-1])
        for col in e.get("extra", {}):
            e["extra"][col].append(e["extra"][col][-1])
    elif f == "rows_exchanged":
        # two whole rows (pressure, loading, branch mark, extra values) exchange their positions: the sequence of data
        # points is different content (measurement order) although the multiset of rows is the same
        if n < 2:
            return
        i = k % n
        j = (i + 1 + (k // n) % (n - 1)) % n
        row = lambda t: (e["pressure"][t], e["loading"][t], e["branch"][t], [e["extra"][c][t] for c in sorted(e.get("extra", {}))])  # noqa
        if row(i) == row(j):
            return
        for seq in [e["pressure"], e["loading"], e["branch"]] + [e["extra"][c] for c in e.get("extra", {})]:
            seq[i], seq[j] = seq[j], seq[i]
    b = K.build_point(e)
    if a.iso_id == b.iso_id:
        raise Violation(f"content differs in {f} but the ids are equal ({a.iso_id}): {json.dumps(d, default=str)[:300]} vs changed "
                        f"{f}", tag=f"different_content:{f}")
    if a == b or a in [b]:
        raise Violation(f"content differs in {f} but == / membership is true", tag=f"different_content_eq:{f}")
    ctx.nt([f, d["pressure"], d["loading"], d["units"], k % 97], desc)
    ctx.label(f)


# ---- in-place edits of the public containers ----------------------------------------------------------------------------
INPLACE = ["meta_value", "meta_new_key", "data_value", "branch_mark", "material_prop", "extra_value"]


def strat_inplace():
    return st.builds(lambda field, iso, k, read_first: {"field": field, "iso": iso, "k": k, "read_first": read_first},
                     st.sampled_from(INPLACE), S.point_desc(min_points=1, max_points=8, grid=6, force_extras=True, extras=True, int_data=False),
                     st.integers(0, 10 ** 6), st.sampled_from([True, True, False]))


def check_inplace(desc, ctx):
    """The identifier reflects the CURRENT content: after an in-place edit of metadata / data / material properties through
    the public containers it differs from the id before the edit and equals the id of a freshly built isotherm with the
    edited content (whether or not the id was read - and possibly cached - before the edit)."""
    K.reset_registries()
    d = copy.deepcopy(desc["iso"])
    d["meta"] = dict(d.get("meta") or {}, user="u0")
    a0 = K.build_point(d)
    d["branch"] = [int(x) for x in a0.data_raw["branch"].tolist()]
    a = K.build_point(d)
    before = K.build_point(d).iso_id
    if desc["read_first"]:
        if a.iso_id != before or not (a == K.build_point(d)):
            raise Violation("two isotherms built from the same descriptor differ", tag="same_content:rebuild")
    e = copy.deepcopy(d)
    f, k = desc["field"], desc["k"]
    n = len(e["pressure"])
    i = k % n
    if f == "meta_value":
        a.properties["user"] = "u1"
        e["meta"]["user"] = "u1"
    elif f == "meta_new_key":
        a.properties["added_later"] = 7
        e["meta"]["added_later"] = 7
    elif f == "data_value":
        new = round(e["loading"][i] + 1e-6, 6)
        a.data_raw.loc[a.data_raw.index[i], a.loading_key] = new
        e["loading"][i] = new
    elif f == "branch_mark":
        new = 1 - e["branch"][i]
        a.data_raw.loc[a.data_raw.index[i], "branch"] = new
        e["branch"][i] = new
    elif f == "material_prop":
        a.material.properties["density"] = e["material"]["density"] + 0.25
        e["material"]["density"] = e["material"]["density"] + 0.25
    elif f == "extra_value":
        new = round(e["extra"]["enthalpy"][i] + 0.0001, 4)
        a.data_raw.loc[a.data_raw.index[i], "enthalpy"] = new
        e["extra"]["enthalpy"][i] = new
    fresh = K.build_point(e)
    if a.iso_id == before:
        raise Violation(f"in-place edit of {f} (id {'read' if desc['read_first'] else 'not read'} before the edit) left the "
                        f"identifier unchanged ({before})", tag=f"inplace_stale:{f}")
    if a.iso_id != fresh.iso_id or not (a == fresh) or a not in [fresh]:
        raise Violation(f"after an in-place edit of {f} the isotherm's id {a.iso_id} differs from a freshly built isotherm "
                        f"with the same content ({fresh.iso_id})", tag=f"inplace_vs_fresh:{f}")
    ctx.nt([f, desc["read_first"], d["pressure"], d["loading"], k % 97], desc)
    ctx.label(f, "read_first" if desc["read_first"] else "not_read")



# ---- model and metadata-only isotherms -----------------------------------------------------------------------------------
def strat_model():
    return st.builds(
        lambda u, at, mat, name, Kp, nm, field, meta: {
            "units": u, "adsorbate": at["adsorbate"], "T": at["T_K"] if u["temperature_unit"] == "K" else at["T_K"] - 273.15,
            "material": mat, "model": name, "K": Kp, "n_m": nm, "field": field, "meta": meta},
        S.units(), S.ads_T(), S.material(), st.sampled_from(["Langmuir", "Henry", "Toth", "DSLangmuir", "BET"]),
        st.floats(0.01, 100).map(lambda x: round(x, 6)), st.floats(0.1, 50).map(lambda x: round(x, 6)),
        st.sampled_from(["same_rebuild", "same_dict", "param", "param_last_digits", "param_small_magnitude", "param_in_place", "model_name", "range",
                         "rmse", "meta", "unit", "param_int_literals", "param_int_literals", "fit_table_labels", "model_branch"]),
        st.dictionaries(st.sampled_from(["user", "k1", "comment"]), st.one_of(st.integers(0, 5), st.text("abc", max_size=3)), max_size=2))


def _model(desc, name=None, dK=0.0, prange=(0.0, 10.0), rmse=0.0, kscale=1.0, kfactor=1.0):
    from pygaps.modelling import get_isotherm_model
    m = get_isotherm_model(name or desc["model"])
    base_k = desc["K"] * kscale * kfactor
    vals = {"K": base_k + dK, "n_m": desc["n_m"], "t": 0.7, "n_m1": desc["n_m"], "K1": base_k + dK, "n_m2": 1.5, "K2": 0.5,
            "C": base_k + dK + 1, "N": 0.3}
    m.params = {k: vals[k] for k in m.param_names}
    m.pressure_range = list(prange)
    m.loading_range = [0.0, 5.0]
    m.rmse = rmse
    return m


def _miso(desc, model, meta=None, units=None, branch=None):
    kw = dict(material=K.build_material(desc["material"]), adsorbate=desc["adsorbate"], temperature=desc["T"],
              **(units or desc["units"]))
    kw.update(desc["meta"] if meta is None else meta)
    if branch is not None:
        kw["branch"] = branch
    return pygaps.ModelIsotherm(model=model, **kw)


def check_model(desc, ctx):
    K.reset_registries()
    a = _miso(desc, _model(desc))
    f = desc["field"]
    if f == "same_rebuild":
        b = _miso(desc, _model(desc))
        same = True
    elif f == "same_dict":
        dct = a.to_dict()
        from pygaps.modelling import model_from_dict
        b = pygaps.ModelIsotherm(model=model_from_dict(a.model.to_dict()), **{**dct, "material": K.build_material(desc["material"])})
        same = True
    elif f == "param":
        b = _miso(desc, _model(desc, dK=1e-3))
        same = False
    elif f == "param_last_digits":
        # any change of a model parameter is a content change (the 8-decimal rounding applies to data points only)
        b = _miso(desc, _model(desc, kfactor=1.0 + 1e-11))
        same = False
    elif f == "param_in_place":
        # a parameter edited in place on the live model object after the id was read
        b = _miso(desc, _model(desc))
        if b.iso_id != a.iso_id:
            raise Violation("model isotherms with the same content have different ids", tag="model_same:rebuild")
        b.model.params["K" if "K" in b.model.params else list(b.model.params)[0]] *= 1.5
        same = False
    elif f == "param_small_magnitude":
        # parameters of small magnitude (e.g. an affinity per Pa): 1.2e-9 * K vs 3.4e-9 * K
        a = _miso(desc, _model(desc, kscale=1.2e-9))
        b = _miso(desc, _model(desc, kscale=3.4e-9))
        same = False
    elif f == "param_int_literals":
        # integral parameters, ranges and rmse written as integer literals (or numpy floats) vs float literals
        def lit(conv):
            m = _model(desc)
            m.params = {k: conv(max(1, round(v))) for k, v in m.params.items()}
            m.pressure_range = [conv(0), conv(10)]
            m.loading_range = [conv(0), conv(5)]
            m.rmse = conv(0)
            return m
        a = _miso(desc, lit(float))
        b = _miso(desc, lit(int if round(desc["n_m"] * 1e6) % 2 else np.float64))
        same = True
    elif f == "model_name":
        other = "Henry" if desc["model"] != "Henry" else "Langmuir"
        b = _miso(desc, _model(desc, name=other))
        same = False
    elif f == "range":
        b = _miso(desc, _model(desc, prange=(0.0, 11.0)))
        same = False
    elif f == "rmse":
        b = _miso(desc, _model(desc, rmse=0.01))
        same = False
    elif f == "meta":
        b = _miso(desc, _model(desc), meta=dict(desc["meta"], user="changed-user"))
        same = desc["meta"].get("user") == "changed-user"
    elif f == "model_branch":
        # the branch a model isotherm describes is content: the same model on the desorption branch is another isotherm,
        # and an explicit 'ads' is the default
        b = _miso(desc, _model(desc), branch="des")
        c = _miso(desc, _model(desc), branch="ads")
        if c.iso_id != a.iso_id or not c == a:
            raise Violation("model isotherm built with branch='ads' differs from the one built with the default branch",
                            tag="model_same:model_branch")
        if b.branch != "des":
            raise Violation(f"model isotherm built with branch='des' reports branch {b.branch!r}", tag="model_branch_label")
        same = False
    elif f == "fit_table_labels":
        # model isotherms FITTED from a table (no branch column: the branches are guessed) whose rows carry default labels
        # vs the same rows under other labels (left over from a slice, a sort, point numbers, text)
        import pandas as pd
        nm, kk = desc["n_m"], 0.4
        pa = [0.2, 0.5, 1.0, 2.0, 3.5, 5.0, 7.0]
        pdn = [6.0, 4.0, 2.5, 1.2, 0.6]
        la = [nm * kk * x / (1 + kk * x) for x in pa]
        ld = [nm * 1.05 * 3 * kk * x / (1 + 3 * kk * x) for x in pdn]
        n = len(pa) + len(pdn)
        k = int(desc["K"] * 1e6)
        labels = [list(range(3, n + 3)), list(range(n - 1, -1, -1)), [f"pt{i}" for i in range(n)],
                  [int(v) for v in np.random.default_rng(k).permutation(n)]][k % 4]
        br = ["ads", "des"][(k // 4) % 2]
        kw = dict(material=K.build_material(desc["material"]), adsorbate=desc["adsorbate"], temperature=desc["T"],
                  pressure_key="pressure", loading_key="loading", model="Langmuir", branch=br, **desc["units"])
        a = pygaps.ModelIsotherm(isotherm_data=pd.DataFrame({"pressure": pa + pdn, "loading": la + ld}), **kw)
        b = pygaps.ModelIsotherm(isotherm_data=pd.DataFrame({"pressure": pa + pdn, "loading": la + ld}, index=labels), **kw)
        ctx.label("fit_table_labels:" + ["shifted", "reversed", "text", "permuted"][k % 4])
        same = True
    else:
        u = dict(desc["units"])
        u["temperature_unit"] = "°C" if u["temperature_unit"] == "K" else "K"
        b = _miso(desc, _model(desc), units=u)
        same = False
    if same:
        if a.iso_id != b.iso_id or not a == b:
            raise Violation(f"model isotherms with the same content ({f}) have different ids", tag=f"model_same:{f}")
    else:
        if a.iso_id == b.iso_id or a == b:
            raise Violation(f"model isotherms differing in {f} have the same id", tag=f"model_diff:{f}")
    # metadata-only isotherm from the same descriptor
    kw = dict(material=K.build_material(desc["material"]), adsorbate=desc["adsorbate"], temperature=desc["T"], **desc["units"])
    base1 = BaseIsotherm(**kw, **desc["meta"])
    base2 = BaseIsotherm(**{**kw, "material": dict(desc["material"])}, **desc["meta"])
    if base1.iso_id != base2.iso_id:
        raise Violation("metadata-only isotherms with material given as object / dict have different ids", tag="base_same")
    base3 = BaseIsotherm(**kw, **dict(desc["meta"], zz_key=1))
    if base3.iso_id == base1.iso_id:
        raise Violation("metadata-only isotherms with an extra metadata key have the same id", tag="base_diff")
    if base1.iso_id == a.iso_id:
        raise Violation("metadata-only and model isotherm share an id", tag="base_vs_model")
    ctx.nt([f, desc["model"], desc["K"], desc["n_m"], desc["units"]], desc)
    ctx.label(f)


# ---- second process, other PYTHONHASHSEED --------------------------------------------------------------------------------
_CHILD = r"""
import json, sys, logging, warnings
warnings.filterwarnings("ignore")
import pygaps
pygaps.logger.setLevel(logging.CRITICAL)
from pbt import case as K
descs = json.load(sys.stdin)
out = []
for d in descs:
    K.reset_registries()
    out.append(K.build_point(d).iso_id)
json.dump(out, sys.stdout)
"""


def strat_process():
    return st.builds(lambda isos, hs: {"isos": isos, "hashseed": hs},
                     st.lists(S.point_desc(min_points=1, max_points=6, grid=6, int_data=False), min_size=12, max_size=12), st.integers(1, 4000))


def check_process(desc, ctx):
    ids = []
    for d in desc["isos"]:
        K.reset_registries()
        ids.append(K.build_point(d).iso_id)
    env = dict(os.environ, PYTHONHASHSEED=str(desc["hashseed"]))
    r = subprocess.run([sys.executable, "-W", "ignore", "-c", _CHILD], input=json.dumps(desc["isos"]), capture_output=True,
                       text=True, env=env, cwd=HERE, timeout=600)
    if r.returncode != 0:
        raise HarnessError(f"child process failed: {r.stderr[-800:]}")
    other = json.loads(r.stdout[r.stdout.index("["):])
    for d, x, y in zip(desc["isos"], ids, other):
        if x != y:
            raise Violation(f"id differs between processes (PYTHONHASHSEED={desc['hashseed']}): {x} vs {y} for "
                            f"{json.dumps(d)[:300]}", tag="process_dependent")
        ctx.nt(["proc", d["pressure"], d["loading"], d["units"]], d)
    ctx.label("batches")


CHECKS = [
    Check("same_content_routes", check_same, strategy=strat_same, budget={"quick": 4000, "thorough": 60000},
          rule="same content by another construction route -> same id, ==, membership"),
    Check("different_content", check_diff, strategy=strat_diff, budget={"quick": 4000, "thorough": 60000},
          rule="one field minimally changed -> different id"),
    Check("inplace_edits", check_inplace, strategy=strat_inplace, budget={"quick": 2000, "thorough": 30000},
          rule="in-place edits through the public containers (properties, data_raw, material.properties): id follows content"),
    Check("model_and_base", check_model, strategy=strat_model, budget={"quick": 2000, "thorough": 30000},
          rule="model / metadata-only isotherms: same by rebuild, different by one field"),
    Check("other_process", check_process, strategy=strat_process, budget={"quick": 16, "thorough": 160}, shrink=False,
          shrink_quick=False, rule="12 isotherms per batch re-built in a fresh interpreter with another PYTHONHASHSEED"),
]
