"""Known-findings ledger: read-only at run time.

known_findings.json = {"findings": [ {id, property, status: open|fixed, check, case, predicate, what, [commit]} ]}

* open   : `predicate` names a function in pbt.known_classes deciding whether a (check, descriptor, violation)
           belongs to the narrowly defined class of this finding.  Matching violations found during the search are
           counted (`excluded_known`) and do not stop the search; the committed concrete `case` is replayed on
           every run and a KNOWN-FINDING line is printed while it still fails.
* fixed  : suppresses nothing; its `case` is replayed as a regression example and a failure is a VIOLATION.
"""
import json
import os

from pbt.core import HERE


class Ledger:
    def __init__(self, path=None):
        path = path or os.path.join(HERE, "known_findings.json")
        self.entries = []
        if os.path.exists(path):
            with open(path) as f:
                self.entries = json.load(f).get("findings", [])
        import glob
        for extra in sorted(glob.glob(os.path.join(HERE, "findings", "pending", "*.json"))):
            with open(extra) as f:
                self.entries.extend(json.load(f).get("findings", []))
        from pbt import known_classes
        self._classes = known_classes

    def _predicate(self, entry):
        """Predicates live in the property module (functions named like the `predicate` field) or in known_classes."""
        import importlib
        name = entry["predicate"]
        mod = importlib.import_module(f"pbt.props.{entry['property']}")
        fn = getattr(mod, name, None) or getattr(self._classes, name, None)
        if fn is None:
            raise KeyError(f"no predicate {name}")
        return fn

    def open_for(self, prop):
        return [e for e in self.entries if e["property"] == prop and e["status"] == "open"]

    def fixed_for(self, prop):
        return [e for e in self.entries if e["property"] == prop and e["status"] == "fixed" and e.get("case")]

    def match(self, prop, check_name, desc, viol):
        for e in self.entries:
            if e["status"] != "open" or e["property"] != prop:
                continue
            checks = e.get("checks") or [e.get("check")]
            if check_name not in checks:
                continue
            pred = self._predicate(e)
            try:
                if pred(check_name, desc, viol):
                    return e["id"]
            except Exception:
                continue
        return None

    @staticmethod
    def load_case(entry):
        with open(os.path.join(HERE, entry["case"])) as f:
            return json.load(f)
