"""C14 - linearised characterisation methods (BET, Langmuir, t-plot, alpha-s, DR/DA) recover their generator."""
import math

import numpy as np
from hypothesis import strategies as st

from pygaps.characterisation import models_thickness as lib_thickness
from pygaps.characterisation.alphas_plots import alpha_s, alpha_s_raw
from pygaps.characterisation.area_bet import area_BET, area_BET_raw
from pygaps.characterisation.area_lang import area_langmuir, area_langmuir_raw
from pygaps.characterisation.dr_da_plots import da_plot, da_plot_raw, dr_plot
from pygaps.characterisation.t_plots import t_plot, t_plot_raw
from pygaps.core.adsorbate import Adsorbate
from pygaps.data import ADSORBATE_LIST
from pygaps.utilities.exceptions import CalculationError

from pbt import case as K
from pbt import ref_units as ru
from pbt.core import Check, HarnessError, Violation, close

LEVEL = "exploration"
RULE = (
    "Cases = hypothesis-drawn (generating parameters, sampling grid of 5-100 strictly increasing relative pressures "
    "built from positive increments with ratio <= 20:1, entry point raw arrays | PointIsotherm in a drawn unit "
    "configuration (pressure relative / relative% / absolute bar,kPa,Pa,atm; loading molar mol,mmol,cm3(STP) / mass "
    "mg,g / liquid volume / gas volume; 4 material representations; 21 registry adsorbates with a cross-section and a "
    "backend, temperature inside (Tt,Tc)), limits = none | manual limits placed strictly between neighbouring data "
    "points (window classes >= 5, 3-4, 0-2 points incl. inverted limits; one-sided None limits)). Data are computed "
    "from the method's own equation in canonical units (relative pressure, mol or mmol per material unit) and "
    "converted to the isotherm units by the independent ref_units model. Points outside a manual window are "
    "optionally taken off the equation (loading x1.05 ... x3), so that recovery needs exactly the inside points; "
    "optionally every loading carries multiplicative noise (2 %, 20 %, seeded from the descriptor) and the oracle "
    "becomes 'reported slope/intercept == independent QR least squares through exactly the inside points'. t-plot / "
    "alpha-s data may have a steeper lower regime through the origin (micropore filling) below the fitted section. "
    "Oracles: closed-form generating quantities "
    "(rel 1e-6; 2e-4 when a unit with a rounded library constant is involved; DA free exponent abs 1e-3), the reported "
    "index window / section == plain-python filter of the points strictly inside the limits, CalculationError iff a "
    "BET / Langmuir / Dubinin window holds fewer than three points, automatic BET window recomputed from n(1-p) "
    "on arbitrary data with a constructed first decrease and the fit compared with an independent least-squares "
    "regression on that window. Non-trivial = a result was returned for a window of >= 5 points (Rouquerol clause: "
    "first decrease of n(1-p) interior), or a refusal was observed for a window of 0-2 points; distinct by (check, "
    "entry, units, grid size, window, rounded parameters)."
)
ASSUMPTIONS = [
    "limits are never placed on a data point (the property is silent about open/closed ends); a data point within "
    "rel 1e-9 of one tenth of the upper Rouquerol pressure makes either neighbouring start index acceptable",
    "the automatic BET window ends at the first point whose n(1-p) is below its predecessor (anchor text 'first "
    "decrease of n(1-p)'), the last point if there is none; ties in n(1-p) are not generated",
    "recovery tolerance rel 1e-6 (observed worst 5e-13 on raw arrays: exact data, increments within 20:1, so the "
    "regression is well conditioned); 2e-4 when cm3(STP) is involved (library constant rounded to 4 digits)",
    "DA with the exponent left free: exponent abs 1e-3 (minimize_scalar 'bounded', xatol 1e-5); volume and energy must "
    "equal an independent regression at the returned exponent (rel 1e-8) and the generating values within 1e-6 + 1.5 x "
    "the oracle's own change over an exponent shift of 1e-3",
    "CoolProp PropsSI (high-level) is the source of molar mass, liquid density, saturation pressure for the isotherm "
    "entry points; Avogadro 6.02214076e23, R 8.31446261815324 J/mol/K (exact SI 2019 values)",
    "thickness curves: Halsey 0.354(-5/ln p)^0.333 and Harkins-Jura (0.1399/(0.034-log10 p))^0.5 typed from the module "
    "docstrings (returned t_curve compared to them, rel 1e-12); the two standard-isotherm curves and user callables are "
    "taken as given (the library function is the generator)",
    "DA free exponent: generating exponents over the whole [1, 3]; the other modes pass the generating exponent",
    "t-plot / alpha-s data have intercept >= 0 (pore volume) so that the library's 'slope too steep' guard "
    "(slope*max(t)/max(n) >= 3) cannot apply; sections hold >= 3 points (the property names no refusal for them)",
    "alpha-s isotherm entry: sample pressures lie strictly inside the reference's pressure range; 'against itself' "
    "is generated in relative pressure mode only (a mode round trip may move an end point by one ulp out of the "
    "interpolation range, on which the property is silent)",
]

N_A = 6.02214076e23
R_GAS = 8.31446261815324  # exact: N_A * k_B (SI 2019)
TOL = 1e-6
REL = ("relative", None)
MOL = ("molar", "mol")

P_CONFIGS = [("relative", None)] * 4 + [("relative%", None), ("absolute", "bar"), ("absolute", "kPa"),
                                        ("absolute", "Pa"), ("absolute", "atm")]
L_CONFIGS = [("molar", "mol"), ("molar", "mmol"), ("molar", "mmol"), ("molar", "cm3(STP)"), ("mass", "mg"),
             ("mass", "g"), ("volume_liquid", "cm3"), ("volume_gas", "cm3")]
M_CONFIGS = [("mass", "g"), ("mass", "g"), ("mass", "kg"), ("volume", "cm3"), ("molar", "mol")]

_ADS = None


def ads_table():
    """Backend adsorbates that carry a cross-sectional area: [(name, fluid, Tlo, Tc, cross_section)]."""
    global _ADS
    if _ADS is None:
        out = []
        for e in K.backend_table():
            cs = K.get_adsorbate(e[0]).properties.get("cross_sectional_area")
            if cs:
                out.append((e[0], e[1], e[2], e[3], float(cs)))
        if len(out) < 10:
            raise HarnessError(f"only {len(out)} adsorbates with backend and cross-section")
        _ADS = out
    return _ADS


def worker_init():
    K.reset_registries()


# =====================================================================================================================
# generators
# =====================================================================================================================
def _n_points():
    return st.one_of(st.integers(5, 14), st.integers(5, 40), st.integers(5, 100))


def _increments(n):
    return st.lists(st.floats(0.05, 1.0), min_size=n - 1, max_size=n - 1)


@st.composite
def _limits(draw, n, first=0, both_required=False, auto_share=0.2, allow_refusal=True):
    """Limits descriptor for n sorted points; the window may only contain indices >= first.

    None -> no limits argument; else {"lo": None|[idx, f], "hi": None|[idx, f]}: the lower limit lies between points
    idx-1 and idx (first point inside = idx), the upper one between idx-1 and idx (last point inside = idx-1)."""
    if not both_required and draw(st.sampled_from(["manual"] * round(1 / auto_share - 1) + ["auto"])) == "auto":
        return None
    avail = n - first
    cls = draw(st.sampled_from(["wide"] * 6 + ["small"] * 2 + (["refuse"] * 3 if allow_refusal else [])))
    if cls == "wide" and avail < 5:
        cls = "small"
    if cls == "wide":
        size = draw(st.integers(5, avail))
    elif cls == "small":
        size = draw(st.integers(3, min(4, avail)))
    else:
        size = draw(st.integers(-3, 2))  # negative: inverted limits
    if size >= 0:
        lo_idx = first + draw(st.integers(0, avail - size))
        hi_idx = lo_idx + size
    else:
        hi_idx = first + draw(st.integers(0, avail + size))
        lo_idx = hi_idx - size
    lo = [lo_idx, draw(st.floats(0.1, 0.9))]
    hi = [hi_idx, draw(st.floats(0.1, 0.9))]
    if not both_required:
        if lo_idx == 0 and draw(st.booleans()):
            lo = draw(st.sampled_from([None, 0]))  # both spellings of "no lower limit" used by the code base
        if hi_idx == n and draw(st.booleans()):
            hi = None
    return {"lo": lo, "hi": hi}


CUSTOM_NAME = "pbt-user-vapour"
_CUSTOM_T = [77.0, 87.3, 273.15, 298.0]


def _iso_fields(draw, custom_ok=False):
    tab = ads_table()
    d = {
        "adsorbate": tab[draw(st.integers(0, len(tab) - 1))][0],
        "u": draw(st.floats(0, 1)),
        "units": {"p": list(draw(st.sampled_from(P_CONFIGS))), "l": list(draw(st.sampled_from(L_CONFIGS))),
                  "m": list(draw(st.sampled_from(M_CONFIGS)))},
    }
    if custom_ok and draw(st.sampled_from([False] * 3 + [True])):
        # a user-defined adsorbate without thermodynamic backend: always the same name and one of four temperatures, but
        # its own molar mass / liquid density / cross-section in every case (what the analysis must read each time)
        d["adsorbate"] = CUSTOM_NAME
        d["custom"] = {"T": draw(st.sampled_from(_CUSTOM_T)), "M": draw(st.floats(4.0, 300.0)), "rho": draw(st.floats(0.1, 3.0)),
                       "cs": draw(st.floats(0.05, 0.6)),
                       # half of them: the user's description is a PRIVATE object handed to the isotherm, while the
                       # registry holds another gas of the same name (a decoy with other constants)
                       "private": draw(st.booleans())}
        d["units"]["p"] = list(draw(st.sampled_from([("relative", None), ("relative", None), ("relative%", None)])))
        d["units"]["l"] = list(draw(st.sampled_from([("molar", "mol"), ("molar", "mmol"), ("molar", "cm3(STP)")])))
    return d


def _entry_fields(draw, raw_extra):
    """entry = raw (with the extra raw-only fields) or iso (with adsorbate / temperature / units)."""
    if draw(st.booleans()):
        d = {"entry": "raw", "container": draw(st.sampled_from(["array", "list"]))}
        for k, s in raw_extra.items():
            d[k] = draw(s)
        return d
    d = {"entry": "iso"}
    d.update(_iso_fields(draw, custom_ok=True))
    return d


def _log_uniform(lo, hi):
    return st.floats(math.log(lo), math.log(hi)).map(math.exp)


@st.composite
def strat_bet(draw):
    n = draw(_n_points())
    d = _entry_fields(draw, {"cs": st.floats(0.05, 0.6)})
    hi = draw(st.floats(0.1, 0.98))
    d.update({
        "nm": draw(_log_uniform(1e-4, 1e-1)), "C": draw(_log_uniform(2.0, 2000.0)),
        "p_hi": hi, "p_lo": hi * 10 ** -draw(st.floats(0.3, 4.0)), "spacing": draw(st.sampled_from(["lin", "log"])),
        "inc": draw(_increments(n)), "limits": draw(_limits(n)),
        "perturb": draw(st.sampled_from([0.0, 0.05, 0.3, 1.0])),
        "noise": draw(st.sampled_from([0.0, 0.0, 0.0, 0.02, 0.2])), "rng": draw(st.integers(0, 2 ** 31)),
    })
    return d


@st.composite
def strat_langmuir(draw):
    n = draw(_n_points())
    d = _entry_fields(draw, {"cs": st.floats(0.05, 0.6)})
    hi = draw(st.floats(0.05, 1.0))
    d.update({
        "nm": draw(_log_uniform(1e-4, 1e-1)), "K": draw(_log_uniform(0.5, 500.0)),
        "p_hi": hi, "p_lo": hi * 10 ** -draw(st.floats(0.3, 4.0)), "spacing": draw(st.sampled_from(["lin", "log"])),
        "inc": draw(_increments(n)), "limits": draw(_limits(n)),
        "perturb": draw(st.sampled_from([0.0, 0.05, 0.3, 1.0])),
        "noise": draw(st.sampled_from([0.0, 0.0, 0.0, 0.02, 0.2])), "rng": draw(st.integers(0, 2 ** 31)),
    })
    return d


@st.composite
def strat_rouquerol(draw):
    n = draw(_n_points())
    d = _entry_fields(draw, {"cs": st.floats(0.05, 0.6)})
    hi = draw(st.floats(0.1, 0.98))
    # first decrease of n(1-p) happens from point k to k+1; k = n-1: never decreases
    k = draw(st.one_of(st.integers(0, n - 1), st.integers(max(0, n - 3), n - 1), st.integers(2, n - 1)))
    d.update({
        "p_hi": hi, "p_lo": hi * 10 ** -draw(st.floats(0.3, 3.0)), "spacing": draw(st.sampled_from(["lin", "log"])),
        "inc": draw(_increments(n)), "r0": draw(_log_uniform(1e-5, 1e-1)),
        "steps": draw(st.lists(st.floats(1e-3, 0.5), min_size=n - 1, max_size=n - 1)),
        "k": k, "tail": draw(st.integers(0, 2 ** 30)),
    })
    return d


_THICK = [["Halsey"], ["Harkins/Jura"], ["SiO2 Jaroniec/Kruk/Olivier"], ["carbon black Kruk/Jaroniec/Gadkaree"],
          ["power"], ["fhh"]]


@st.composite
def strat_tplot(draw):
    n = draw(_n_points())
    d = _entry_fields(draw, {"M": st.floats(2.0, 150.0), "rho": st.floats(0.05, 3.0)})
    model = list(draw(st.sampled_from(_THICK)))
    if model[0] in ("power", "fhh"):
        model += [draw(st.floats(0.1, 2.0)), draw(st.floats(0.2, 1.5))]
    hi = draw(st.floats(0.3, 0.93))
    knee = draw(st.one_of(st.none(), st.integers(1, n - 3)))
    lim = draw(_limits(n, first=knee or 0, both_required=knee is not None, allow_refusal=False, auto_share=0.25))
    if lim is not None:
        # t_limits is documented as tuple[float, float]: both sides are numbers
        lim = {"lo": lim["lo"] if isinstance(lim["lo"], list) else [0, 0.5],
               "hi": lim["hi"] if isinstance(lim["hi"], list) else [n, 0.5]}
    d.update({
        "model": model, "slope": draw(_log_uniform(1e-2, 1e2)),
        "icpt": draw(st.one_of(st.just(0.0), _log_uniform(1e-3, 1e2))),
        "p_hi": hi, "p_lo": hi * 10 ** -draw(st.floats(0.3, 3.0)), "spacing": draw(st.sampled_from(["lin", "log"])),
        "inc": draw(_increments(n)), "knee": knee, "limits": lim,
        "perturb": draw(st.sampled_from([0.0, 0.05, 0.3, 1.0])),
    })
    return d


@st.composite
def strat_alphas(draw):
    d = {}
    entry = draw(st.sampled_from(["raw", "raw", "iso_self", "iso_self", "iso_scaled"]))
    d["entry"] = entry
    n = draw(_n_points())
    knee = None
    if entry != "iso_self":
        knee = draw(st.one_of(st.none(), st.none(), st.integers(1, n - 3)))
    lim = draw(_limits(n, first=knee or 0, both_required=knee is not None, allow_refusal=False, auto_share=0.25))
    if lim is not None:
        lim = {"lo": lim["lo"] if isinstance(lim["lo"], list) else [0, 0.5],
               "hi": lim["hi"] if isinstance(lim["hi"], list) else [n, 0.5]}
    d.update({"inc": draw(_increments(n)), "limits": lim, "knee": knee,
              "perturb": 0.0 if entry == "iso_self" else draw(st.sampled_from([0.0, 0.05, 0.3, 1.0]))})
    if entry == "raw":
        d.update({
            "container": draw(st.sampled_from(["array", "list"])),
            "M": draw(st.floats(2.0, 150.0)), "rho": draw(st.floats(0.05, 3.0)),
            "ref0": draw(_log_uniform(1e-3, 1e1)), "ref_span": draw(_log_uniform(1.5, 1e3)),
            "alpha_point": draw(st.floats(0.05, 0.95)),  # position of the reducing loading inside the reference range
            "ref_area": draw(_log_uniform(0.1, 5000.0)),
            "self": draw(st.booleans()),
            "scale": draw(_log_uniform(1e-2, 1e2)), "icpt": draw(st.one_of(st.just(0.0), _log_uniform(1e-3, 1e2))),
        })
        return d
    d.update(_iso_fields(draw))
    d["gen"] = draw(st.sampled_from(["bet", "bet", "lang"]))
    d["nm"] = draw(_log_uniform(1e-4, 1e-1))
    d["c"] = draw(_log_uniform(2.0, 500.0))
    kind = draw(st.sampled_from(["BET", "BET", "BET", "bet", "langmuir", "langmuir", "Langmuir", "number"]))
    number = draw(_log_uniform(0.1, 5000.0))
    d["ref_area"] = number if kind == "number" else kind
    hi = draw(st.floats(0.5, 0.95))
    d["p_hi"] = hi
    d["p_lo"] = draw(st.floats(0.005, 0.3))
    # reducing pressure: default 0.4 or a drawn position inside the (reference) range
    default_reducing = draw(st.sampled_from([True, False, False]))
    position = draw(st.floats(0.05, 0.95))
    d["reducing"] = None if default_reducing else position
    if entry == "iso_self":
        d["units"]["p"] = ["relative", None]
    else:
        m = draw(_n_points())
        d["ref_inc"] = draw(_increments(m))
        d["ref_units"] = {"p": list(draw(st.sampled_from(P_CONFIGS))),
                          "l": list(draw(st.sampled_from([("molar", "mmol"), ("molar", "mol"), ("molar", "mmol"),
                                                          ("molar", "cm3(STP)"), ("mass", "mg"),
                                                          ("volume_liquid", "cm3")])))}
        d["sub"] = sorted([draw(st.floats(0.02, 0.45)), draw(st.floats(0.55, 0.98))])
        d["scale"] = draw(_log_uniform(1e-2, 1e2))
        d["icpt"] = draw(st.one_of(st.just(0.0), _log_uniform(1e-3, 1e2)))
    return d


@st.composite
def strat_dubinin(draw):
    n = draw(_n_points())
    d = _entry_fields(draw, {"T": st.floats(70.0, 350.0), "M": st.floats(2.0, 150.0), "rho": st.floats(0.05, 3.0)})
    mode = draw(st.sampled_from(["dr", "fixed", "fixed", "free", "free"]))
    d.update({
        "mode": mode,
        "exp": 2.0 if mode == "dr" else draw(st.one_of(st.floats(1.0, 3.0), st.floats(1.05, 2.95))),
        "V": draw(_log_uniform(1e-3, 3.0)),
        "L_lo": draw(st.floats(2.3, 20.7)),  # -ln of the lowest relative pressure (0.1 ... 1e-9)
        "ratio": draw(st.floats(0.02, 0.6)),  # -ln p of the highest pressure as a fraction of L_lo
        "x_lo": draw(st.floats(0.3, 3.2)),  # (RT/E) * L_lo: reduced adsorption potential at the lowest pressure
        "inc": draw(_increments(n)), "limits": draw(_limits(n)),
        "perturb": draw(st.sampled_from([0.0, 0.05, 0.3, 1.0])),
        "noise": draw(st.sampled_from([0.0, 0.0, 0.0, 0.02, 0.2])), "rng": draw(st.integers(0, 2 ** 31)),
    })
    if mode == "free":
        d["noise"] = 0.0
    return d


# =====================================================================================================================
# shared oracle pieces
# =====================================================================================================================
def unit_positions(inc):
    c = np.concatenate([[0.0], np.cumsum(np.asarray(inc, dtype=float))])
    return c / c[-1]


def pressure_grid(desc):
    u = unit_positions(desc["inc"])
    lo, hi = desc["p_lo"], desc["p_hi"]
    if desc.get("spacing") == "log":
        p = np.exp(math.log(lo) + u * (math.log(hi) - math.log(lo)))
    else:
        p = lo + u * (hi - lo)
    p[0], p[-1] = lo, hi
    if not np.all(np.diff(p) > 0):
        raise HarnessError("pressure grid not strictly increasing")
    return p


def limit_values(x, limits):
    """Numeric limits from the positional descriptor on the strictly increasing array x."""
    if limits is None:
        return None
    n = len(x)
    out = []
    for side in ("lo", "hi"):
        spec = limits[side]
        if not isinstance(spec, list):
            out.append(spec)  # None or 0: no limit on this side
            continue
        idx, f = spec
        if idx <= 0:
            v = x[0] * (1 - 0.5 * f)
        elif idx >= n:
            v = x[-1] * (1 + 0.5 * f)
        else:
            v = x[idx - 1] + f * (x[idx] - x[idx - 1])
            if not x[idx - 1] < v < x[idx]:
                raise HarnessError("limit not strictly between neighbours")
        out.append(float(v))
    return out


def inside(x, lims):
    """Plain-python filter: indices of the points strictly inside the limits (limits never coincide with a point)."""
    lo, hi = (None, None) if lims is None else lims
    return [i for i, v in enumerate(x) if (not lo or v > lo) and (not hi or v < hi)]


def linfit(x, y):
    """Least-squares line through (x, y) by QR (numpy.linalg.lstsq) - independent of scipy.stats.linregress."""
    x = np.asarray(x, dtype=float)
    y = np.asarray(y, dtype=float)
    xm, xs = x.mean(), (x.max() - x.min()) or 1.0
    A = np.column_stack([(x - xm) / xs, np.ones_like(x)])
    (a, b), *_ = np.linalg.lstsq(A, y, rcond=None)
    slope = a / xs
    return slope, b - slope * xm


def perturb_outside(y, ins, desc, lims):
    """Take the points outside a manual window off the generating equation (below: x(1+f), above: x(1+2f)), so that
    the generating quantities are only recovered when the fit uses exactly the points inside the limits."""
    f = desc.get("perturb") or 0.0
    y = np.array(y, dtype=float)
    if lims is None or not f or not ins:
        return y, False
    y[:ins[0]] *= 1 + f
    y[ins[-1] + 1:] *= 1 + 2 * f
    return y, (ins[0] > 0 or ins[-1] < len(y) - 1)


def add_noise(y, desc):
    """Optional multiplicative noise on every loading: the data are then no longer on the generating equation and
    the oracle is 'the reported line is the least-squares line through exactly the points inside the limits'."""
    a = desc.get("noise") or 0.0
    if not a:
        return np.asarray(y, dtype=float), False
    u = np.random.default_rng(desc["rng"]).uniform(-1.0, 1.0, len(y))
    return np.asarray(y, dtype=float) * (1.0 + a * u), True


def fit_check(what, res_slope, res_icpt, x, y, ins, tol, tag, log_y=False):
    """Reported slope / intercept == independent least squares through the points `ins` of (x, y). With log_y the
    ordinate is a logarithm: a relative unit inaccuracy of the loading shifts it by an absolute amount."""
    w = slice(ins[0], ins[-1] + 1)
    s_ref, i_ref = linfit(x[w], y[w])
    yscale = float(np.max(np.abs(y[w])))
    if log_y:
        yscale = max(yscale, 1.0)
    xscale = float(np.max(np.abs(x[w])))
    ftol = max(1e-8, tol if tol > TOL else 0.0)
    if not close(float(res_slope), s_ref, ftol, ftol * yscale / xscale):
        raise Violation(f"{what}: slope {float(res_slope)!r} is not the least-squares slope {float(s_ref)!r} through the "
                        f"points {ins[0]}..{ins[-1]} inside the limits", tag=tag + "_fit_slope")
    if not close(float(res_icpt), i_ref, ftol, ftol * yscale):
        raise Violation(f"{what}: intercept {float(res_icpt)!r} is not the least-squares intercept {float(i_ref)!r} "
                        f"through the points {ins[0]}..{ins[-1]} inside the limits", tag=tag + "_fit_intercept")


def iso_env(desc):
    """(fluid, T, cross_section, M, rho_liq[g/cm3]) for the isotherm entry points, from CoolProp's high-level API."""
    c = desc.get("custom")
    if c:
        props = dict(molar_mass=c["M"], liquid_density=c["rho"], cross_sectional_area=c["cs"])
        if c.get("private"):
            props = dict(molar_mass=c["M"] * 1.3, liquid_density=c["rho"] * 0.8, cross_sectional_area=c["cs"] * 1.2)
        for a in ADSORBATE_LIST:
            if a.name == CUSTOM_NAME:
                a.properties = dict(props)
                break
        else:
            Adsorbate(CUSTOM_NAME, store=True, **props)
        return None, c["T"], c["cs"], c["M"], c["rho"]
    e = next(t for t in ads_table() if t[0] == desc["adsorbate"])
    T = K.temperature_for(e[:4], desc["u"])
    M = ru.molar_mass(e[1])
    return e[1], T, e[4], M, ru.rho_liq_molar(e[1], T) * M


def build_iso(desc, p_rel, q_mol, units=None, name="m-0", allow_des=True):
    """PointIsotherm holding the canonical data (relative pressure, mol per material unit) in the drawn units."""
    iso = _build_iso(desc, p_rel, q_mol, units, name, allow_des)
    c = desc.get("custom")
    if c and c.get("private"):
        iso.adsorbate = Adsorbate(CUSTOM_NAME, store=False, molar_mass=c["M"], liquid_density=c["rho"],
                                  cross_sectional_area=c["cs"])
    return iso


def _build_iso(desc, p_rel, q_mol, units=None, name="m-0", allow_des=True):
    fluid, T, *_ = iso_env(desc)
    units = units or desc["units"]
    prep, lrep = tuple(units["p"]), tuple(units["l"])
    mrep = tuple(units.get("m") or desc["units"]["m"])
    P = [float(ru.conv_pressure(float(v), REL, prep, fluid, T)) for v in p_rel]
    Q = [float(ru.conv_loading(float(v), MOL, lrep, fluid, T)) for v in q_mol]
    if allow_des and use_des(desc):
        # the generating data sit on the DESORPTION branch (stored high to low, as measured); the adsorption branch holds a
        # decoy curve, so an analysis that reads the wrong branch cannot recover the generator
        decoy = [0.5 * v for v in Q]
        return K.build_point({
            "units": K.units_dict(prep, lrep, mrep), "adsorbate": desc["adsorbate"], "T": T,
            "material": {"name": name, "density": 1.7, "molar_mass": 420.0},
            "pressure": P + P[::-1], "loading": decoy + Q[::-1], "branch": [0] * len(P) + [1] * len(P),
        })
    return K.build_point({
        "units": K.units_dict(prep, lrep, mrep), "adsorbate": desc["adsorbate"], "T": T,
        "material": {"name": name, "density": 1.7, "molar_mass": 420.0},
        "pressure": P, "loading": Q, "branch": "ads",
    })


def build_hysteretic(desc, p_rel, q_ads_mol, q_des_mol, name="m-0"):
    """One PointIsotherm with both branches on the same pressures: q_ads on the way up, q_des on the way down."""
    fluid, T, *_ = iso_env(desc)
    units = desc["units"]
    prep, lrep, mrep = tuple(units["p"]), tuple(units["l"]), tuple(units["m"])
    P = [float(ru.conv_pressure(float(v), REL, prep, fluid, T)) for v in p_rel]
    Qa = [float(ru.conv_loading(float(v), MOL, lrep, fluid, T)) for v in q_ads_mol]
    Qd = [float(ru.conv_loading(float(v), MOL, lrep, fluid, T)) for v in q_des_mol]
    iso = K.build_point({
        "units": K.units_dict(prep, lrep, mrep), "adsorbate": desc["adsorbate"], "T": T,
        "material": {"name": name, "density": 1.7, "molar_mass": 420.0},
        "pressure": P + P[::-1], "loading": Qa + Qd[::-1], "branch": [0] * len(P) + [1] * len(P),
    })
    c = desc.get("custom")
    if c and c.get("private"):
        iso.adsorbate = Adsorbate(CUSTOM_NAME, store=False, molar_mass=c["M"], liquid_density=c["rho"],
                                  cross_sectional_area=c["cs"])
    return iso


def use_des(desc):
    """A third of the isotherm-entry cases put the data on the desorption branch (derived from the drawn temperature
    fraction, so no extra descriptor field is needed)."""
    return int(desc.get("u", 0.0) * 997) % 3 == 0


def branch_of(desc):
    return "des" if use_des(desc) else "ads"


def unit_tol(*unit_sets):
    reps = []
    for u in unit_sets:
        if u:
            reps += [tuple(u["p"]), tuple(u["l"])]
    return max(TOL, ru.tol_for(*reps)) if reps else TOL


def wrap(arr, desc):
    return [float(v) for v in arr] if desc.get("container") == "list" else np.asarray(arr, dtype=float)


def expect(name, lib, want, tol, what, tag, abs_=0.0):
    if not close(float(lib), float(want), tol, abs_):
        raise Violation(f"{what}: {name} = {float(lib)!r}, generating value {float(want)!r} (rel tol {tol:g})", tag=tag)


def units_key(desc):
    u = desc.get("units")
    return [u["p"], u["l"], u["m"]] if u else None


def window_check(what, got, ins, tag):
    got = (int(got[0]), int(got[1]))
    if got != (ins[0], ins[-1]):
        raise Violation(f"{what}: fitted index window {got}, but the points inside the limits are {ins[0]}..{ins[-1]}",
                        tag=tag)


def refusal_protocol(what, call, ins, prefix, ctx, desc):
    """Run `call`; a window of < 3 points must give CalculationError, a larger one must not. Returns the result or
    None when the (expected) refusal was observed."""
    try:
        res = call()
    except CalculationError as e:
        if len(ins) >= 3:
            raise Violation(f"{what}: refused ({e}) although {len(ins)} points lie inside the limits",
                            tag=prefix + "_refused_valid")
        ctx.label(f"refused_{len(ins)}pts")
        ctx.nt([prefix, "refusal", desc["entry"], len(desc["inc"]) + 1, desc.get("limits"), len(ins)], desc)
        return None
    if len(ins) < 3:
        raise Violation(f"{what}: returned a result although only {len(ins)} point(s) lie inside the limits "
                        f"(CalculationError expected)", tag=prefix + "_not_refused")
    return res


def size_class(n):
    return "grid_5-14" if n <= 14 else ("grid_15-40" if n <= 40 else "grid_41-100")


def label_window(ctx, desc, ins):
    ctx.label(size_class(len(desc["inc"]) + 1))
    ctx.label("entry_" + desc["entry"], "limits_auto" if desc.get("limits") is None else "limits_manual",
              "window>=5" if len(ins) >= 5 else "window_3-4")
    if desc["entry"] != "raw" and desc.get("units"):
        ctx.label("p_" + str(desc["units"]["p"][0]), "l_" + str(desc["units"]["l"][0]))


# =====================================================================================================================
# BET
# =====================================================================================================================
def bet_loading(p, nm, c):
    return nm * c * p / ((1 - p) * (1 - p + c * p))


def rouquerol_window(p, q):
    """Automatic BET window, recomputed: (set of acceptable first indices, last index)."""
    roq = [float(qi) * (1.0 - float(pi)) for pi, qi in zip(p, q)]
    mx = len(p) - 1
    for i in range(1, len(p)):
        if roq[i] < roq[i - 1]:
            mx = i
            break
    target = 0.1 * float(p[mx])
    mn = next(i for i in range(len(p)) if p[i] >= target)
    ok = {mn}
    if abs(p[mn] - target) <= 1e-9 * target and mn + 1 < len(p):
        ok.add(mn + 1)
    if mn > 0 and abs(p[mn - 1] - target) <= 1e-9 * target:
        ok.add(mn - 1)
    return ok, mx


def _bet_call(desc, p, q, lims):
    """Returns (callable giving a dict with the BET results, cross_section, tolerance)."""
    if desc["entry"] == "raw":
        cs = desc["cs"]
        P, Q = wrap(p, desc), wrap(q, desc)

        def call():
            r = area_BET_raw(P, Q, cs, None if lims is None else tuple(lims))
            return dict(zip(("area", "c_const", "n_monolayer", "p_monolayer", "bet_slope", "bet_intercept"), r[:6]),
                        p_limit_indices=(r[6], r[7]))
        return call, cs, TOL
    iso = build_iso(desc, p, q)
    cs = iso_env(desc)[2]
    return (lambda: area_BET(iso, branch=branch_of(desc), p_limits=None if lims is None else list(lims))), cs, unit_tol(desc["units"])


def check_bet(desc, ctx):
    p = pressure_grid(desc)
    nm, c = desc["nm"], desc["C"]
    q = bet_loading(p, nm, c)
    lims = limit_values(p, desc["limits"])
    if lims is None:
        starts, mx = rouquerol_window(p, q)
        if mx != len(p) - 1:
            raise HarnessError("exact BET data must have increasing n(1-p)")
        if len(starts) > 1:
            ctx.label("auto_start_tie_skipped")
            return
        ins = list(range(min(starts), mx + 1))
    else:
        starts = None
        ins = inside(p, lims)
    q, off_model = perturb_outside(q, ins, desc, lims)
    q, noisy = add_noise(q, desc)
    if noisy and lims is None:
        return  # the automatic window on arbitrary data is the subject of bet_rouquerol
    call, cs, tol = _bet_call(desc, p, q, lims)
    what = (f"BET[{desc['entry']}] n_m={nm!r} C={c!r} sigma={cs!r} on {len(p)} points p={p[0]:.6g}..{p[-1]:.6g}, "
            f"limits={lims}")
    res = refusal_protocol(what, call, ins, "bet", ctx, desc)
    if res is None:
        return
    got = tuple(int(v) for v in res["p_limit_indices"])
    if starts is not None:
        if got[0] not in starts or got[1] != mx:
            raise Violation(f"{what}: automatic window {got}, expected start in {sorted(starts)} (first point with "
                            f"p >= 0.1*p[{mx}]) and end {mx}", tag="bet_auto_window")
    else:
        window_check(what, got, ins, "bet_window")
    if noisy:
        fit_check(what, res["bet_slope"], res["bet_intercept"], p, p / (q * (1.0 - p)), ins, tol, "bet")
        ctx.label("noisy_fit_checked")
        ctx.nt(["bet-noisy", desc["entry"], units_key(desc), len(p), got, desc["rng"]], desc)
        return
    expect("n_monolayer", res["n_monolayer"], nm, tol, what, "bet_n_monolayer")
    expect("c_const", res["c_const"], c, TOL, what, "bet_c_const")
    expect("p_monolayer", res["p_monolayer"], 1.0 / (math.sqrt(c) + 1.0), TOL, what, "bet_p_monolayer")
    expect("area", res["area"], nm * cs * 1e-18 * N_A, tol, what, "bet_area")
    expect("bet_slope", res["bet_slope"], (c - 1.0) / (nm * c), tol, what, "bet_slope")
    expect("bet_intercept", res["bet_intercept"], 1.0 / (nm * c), tol, what, "bet_intercept")
    label_window(ctx, desc, ins)
    ctx.label("outside_off_model" if off_model else "all_on_model")
    if len(ins) >= 5:
        ctx.nt(["bet", desc["entry"], units_key(desc), len(p), got, round(math.log(nm), 3), round(math.log(c), 3)], desc)


def rouquerol_data(desc, p):
    n = len(p)
    r = [desc["r0"]]
    for i, s in enumerate(desc["steps"]):
        if i < desc["k"]:
            up = True
        elif i == desc["k"]:
            up = False
        else:
            up = bool((desc["tail"] >> (i % 30)) & 1)
        r.append(r[-1] * (1 + s) if up else r[-1] * (1 - s))
    r = np.array(r[:n])
    return r / (1.0 - p)


def check_rouquerol(desc, ctx):
    p = pressure_grid(desc)
    q = rouquerol_data(desc, p)
    n = len(p)
    starts, mx = rouquerol_window(p, q)
    want_mx = desc["k"] + 1 if desc["k"] <= n - 2 else n - 1
    if mx != want_mx:
        raise HarnessError(f"constructed first decrease at {want_mx}, recomputed {mx}")
    call, cs, tol = _bet_call(desc, p, q, None)
    what = (f"BET[{desc['entry']}] automatic window on {n} points p={p[0]:.6g}..{p[-1]:.6g}, n(1-p) first decreases "
            f"at index {mx if desc['k'] <= n - 2 else None}")
    sizes = sorted(mx - s + 1 for s in starts)
    try:
        res = call()
    except CalculationError as e:
        if sizes[0] >= 3:
            raise Violation(f"{what}: refused ({e}) although the Rouquerol window [{min(starts)}..{mx}] holds "
                            f"{sizes[0]}+ points", tag="roq_refused_valid")
        ctx.label("refused")
        ctx.nt(["roq", "refusal", desc["entry"], n, desc["k"], sizes], desc)
        return
    if sizes[-1] < 3:
        raise Violation(f"{what}: result returned although the Rouquerol window [{max(starts)}..{mx}] holds only "
                        f"{sizes[-1]} point(s)", tag="roq_not_refused")
    got = tuple(int(v) for v in res["p_limit_indices"])
    if got[1] != mx:
        raise Violation(f"{what}: window ends at index {got[1]}, expected {mx} (p={p[mx]!r})", tag="roq_upper")
    if got[0] not in starts:
        raise Violation(f"{what}: window starts at index {got[0]} (p={p[got[0]]!r}), expected {sorted(starts)} = first "
                        f"point with p >= 0.1*{p[mx]!r}", tag="roq_lower")
    # the fit must be the least-squares line through exactly these points
    w = slice(got[0], mx + 1)
    y = p[w] / (q[w] * (1.0 - p[w]))
    s_ref, i_ref = linfit(p[w], y)
    scale = float(np.max(np.abs(y)))
    ftol = max(1e-8, tol if tol > TOL else 0.0)
    if not close(float(res["bet_slope"]), s_ref, ftol, ftol * scale / float(p[mx])):
        raise Violation(f"{what}: bet_slope {float(res['bet_slope'])!r} is not the least-squares slope {s_ref!r} of the "
                        f"points {got[0]}..{mx}", tag="roq_fit_slope")
    if not close(float(res["bet_intercept"]), i_ref, ftol, ftol * scale):
        raise Violation(f"{what}: bet_intercept {float(res['bet_intercept'])!r} is not the least-squares intercept "
                        f"{i_ref!r} of the points {got[0]}..{mx}", tag="roq_fit_intercept")
    # derived quantities follow the BET relations applied to the reported slope / intercept
    s, i = float(res["bet_slope"]), float(res["bet_intercept"])
    cond = (abs(s) + abs(i)) / abs(s + i) if (i != 0 and s + i != 0) else float("inf")
    if cond < 1e6:
        expect("n_monolayer", res["n_monolayer"], 1.0 / (s + i), 4e-12 * cond, what, "roq_n_monolayer")
        c_w = 1.0 + s / i
        expect("c_const", res["c_const"], c_w, 1e-12 * (1 + abs(s / i) / max(abs(c_w), 1e-300)), what, "roq_c_const")
        expect("area", res["area"], float(res["n_monolayer"]) * cs * 1e-18 * N_A, 1e-12, what, "roq_area")
        if float(res["c_const"]) > 0:
            expect("p_monolayer", res["p_monolayer"], 1.0 / (math.sqrt(float(res["c_const"])) + 1.0), 1e-12, what,
                   "roq_p_monolayer")
        ctx.label("derived_checked")
    interior = desc["k"] <= n - 2
    ctx.label(size_class(n), "entry_" + desc["entry"], "max_interior" if interior else "monotone",
              "window>=5" if mx - got[0] + 1 >= 5 else "window_3-4")
    if interior:
        ctx.nt(["roq", desc["entry"], units_key(desc), n, got, desc["k"], round(desc["p_hi"], 6),
                round(math.log(desc["r0"]), 3)], desc)


# =====================================================================================================================
# Langmuir
# =====================================================================================================================
def check_langmuir(desc, ctx):
    p = pressure_grid(desc)
    nm, k = desc["nm"], desc["K"]
    q = nm * k * p / (1 + k * p)
    lims = limit_values(p, desc["limits"])
    if lims is None:
        # documented default: 5 % - 90 % of the highest pressure
        auto = [0.05 * float(p[-1]), 0.9 * float(p[-1])]
        near = any(abs(v - a) <= 1e-9 * a for v in p for a in auto)
        ins = inside(p, auto)
    else:
        near = False
        ins = inside(p, lims)
    q, off_model = perturb_outside(q, ins, desc, lims)
    q, noisy = add_noise(q, desc)
    if noisy and lims is None:
        return  # without limits the window is the documented default only; nothing to compare the fit with
    if desc["entry"] == "raw":
        cs, tol = desc["cs"], TOL
        P, Q = wrap(p, desc), wrap(q, desc)

        def call():
            r = area_langmuir_raw(P, Q, cs, None if lims is None else tuple(lims))
            return dict(zip(("area", "langmuir_const", "n_monolayer", "langmuir_slope", "langmuir_intercept"), r[:5]),
                        p_limit_indices=(r[5], r[6]))
    else:
        iso = build_iso(desc, p, q)
        cs, tol = iso_env(desc)[2], unit_tol(desc["units"])

        def call():
            return area_langmuir(iso, branch=branch_of(desc), p_limits=None if lims is None else list(lims))
    what = (f"Langmuir[{desc['entry']}] n_m={nm!r} K={k!r} sigma={cs!r} on {len(p)} points p={p[0]:.6g}..{p[-1]:.6g}, "
            f"limits={lims}")
    if near:
        # a data point sits on an edge of the documented default window: do not judge the refusal
        try:
            res = call()
        except CalculationError:
            ctx.label("auto_edge_refusal")
            return
        if int(res["p_limit_indices"][1]) - int(res["p_limit_indices"][0]) < 2:
            raise Violation(f"{what}: fit on fewer than three points returned", tag="langmuir_not_refused")
    else:
        res = refusal_protocol(what, call, ins, "langmuir", ctx, desc)
        if res is None:
            return
        if lims is not None:
            window_check(what, res["p_limit_indices"], ins, "langmuir_window")
    if noisy:
        fit_check(what, res["langmuir_slope"], res["langmuir_intercept"], p, p / q, ins, tol, "langmuir")
        ctx.label("noisy_fit_checked")
        ctx.nt(["langmuir-noisy", desc["entry"], units_key(desc), len(p), ins[0], ins[-1], desc["rng"]], desc)
        return
    expect("n_monolayer", res["n_monolayer"], nm, tol, what, "langmuir_n_monolayer")
    expect("langmuir_const", res["langmuir_const"], k, TOL, what, "langmuir_const")
    expect("area", res["area"], nm * cs * 1e-18 * N_A, tol, what, "langmuir_area")
    expect("langmuir_slope", res["langmuir_slope"], 1.0 / nm, tol, what, "langmuir_slope")
    expect("langmuir_intercept", res["langmuir_intercept"], 1.0 / (k * nm), tol, what, "langmuir_intercept")
    label_window(ctx, desc, ins)
    ctx.label("outside_off_model" if off_model else "all_on_model")
    if len(ins) >= 5:
        ctx.nt(["langmuir", desc["entry"], units_key(desc), len(p), [int(v) for v in res["p_limit_indices"]],
                round(math.log(nm), 3), round(math.log(k), 3)], desc)


# =====================================================================================================================
# t-plot
# =====================================================================================================================
def thickness(model, p):
    """(callable handed to the raw entry point | name for the isotherm entry point, reference thickness values)."""
    kind = model[0]
    if kind == "Halsey":
        return lib_thickness.thickness_halsey, kind, np.array([0.354 * (-5.0 / math.log(v)) ** 0.333 for v in p]), True
    if kind == "Harkins/Jura":
        return (lib_thickness.thickness_harkins_jura, kind,
                np.array([(0.1399 / (0.034 - math.log10(v))) ** 0.5 for v in p]), True)
    if kind in ("SiO2 Jaroniec/Kruk/Olivier", "carbon black Kruk/Jaroniec/Gadkaree"):
        fn = lib_thickness.get_thickness_model(kind)
        return fn, kind, np.asarray(fn(np.asarray(p)), dtype=float), False
    a, b = model[1], model[2]
    if kind == "power":
        def fn(x):
            return a * np.asarray(x) ** b
    else:
        def fn(x):
            return a * (-1.0 / np.log(np.asarray(x))) ** b
    return fn, fn, np.asarray(fn(p), dtype=float), False


def line_with_knee(x, slope, icpt, knee):
    """y = slope*x + icpt; for indices below `knee` a steeper line through the origin joining at the knee."""
    y = slope * x + icpt
    if knee:
        xk = 0.5 * (x[knee - 1] + x[knee])
        y[:knee] = (slope + icpt / xk) * x[:knee]
    return y


def tp_results_check(what, results, x, lims, ins, slope, icpt, area, volume, tol, tagp, yscale, single_line=False):
    """Common to t-plot and alpha-s: every returned section must give the generating line."""
    if lims is None and single_line and len(x) >= 5 and not len(results):
        # automatic sections on a plot that is ONE exact straight line over the whole grid (5-100 points): the generating
        # quantities are returned, not an empty result
        raise Violation(f"{what}: no straight section found on {len(x)} exactly collinear points (automatic limits)",
                        tag=tagp + "_no_result")
    if lims is not None:
        if len(results) != 1:
            raise Violation(f"{what}: {len(results)} results for one manual section of {len(ins)} collinear points",
                            tag=tagp + "_no_result")
        sec = [int(v) for v in np.asarray(results[0]["section"]).tolist()]
        if sec != ins:
            raise Violation(f"{what}: fitted section {sec[:3]}..{sec[-3:]} ({len(sec)} points), but the points strictly "
                            f"inside the limits are {ins[0]}..{ins[-1]} ({len(ins)})", tag=tagp + "_section")
    for r in results:
        sec = [int(v) for v in np.asarray(r["section"]).tolist()]
        w = f"{what} section {sec[0]}..{sec[-1]}"
        expect("slope", r["slope"], slope, tol, w, tagp + "_slope")
        expect("intercept", r["intercept"], icpt, tol, w, tagp + "_intercept", abs_=1e-9 * yscale)
        expect("area", r["area"], area, tol, w, tagp + "_area")
        expect("adsorbed_volume", r["adsorbed_volume"], volume[0], tol, w, tagp + "_volume", abs_=1e-9 * volume[1])


def check_tplot(desc, ctx):
    p = pressure_grid(desc)
    fn, name_or_fn, t, typed = thickness(desc["model"], p)
    if not np.all(np.diff(t) > 0):
        raise HarnessError("thickness not increasing")
    s, ic, knee = desc["slope"], desc["icpt"], desc["knee"]
    q_mmol = line_with_knee(t, s, ic, knee)
    lims = limit_values(t, desc["limits"])
    ins = inside(t, lims) if lims is not None else list(range(len(p)))
    off_model = False
    if lims is not None and desc["perturb"] and ins[-1] < len(p) - 1:
        q_mmol[ins[-1] + 1:] *= 1 + desc["perturb"]  # e.g. capillary condensation above the fitted section
        off_model = True
    if desc["entry"] == "raw":
        M, rho, tol = desc["M"], desc["rho"], TOL
        results, t_curve = t_plot_raw(wrap(q_mmol, desc), wrap(p, desc), fn, rho, M,
                                      None if lims is None else tuple(lims))
    else:
        _, _, _, M, rho = iso_env(desc)
        tol = unit_tol(desc["units"])
        iso = build_iso(desc, p, q_mmol * 1e-3)
        out = t_plot(iso, thickness_model=name_or_fn, branch=branch_of(desc), t_limits=None if lims is None else tuple(lims))
        results, t_curve = out["results"], out["t_curve"]
    what = (f"t-plot[{desc['entry']}] model={desc['model']} slope={s!r} intercept={ic!r} knee={knee} M={M!r} "
            f"rho={rho!r} on {len(p)} points p={p[0]:.6g}..{p[-1]:.6g}, t_limits={lims}")
    if typed and desc["entry"] == "raw":
        if not np.allclose(np.asarray(t_curve, dtype=float), t, rtol=1e-12, atol=0):
            raise Violation(f"{what}: returned thickness curve differs from the documented {desc['model'][0]} equation",
                            tag="tplot_thickness")
    # area [m2] = slope [1e-3 mol/nm] * molar liquid volume [1e-6 m3/mol] / 1e-9 m ; volume [cm3] = n [mol] * M/rho
    v_liq = M / rho  # cm3/mol
    area = (s * 1e-3) * (v_liq * 1e-6) / 1e-9
    volume = (ic * 1e-3) * v_liq
    tp_results_check(what, results, t, lims, ins, s, ic, area, (volume, float(q_mmol[ins[-1]]) * 1e-3 * v_liq), tol, "tplot",
                     float(q_mmol[ins[-1]]), single_line=knee is None)
    ctx.label(size_class(len(p)), "entry_" + desc["entry"], "model_" + str(desc["model"][0]), "limits_auto" if lims is None else
              "limits_manual", "knee" if knee else "single_line", f"sections_{min(len(results), 2)}",
              "above_off_model" if off_model else "above_on_model")
    if results and len(ins) >= 5:
        ctx.nt(["tplot", desc["entry"], units_key(desc), desc["model"][0], len(p), ins[0], ins[-1], knee,
                round(math.log(s), 3), round(ic, 6)], desc)


# =====================================================================================================================
# alpha-s
# =====================================================================================================================
def check_alphas(desc, ctx):
    if desc["entry"] == "raw":
        return _alphas_raw(desc, ctx)
    return _alphas_iso(desc, ctx)


def _alphas_raw(desc, ctx):
    u = unit_positions(desc["inc"])
    ref = desc["ref0"] * (1 + u * (desc["ref_span"] - 1))  # increasing reference loadings
    apt = float(ref[0] + desc["alpha_point"] * (ref[-1] - ref[0]))  # reference loading at the reducing pressure
    alpha = ref / apt
    if desc["self"] and not desc["knee"]:
        k_scale, ic = 1.0, 0.0
    else:
        k_scale, ic = desc["scale"], desc["icpt"]
    s = k_scale * apt
    q = line_with_knee(alpha, s, ic, desc["knee"])
    lims = limit_values(alpha, desc["limits"])
    ins = inside(alpha, lims) if lims is not None else list(range(len(alpha)))
    if lims is not None and desc["perturb"] and ins[-1] < len(alpha) - 1:
        q[ins[-1] + 1:] *= 1 + desc["perturb"]
    M, rho, a_ref = desc["M"], desc["rho"], desc["ref_area"]
    results, curve = alpha_s_raw(wrap(q, desc), wrap(ref, desc), apt, a_ref, rho, M,
                                 t_limits=None if lims is None else tuple(lims))
    what = (f"alpha-s[raw] reference loading {ref[0]:.6g}..{ref[-1]:.6g} ({len(ref)} points), reducing loading {apt!r}, "
            f"A_ref={a_ref!r}, sample = {k_scale!r} x reference + {ic!r}, knee={desc['knee']}, t_limits={lims}")
    if not np.allclose(np.asarray(curve, dtype=float), alpha, rtol=1e-12, atol=0):
        raise Violation(f"{what}: alpha curve is not reference loading / reducing loading", tag="alphas_curve")
    v_liq = M / rho
    tp_results_check(what, results, alpha, lims, ins, s, ic, a_ref * k_scale, (ic * 1e-3 * v_liq, float(q[ins[-1]]) * 1e-3 *
                                                                                v_liq), TOL, "alphas", float(q[ins[-1]]),
                     single_line=not desc["knee"])
    ctx.label(size_class(len(ref)), "entry_raw", "self" if k_scale == 1.0 and ic == 0.0 else "scaled", "limits_auto" if lims is None else
              "limits_manual", f"sections_{min(len(results), 2)}")
    if results and len(ins) >= 5:
        ctx.nt(["alphas", "raw", len(ref), ins[0], ins[-1], desc["knee"], round(math.log(k_scale), 3), round(ic, 6),
                round(math.log(a_ref), 3)], desc)


def _gen_loading(desc, p):
    if desc["gen"] == "bet":
        return bet_loading(p, desc["nm"], desc["c"])
    return desc["nm"] * desc["c"] * p / (1 + desc["c"] * p)


def _alphas_iso(desc, ctx):
    fluid, T, cs, M, rho = iso_env(desc)
    self_mode = desc["entry"] == "iso_self"
    u = unit_positions(desc["inc"])
    lo, hi = desc["p_lo"], desc["p_hi"]
    if self_mode:
        p = lo + u * (hi - lo)
        q_mmol = _gen_loading(desc, p) * 1e3
        p_ref, qref_mmol = p, q_mmol
        hysteretic_self = int(round(desc["p_hi"] * 1e6)) % 3 == 0
        if hysteretic_self:
            # ONE isotherm as sample and reference: its adsorption branch is the reference curve, its desorption branch
            # a scaled and shifted copy - analysed desorption against adsorption
            k_scale, ic = float(desc.get("scale") or 2.0), float(desc.get("icpt") or 0.0)
            q_mmol = k_scale * qref_mmol + ic
            iso = ref_iso = build_hysteretic(desc, p, qref_mmol * 1e-3, q_mmol * 1e-3)
        else:
            iso = ref_iso = build_iso(desc, p, q_mmol * 1e-3, allow_des=False)
            k_scale, ic = 1.0, 0.0
        units_all = (desc["units"],)
    else:
        ur = unit_positions(desc["ref_inc"])
        p_ref = lo + ur * (hi - lo)
        qref_mmol = _gen_loading(desc, p_ref) * 1e3
        a, b = desc["sub"]
        p = lo + (a + u * (b - a)) * (hi - lo)  # strictly inside the reference range
        k_scale, ic = desc["scale"], desc["icpt"]
        ref_units = dict(desc["ref_units"], m=desc["units"]["m"])
        ref_iso = build_iso(desc, p_ref, qref_mmol * 1e-3, units=ref_units, name="m-ref", allow_des=False)
        units_all = (desc["units"], ref_units)
    rp = 0.4 if desc["reducing"] is None else float(p_ref[0] + desc["reducing"] * (p_ref[-1] - p_ref[0]))
    if not p_ref[0] < rp < p_ref[-1]:
        return  # default reducing pressure outside the data: precondition of the method not met
    l_ref = np.interp(p, p_ref, qref_mmol)  # linear interpolation of the reference at the sample pressures
    apt = float(np.interp(rp, p_ref, qref_mmol))
    alpha = l_ref / apt
    lims = limit_values(alpha, desc["limits"])
    ins = inside(alpha, lims) if lims is not None else list(range(len(alpha)))
    if not self_mode:
        q_mmol = line_with_knee(alpha, k_scale * apt, ic, desc["knee"])
        if lims is not None and desc["perturb"] and ins[-1] < len(alpha) - 1:
            q_mmol[ins[-1] + 1:] *= 1 + desc["perturb"]
        iso = build_iso(desc, p, q_mmol * 1e-3, allow_des=False)
    tol = unit_tol(*units_all)
    spec = desc["ref_area"]
    what = (f"alpha-s[{desc['entry']}] {desc['adsorbate']} at {T!r} K, sample units {desc['units']}, reference "
            f"{'= sample' if self_mode else 'units ' + str(desc['ref_units'])}, reference data {desc['gen']} n_m="
            f"{desc['nm']!r} c={desc['c']!r} on p={p_ref[0]:.6g}..{p_ref[-1]:.6g} ({len(p_ref)} points), sample on "
            f"p={p[0]:.6g}..{p[-1]:.6g} ({len(p)} points) = {k_scale!r} x reference + {ic!r} mmol, knee={desc['knee']}, "
            f"reference_area={spec!r}, reducing_pressure={rp!r}, t_limits={lims}")
    # the reference area the method has to use
    closed_form = None
    if isinstance(spec, str):
        fn = area_BET if spec.lower() == "bet" else area_langmuir
        try:
            a_ref = float(fn(ref_iso)["area"])
        except CalculationError:
            a_ref = None
        if (spec.lower() == "bet") == (desc["gen"] == "bet") and a_ref is not None:
            closed_form = desc["nm"] * cs * 1e-18 * N_A
            expect("reference area", a_ref, closed_form, tol, what + f" [{fn.__name__} of the reference]", "alphas_ref_area")
    else:
        a_ref = float(spec)
    kwargs = {"reference_area": spec, "t_limits": None if lims is None else tuple(lims)}
    if desc["reducing"] is not None:
        kwargs["reducing_pressure"] = rp
    if self_mode and hysteretic_self:
        kwargs.update(branch="des", branch_ref="ads")
        ctx.label("self_desorption_vs_adsorption")
    try:
        out = alpha_s(iso, ref_iso, **kwargs)
    except CalculationError as e:
        if a_ref is None:
            ctx.label("reference_area_refused")
            return
        raise Violation(f"{what}: CalculationError ({str(e)[:120]}) although the reference area is available",
                        tag="alphas_iso_refused")
    if a_ref is None:
        raise Violation(f"{what}: result returned although the {spec} area of the reference cannot be calculated",
                        tag="alphas_iso_not_refused")
    if not np.allclose(np.asarray(out["alpha_curve"], dtype=float), alpha, rtol=max(tol, 1e-9), atol=0):
        raise Violation(f"{what}: alpha curve differs from reference loading(p) / reference loading({rp!r}): "
                        f"{np.asarray(out['alpha_curve'], dtype=float)[:3].tolist()}... vs {alpha[:3].tolist()}...",
                        tag="alphas_iso_curve")
    v_liq = M / rho
    tp_results_check(what, out["results"], alpha, lims, ins, k_scale * apt, ic, a_ref * k_scale,
                     (ic * 1e-3 * v_liq, float(q_mmol[ins[-1]]) * 1e-3 * v_liq), tol, "alphas_iso", float(q_mmol[ins[-1]]),
                     single_line=bool(self_mode or not desc["knee"]))
    ctx.label(size_class(len(p)), "entry_" + desc["entry"],
              "area_" + (spec.lower() if isinstance(spec, str) else "number"),
              "limits_auto" if lims is None else "limits_manual", f"sections_{min(len(out['results']), 2)}",
              "closed_form_area" if closed_form else "library_area",
              "reducing_default" if desc["reducing"] is None else "reducing_drawn")
    if out["results"] and len(ins) >= 5:
        ctx.nt(["alphas", desc["entry"], units_key(desc), desc.get("ref_units"), len(p), ins[0], ins[-1],
                round(math.log(k_scale), 3), round(ic, 6), str(spec)[:8], round(rp, 6)], desc)


# =====================================================================================================================
# Dubinin-Radushkevich / Dubinin-Astakhov
# =====================================================================================================================
def da_fit_ref(p, q_mol, T, M, rho, n):
    """Independent DA regression: (micropore volume, characteristic energy [kJ/mol]) at exponent n."""
    x = np.array([(-math.log(v)) ** n for v in p])
    y = np.array([math.log(v * M / rho) for v in q_mol])
    s, i = linfit(x, y)
    return math.exp(i), R_GAS * T / (-s) ** (1.0 / n) / 1000.0


def check_dubinin(desc, ctx):
    if desc["entry"] == "raw":
        T, M, rho, tol = desc["T"], desc["M"], desc["rho"], TOL
    else:
        _, T, _, M, rho = iso_env(desc)
        tol = unit_tol(desc["units"])
    u = unit_positions(desc["inc"])
    L_lo = desc["L_lo"]
    L_hi = max(0.01, L_lo * desc["ratio"])
    L = L_lo + u * (L_hi - L_lo)  # -ln p, decreasing
    p = np.exp(-L)
    if not np.all(np.diff(p) > 0):
        raise HarnessError("DA pressure grid not increasing")
    n_gen, V = desc["exp"], desc["V"]
    a = desc["x_lo"] / L_lo  # RT/E
    E = R_GAS * T / 1000.0 / a  # kJ/mol
    q_mol = V * np.exp(-(a * L) ** n_gen) * rho / M  # mol per material unit
    lims = limit_values(p, desc["limits"])
    ins = inside(p, lims)
    q_mol, off_model = perturb_outside(q_mol, ins, desc, lims)
    q_mol, noisy = add_noise(q_mol, desc)
    mode = desc["mode"]
    exp_arg = None if mode == "free" else n_gen
    if desc["entry"] == "raw":
        P, Q = wrap(p, desc), wrap(q_mol, desc)

        def call():
            r = da_plot_raw(P, Q, T, M, rho, exp_arg, None if lims is None else tuple(lims))
            return {"pore_volume": r[0], "adsorption_potential": r[1], "exponent": r[2], "p_limits": (r[5], r[6]),
                    "slope": r[3], "intercept": r[4]}
    else:
        iso = build_iso(desc, p, q_mol)

        def call():
            if mode == "dr":
                return dr_plot(iso, branch=branch_of(desc), p_limits=None if lims is None else list(lims))
            return da_plot(iso, exp=exp_arg, branch=branch_of(desc), p_limits=None if lims is None else list(lims))
    what = (f"Dubinin[{desc['entry']},{mode}] V={V!r} cm3 E={E!r} kJ/mol exponent={n_gen!r} T={T!r} M={M!r} rho={rho!r} "
            f"on {len(p)} points p={p[0]:.6g}..{p[-1]:.6g}, p_limits={lims}")
    res = refusal_protocol(what, call, ins, "dubinin", ctx, desc)
    if res is None:
        return
    window_check(what, res["p_limits"], ins, "dubinin_window")
    if noisy:
        # log(volume) against (-ln p)^n; the volume scale only shifts the intercept by a constant
        fit_check(what, res["slope"], res["intercept"], np.array([(-math.log(v)) ** n_gen for v in p]),
                  np.array([math.log(v * M / rho) for v in q_mol]), ins, tol, "dubinin", log_y=True)
        expect("pore_volume", res["pore_volume"], math.exp(float(res["intercept"])), 1e-12, what, "da_volume_formula")
        if float(res["slope"]) < 0:
            expect("adsorption_potential", res["adsorption_potential"],
                   R_GAS * T / (-float(res["slope"])) ** (1.0 / n_gen) / 1000.0, 1e-10, what, "da_energy_formula")
        ctx.label("noisy_fit_checked", "mode_" + mode)
        ctx.nt(["dubinin-noisy", desc["entry"], mode, units_key(desc), len(p), ins[0], ins[-1], desc["rng"]], desc)
        return
    if mode == "free":
        n_ret = float(res["exponent"])
        if not abs(n_ret - n_gen) <= 1e-3:
            raise Violation(f"{what}: fitted exponent {n_ret!r}, generating exponent {n_gen!r} (abs tol 1e-3); "
                            f"volume {float(res['pore_volume'])!r}, energy {float(res['adsorption_potential'])!r}",
                            tag="da_free_exponent", detail={"exp_returned": n_ret})
        w = slice(ins[0], ins[-1] + 1)
        v_at, e_at = da_fit_ref(p[w], q_mol[w], T, M, rho, n_ret)
        expect("pore_volume", res["pore_volume"], v_at, max(1e-8, tol if tol > TOL else 0), what +
               f" [regression at the returned exponent {n_ret!r}]", "da_free_volume_at_exp")
        expect("adsorption_potential", res["adsorption_potential"], e_at, 1e-8, what +
               f" [regression at the returned exponent {n_ret!r}]", "da_free_energy_at_exp")
        dv = de = 0.0
        for h in (-1e-3, 1e-3):
            v_h, e_h = da_fit_ref(p[w], q_mol[w], T, M, rho, n_gen + h)
            dv, de = max(dv, abs(v_h / V - 1)), max(de, abs(e_h / E - 1))
        expect("pore_volume", res["pore_volume"], V, tol + 1.5 * dv, what, "da_free_volume")
        expect("adsorption_potential", res["adsorption_potential"], E, TOL + 1.5 * de, what, "da_free_energy")
    else:
        if "exponent" in res and desc["entry"] == "raw":
            expect("exponent", res["exponent"], n_gen, 1e-15, what, "da_exponent_echo")
        expect("pore_volume", res["pore_volume"], V, tol, what, "da_volume")
        expect("adsorption_potential", res["adsorption_potential"], E, TOL, what, "da_energy")
    label_window(ctx, desc, ins)
    ctx.label("mode_" + mode, "outside_off_model" if off_model else "all_on_model")
    if len(ins) >= 5:
        ctx.nt(["dubinin", desc["entry"], mode, units_key(desc), len(p), ins[0], ins[-1], round(n_gen, 4),
                round(math.log(V), 3), round(desc["x_lo"], 3)], desc)


# =====================================================================================================================
# known findings (narrow predicates; see findings/pending/C14.json)
# =====================================================================================================================
def kf_da_free_exponent_runs_to_bound(check_name, desc, viol):
    """da_plot_raw / da_plot with the exponent left free returns the upper search bound 3 on exact DA data."""
    return (check_name == "dubinin_recovery" and desc.get("mode") == "free" and viol.tag == "da_free_exponent"
            and bool(viol.detail) and viol.detail.get("exp_returned", 0) > 2.9999)


def kf_alphas_numeric_reference_area(check_name, desc, viol):
    """alpha_s(..., reference_area=<number>) calls .lower() on the number."""
    return (check_name == "alphas_recovery" and desc.get("entry") in ("iso_self", "iso_scaled")
            and not isinstance(desc.get("ref_area"), str)
            and viol.tag == "crash:AttributeError:src/pygaps/characterisation/alphas_plots.py:alpha_s")


def _alphas_ref_units(check_name, desc):
    if check_name != "alphas_recovery" or desc.get("entry") not in ("iso_self", "iso_scaled"):
        return None
    return desc["ref_units"] if desc["entry"] == "iso_scaled" else desc["units"]


def kf_alphas_reference_pressure_mode(check_name, desc, viol):
    """alpha_s hands the sample's RELATIVE pressures to reference.loading_at() labelled with the sample's pressure
    unit and without a mode, so they are read in the reference's own mode: wrong alpha curve (or out-of-range
    ValueError) whenever the reference isotherm is not stored in relative pressure."""
    u = _alphas_ref_units(check_name, desc)
    return (u is not None and u["p"][0] != "relative" and viol.tag in (
        "alphas_iso_curve", "crash:ValueError:src/pygaps/utilities/isotherm_interpolator.py:__call__"))


def kf_alphas_reference_loading_basis(check_name, desc, viol):
    """alpha_s asks the reference for loading_unit='mmol' without loading_basis='molar': a reference stored on a
    mass / volume loading basis is refused (ParameterError from the unit table of its own basis)."""
    u = _alphas_ref_units(check_name, desc)
    return (u is not None and u["l"][0] != "molar"
            and viol.tag == "crash:ParameterError:src/pygaps/units/converter_unit.py:_check_unit")


# =====================================================================================================================
def self_validate():
    """The oracle pieces against closed forms."""
    x = np.array([0.1, 0.2, 0.4, 0.7, 1.1])
    s, i = linfit(x, 3.25 * x - 0.75)
    if not (close(s, 3.25, 1e-13) and close(i, -0.75, 1e-13)):
        raise HarnessError("linfit does not recover an exact line")
    p = np.array([0.05, 0.1, 0.2, 0.3])
    q = bet_loading(p, 2e-3, 150.0)
    s, i = linfit(p, p / (q * (1 - p)))
    if not (close(1 / (s + i), 2e-3, 1e-12) and close(1 + s / i, 150.0, 1e-11)):
        raise HarnessError("BET generator is not linear in the BET transform")
    if inside([1.0, 2.0, 3.0, 4.0], [1.5, 3.5]) != [1, 2] or inside([1.0, 2.0], [None, None]) != [0, 1]:
        raise HarnessError("window filter")
    starts, mx = rouquerol_window([0.01, 0.05, 0.1, 0.2, 0.3], [1.0, 2.0, 3.0, 3.1, 3.2])
    # n(1-p): .99, 1.9, 2.7, 2.48 -> first decrease at index 3; 0.1*0.2 = 0.02 -> first p >= 0.02 is index 1
    if (starts, mx) != ({1}, 3):
        raise HarnessError("rouquerol_window")
    v, e = da_fit_ref([1e-4, 1e-3, 1e-2, 1e-1], [0.8 * math.exp(-(0.1 * -math.log(v)) ** 2) * 0.5 / 30 for v in
                                                  (1e-4, 1e-3, 1e-2, 1e-1)], 100.0, 30.0, 0.5, 2.0)
    if not (close(v, 0.8, 1e-12) and close(e, R_GAS * 100.0 / 1000 / 0.1, 1e-12)):
        raise HarnessError("DA reference regression")
    # area relation of the t-plot in SI: 1 mmol/nm of nitrogen-like liquid (M/rho = 34.7 cm3/mol) is 34.7 m2
    if not close((1e-3) * (34.7 * 1e-6) / 1e-9, 34.7, 1e-12):
        raise HarnessError("t-plot area units")
    ads_table()


CHECKS = [
    Check("bet_recovery", check_bet, strategy=strat_bet, budget={"quick": 1800, "thorough": 20000},
          rule="exact BET data; manual limits between points / automatic window; raw arrays and isotherms; refusals"),
    Check("bet_rouquerol", check_rouquerol, strategy=strat_rouquerol, budget={"quick": 1800, "thorough": 20000},
          rule="arbitrary data with a constructed first decrease of n(1-p); window, refusal and fit on that window"),
    Check("langmuir_recovery", check_langmuir, strategy=strat_langmuir, budget={"quick": 1800, "thorough": 20000},
          rule="exact Langmuir data; manual limits / default window; raw arrays and isotherms; refusals"),
    Check("tplot_recovery", check_tplot, strategy=strat_tplot, budget={"quick": 1600, "thorough": 16000},
          rule="n = s*t(p)+i for 4 built-in thickness curves and 2 callable families, optional steeper lower regime; "
               "manual t-limits / automatic sections"),
    Check("alphas_recovery", check_alphas, strategy=strat_alphas, budget={"quick": 1600, "thorough": 16000},
          rule="raw: sample = k*reference + i; isotherm against itself (BET / Langmuir / numeric reference area) and "
               "against a scaled reference isotherm on another grid and in other units"),
    Check("dubinin_recovery", check_dubinin, strategy=strat_dubinin, budget={"quick": 1800, "thorough": 20000},
          rule="exact DA data; DR (exponent 2), given exponent, free exponent; manual limits; refusals"),
]
