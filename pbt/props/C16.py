"""C16 - classical mesopore size distributions (pyGAPS-DH, BJH, Dollimore-Heal) conserve volume and follow the
Kelvin equation.

Clause families (each traced to a sentence of the property):

W   "reported pore widths are twice the sum of Kelvin radius and adsorbed-layer thickness at the measured pressures":
    pore_widths[j] == 2*(r_K(p_j) + t(p_j)) for the measured pressures p_0 < ... < p_{n-2} (all but the highest one
    used: a width is reported per pressure *interval*), with r_K / t evaluated by the harness, on the increasing
    grid, through the very condensation / thickness callables the method was given;
K   "Kelvin radii obey the Kelvin equation for each meniscus geometry": the library's Kelvin callable against the
    Young-Laplace / Kelvin equation typed here in SI units;  W + K together are the design's composite oracle
    `pore_widths == 2*(r_K,harness(p) + t(p))`; K is evaluated last in every case so that every other clause has been
    looked at when it fires;
I   "... and increase with pressure": widths strictly increasing;
V   "with a zero-thickness layer the pore volumes are exactly the successive changes in adsorbed liquid volume, so
    they sum to the total change";
D   "the distribution times the width increments equals the pore volumes" (increments of the full width curve,
    i.e. including the width at the highest pressure used, which is not reported and is taken from the harness's
    evaluation of the same callables);
C   "the cumulative curve ends at the volume adsorbed at the highest pressure used" (+ it is the running sum of the
    pore volumes) - psd_mesoporous only, the raw functions do not return a cumulative curve;
S   "a single condensation step yields a single peak at the Kelvin-predicted width".
"""
import numpy as np
from hypothesis import strategies as st

import pygaps
from pygaps.characterisation import models_kelvin as mk
from pygaps.characterisation import models_thickness as mt
from pygaps.characterisation import psd_meso as pm
from pygaps.core.adsorbate import Adsorbate
from pygaps.data import ADSORBATE_LIST
from pygaps.utilities.exceptions import CalculationError

from pbt import case as K
from pbt.core import Check, HarnessError, Violation

LEVEL = "exploration"
RULE = (
    "Cases = hypothesis-drawn strictly increasing relative-pressure grids (3-80 points on a 1e-6 lattice inside "
    "(0,1)) with non-decreasing liquid volumes (cumulative sums of increments, zero increments = plateaus allowed) x "
    "{pygaps-DH (slit/cylinder/sphere), BJH, DH (cylinder)} x {hemispherical, cylindrical, hemicylindrical} x "
    "{Halsey, Harkins/Jura, SiO2 JKO, carbon black KJG, zero thickness, harness callables: zero/const/linear/power} x "
    "generated adsorbate property sets (T 20-600 K, rho 0.05-3 g/cm3, M 2-400 g/mol, gamma 0.1-80 mN/m) for the raw "
    "functions; for psd_mesoporous additionally PointIsotherms in relative pressure with an adsorption leg and a "
    "(stored decreasing) desorption leg, branch ads/des/default, explicit or inferred meniscus, user adsorbates "
    "without backend or 10 registry adsorbates (N2, Ar, CO2, ...) at generated temperatures, loading stored as liquid "
    "volume or mmol/g, Kelvin / Kelvin-KJS / user Kelvin callable, p_limits default / None / generated (never on a "
    "data point). Single-step isotherms are generated separately. A case is non-trivial when at least 3 points are "
    "used and every clause applicable to it was evaluated; distinct by the full descriptor."
)
ASSUMPTIONS = [
    "Kelvin equation (Young-Laplace + ideal vapour, perfectly wetting): R T ln(p0/p) = gamma V_m (1/r1 + 1/r2); "
    "hemispherical meniscus r1=r2=r, cylindrical and hemicylindrical meniscus r1=r, r2=inf; R = k_B N_A (SI 2019); "
    "compared at rel 1e-10 (raw / user adsorbates) or 1e-9 (registry adsorbates, CoolProp PropsSI vs AbstractState)",
    "Kelvin-KJS = 2 gamma V_m / (R T ln(p0/p)) + 0.3 nm (Kruk, Jaroniec, Sayari 1997), cylindrical meniscus only",
    "the adsorbed-layer thickness is what the chosen thickness model gives at the measured pressures: for Halsey and "
    "Harkins-Jura the equation typed from the shipped module (0.354 (-5/ln p)^0.333 nm; (0.1399/(0.034 - log10 p))^0.5 nm), "
    "for the two tabulated curves the shipped table read by the harness itself (thickness = loading / monolayer uptake x "
    "0.354 nm, straight lines between the tabulated points, 0 below the first and the last tabulated value above the "
    "last), for user callables whatever the callable returns",
    "widths: rel 1e-12 (elementwise re-evaluation of the same callables; 1e-9 with registry adsorbates); zero "
    "thickness volumes: abs 1e-12*max|V| (the arithmetic is exact); distribution clause: |dist*dw - V| <= "
    "4*tolW*|dist|*w_max + 1e-12*|V| (propagates the width tolerance through the difference of two widths)",
    "p_limits select lo < p < hi; limits are generated half a lattice step away from every data point, and data "
    "points equal to the default limits 0.1 / 0.99 are not generated (the property is silent on closed/open ends)",
    "with meniscus_geometry=None the harness adopts get_meniscus_geometry(branch, pore_geometry) (the mapping itself "
    "is not stated by the property)",
    "for a single step with a non-zero thickness only 'nothing above the step, a positive volume at the step' is "
    "asserted (the thinning correction legitimately produces non-zero entries below the step)",
]

GRID = 10 ** 6
_R = 1.380649e-23 * 6.02214076e23  # J / (mol K)
# r * (1/r1 + 1/r2) for a meniscus of radius r
_CURVATURE = {"hemispherical": 2.0, "cylindrical": 1.0, "hemicylindrical": 1.0}
MENISCI = ["hemispherical", "cylindrical", "hemicylindrical"]
METHODS = {"pygaps-DH": pm.psd_pygapsdh, "BJH": pm.psd_bjh, "DH": pm.psd_dollimore_heal}
BUILTIN_T = ["Halsey", "Harkins/Jura", "SiO2 Jaroniec/Kruk/Olivier", "carbon black Kruk/Jaroniec/Gadkaree",
             "zero thickness"]
_CUSTOM_ADS = "verif-c16-adsorbate"
# registry adsorbates (name -> temperature window strictly inside (Tt, Tc)) with a CoolProp surface-tension curve
REGISTRY_POOL = {
    "nitrogen": (64.0, 120.0), "argon": (85.0, 145.0), "carbon dioxide": (218.0, 298.0), "methane": (92.0, 185.0),
    "oxygen": (56.0, 150.0), "krypton": (117.0, 205.0), "n-butane": (140.0, 415.0), "benzene": (280.0, 555.0),
    "water": (275.0, 640.0), "ethanol": (165.0, 505.0),
}


# ---- the reference -------------------------------------------------------------------------------------------------
def ref_kelvin(p, meniscus, T, rho, M, gamma):
    """Kelvin radius in nm. p relative pressure, T [K], rho [g/cm3], M [g/mol], gamma [mN/m]."""
    v_molar = (M * 1e-3) / (rho * 1e3)  # m3/mol
    r = (gamma * 1e-3) * v_molar * _CURVATURE[meniscus] / (_R * T * (-np.log(p)))  # m
    return r * 1e9


def ref_kelvin_kjs(p, T, rho, M, gamma):
    v_molar = (M * 1e-3) / (rho * 1e3)
    return 2.0 * (gamma * 1e-3) * v_molar / (_R * T * (-np.log(p))) * 1e9 + 0.3


def self_validate():
    # BJH (1951): r_K = 4.14 / log10(p0/p) Angstrom for N2 at its boiling point (hemispherical meniscus)
    p = np.array([0.1, 0.4, 0.9])
    got = ref_kelvin(p, "hemispherical", 77.35, 0.808, 28.0134, 8.85)
    want = 0.414 / (-np.log10(p))
    if not np.all(np.abs(got / want - 1) < 5e-3):
        raise HarnessError(f"reference Kelvin equation disagrees with the BJH constant: {got} vs {want}")
    # cylindrical meniscus (one principal curvature): half the hemispherical radius; a slit of core width d has a
    # hemicylindrical meniscus of radius d/2 -> d = r_hemispherical (Gregg & Sing: r_m equals the slit width)
    if not np.allclose(ref_kelvin(p, "cylindrical", 77.35, 0.808, 28.0134, 8.85), got / 2, rtol=1e-14):
        raise HarnessError("reference Kelvin: cylindrical != hemispherical/2")
    if not np.allclose(2 * ref_kelvin(p, "hemicylindrical", 77.35, 0.808, 28.0134, 8.85), got, rtol=1e-14):
        raise HarnessError("reference Kelvin: slit core width != hemispherical Kelvin radius")
    from CoolProp.CoolProp import PropsSI
    for name, (lo, hi) in REGISTRY_POOL.items():
        fluid = K.get_adsorbate(name).properties["backend_name"]
        for T in (lo, hi):
            if not PropsSI("I", "T", T, "Q", 0, fluid) > 0:
                raise HarnessError(f"no surface tension for {name} at {T}")


def worker_init():
    K.reset_registries()


# ---- thickness callables ---------------------------------------------------------------------------------------------
_TABLE_FILES = {"SiO2 Jaroniec/Kruk/Olivier": "LiChrospher Si-1000 silica.csv",
                "carbon black Kruk/Jaroniec/Gadkaree": "Cabot BP280 carbon black.csv"}
_TABLES = {}


def _table_thickness(name):
    """The tabulated reference isotherm read here (plain text parse of the shipped table): thickness = loading / monolayer
    uptake * 0.354 nm, straight lines between the tabulated points, 0 below the first and the last tabulated thickness
    above the last one."""
    if name not in _TABLES:
        import os
        import pygaps.data as pgd
        path = os.path.join(os.path.dirname(pgd.__file__), "stdiso", _TABLE_FILES[name])
        mono, P, L, in_data = None, [], [], False
        with open(path, encoding="utf8") as fh:
            for line in fh:
                cells = line.rstrip("\n").split(",")
                if in_data:
                    if len(cells) >= 2 and cells[0] not in ("", "pressure"):
                        P.append(float(cells[0]))
                        L.append(float(cells[1]))
                elif cells[0].startswith("monolayer uptake"):
                    mono = float(cells[1])
                elif cells[0].startswith("data:"):
                    in_data = True
        if mono is None or len(P) < 10 or not np.all(np.diff(P) > 0):
            raise HarnessError(f"cannot read the reference table {path}")
        _TABLES[name] = (np.array(P), np.array(L) / mono * 0.354)
    P, T = _TABLES[name]

    def fn(p):
        p = np.asarray(p, dtype=float)
        return np.where(p < P[0], 0.0, np.where(p > P[-1], T[-1], np.interp(p, P, T)))
    return fn


def make_thickness(td):
    """-> (argument to hand to the library, callable for the harness, is_zero)"""
    if td["kind"] == "builtin":
        fn = mt.get_thickness_model(td["name"])
        # the two curves given by an equation are typed here from the shipped module (Halsey 0.354 (-5/ln p)^0.333 nm,
        # Harkins-Jura (0.1399 / (0.034 - log10 p))^0.5 nm): the layer thickness the widths are judged against does not
        # come from the library then
        if td["name"] == "Halsey":
            return fn, (lambda p: 0.354 * (-5.0 / np.log(np.asarray(p, dtype=float))) ** 0.333), False
        if td["name"] == "Harkins/Jura":
            return fn, (lambda p: (0.1399 / (0.034 - np.log10(np.asarray(p, dtype=float)))) ** 0.5), False
        if td["name"] in _TABLE_FILES:
            return fn, _table_thickness(td["name"]), False
        return fn, fn, td["name"] == "zero thickness"
    a = td["a"]
    form = td["form"]
    if form == "zero":
        def fn(p):
            return np.zeros_like(np.asarray(p, dtype=float))
    elif form == "const":
        def fn(p):
            return np.full_like(np.asarray(p, dtype=float), a)
    elif form == "linear":
        def fn(p):
            return a * np.asarray(p, dtype=float)
    elif form == "power":
        def fn(p):
            return a * (-1.0 / np.log(np.asarray(p, dtype=float))) ** (1.0 / 3.0)
    else:
        raise HarnessError(f"unknown thickness form {form}")
    return fn, fn, form == "zero"


def _thickness_label(td):
    return td["name"] if td["kind"] == "builtin" else "callable_" + td["form"]


# ---- the clauses -----------------------------------------------------------------------------------------------------
def _fmt(a):
    return np.array2string(np.asarray(a, dtype=float), precision=12, threshold=12)


def verify(res, p, v, t, rk_lib, zero, what, tol_w=1e-12, tol_v=1e-12, cum=False):
    """Clauses W, I, V, D (and C) on a result dictionary for the used increasing grid p with volumes v."""
    n = len(p)
    out = {}
    for key in ("pore_widths", "pore_volumes", "pore_distribution"):
        arr = np.asarray(res[key], dtype=float)
        if arr.shape != (n - 1,):
            raise Violation(f"{what}: {key} has shape {arr.shape}, expected ({n - 1},) for {n} pressures "
                            f"{_fmt(p)}", tag="shape")
        out[key] = arr
    widths, vols, dist = out["pore_widths"], out["pore_volumes"], out["pore_distribution"]
    w_all = 2.0 * (np.asarray(rk_lib, dtype=float) + np.asarray(t, dtype=float))

    # W: widths at the measured pressures p_0 .. p_{n-2}
    if not np.all(np.abs(widths - w_all[:-1]) <= tol_w * np.abs(w_all[:-1])):
        j = int(np.argmax(np.abs(widths - w_all[:-1]) / np.abs(w_all[:-1])))
        raise Violation(f"{what}: pore_widths[{j}] = {widths[j]!r} but 2*(r_K + t) at p = {p[j]!r} is {w_all[j]!r} "
                        f"(r_K = {rk_lib[j]!r}, t = {t[j]!r}); widths {_fmt(widths)} expected {_fmt(w_all[:-1])}",
                        tag="widths")
    # I: increase with pressure
    if not np.all(np.diff(widths) > 0):
        j = int(np.argmin(np.diff(widths)))
        raise Violation(f"{what}: pore widths do not increase with pressure: w[{j}] = {widths[j]!r} (p = {p[j]!r}), "
                        f"w[{j + 1}] = {widths[j + 1]!r} (p = {p[j + 1]!r})", tag="widths_not_increasing")
    # V: zero thickness -> successive volume changes
    vmax = float(np.max(np.abs(v)))
    if zero:
        dv = np.diff(v)
        if not np.all(np.abs(vols - dv) <= tol_v * vmax):
            j = int(np.argmax(np.abs(vols - dv)))
            raise Violation(f"{what}: zero thickness, pore_volumes[{j}] = {vols[j]!r} but the adsorbed liquid volume "
                            f"changes by {dv[j]!r} between p = {p[j]!r} and {p[j + 1]!r}; volumes {_fmt(vols)} "
                            f"expected {_fmt(dv)}", tag="volume_conservation")
        total = float(v[-1] - v[0])
        if not abs(float(np.sum(vols)) - total) <= (tol_v + 1e-15 * n) * vmax:
            raise Violation(f"{what}: zero thickness, sum of pore volumes {float(np.sum(vols))!r} != total change "
                            f"{total!r}", tag="volume_total")
    # D: distribution * width increments == pore volumes
    dw = np.diff(w_all)
    w_hi = np.maximum(np.abs(w_all[:-1]), np.abs(w_all[1:]))
    tol_d = 4.0 * tol_w * np.abs(dist) * w_hi + 1e-12 * np.abs(vols)
    prod = dist * dw
    # (overflowing recurrences give inf / nan volumes: inf == inf and nan ~ nan satisfy the identity as stated)
    ok_d = (np.abs(prod - vols) <= tol_d) | (prod == vols) | (np.isnan(prod) & np.isnan(vols))
    if not np.all(ok_d):
        j = int(np.argmax(np.where(ok_d, -np.inf, np.nan_to_num(np.abs(prod - vols) - tol_d, nan=np.inf, posinf=np.inf))))
        raise Violation(f"{what}: pore_distribution[{j}] * width increment = {dist[j]!r} * {dw[j]!r} = "
                        f"{dist[j] * dw[j]!r} but pore_volumes[{j}] = {vols[j]!r}", tag="distribution")
    # C: cumulative curve
    if cum:
        c = np.asarray(res["pore_volume_cumulative"], dtype=float)
        if c.shape != (n - 1,):
            raise Violation(f"{what}: pore_volume_cumulative has shape {c.shape}, expected ({n - 1},)", tag="shape")
        scale = float(np.sum(np.abs(vols))) + abs(float(v[-1]))
        tol_c = max(tol_v, 1e-12) * scale
        if not np.all(np.isfinite(vols)):
            # the recurrences overflowed (inf - inf): no finite running sum exists to compare with (same reading as for D)
            return widths, vols, dist
        if not abs(c[-1] - v[-1]) <= tol_c:
            raise Violation(f"{what}: cumulative curve ends at {c[-1]!r}, the volume adsorbed at the highest pressure "
                            f"used (p = {p[-1]!r}) is {v[-1]!r}", tag="cumulative_end")
        if not np.all(np.abs(np.diff(c) - vols[1:]) <= tol_c):
            raise Violation(f"{what}: cumulative curve {_fmt(c)} is not the running sum of the pore volumes "
                            f"{_fmt(vols)}", tag="cumulative_running")
    return widths, vols, dist


def kelvin_clause(rk_lib, rk_ref, p, meniscus, what, tol=1e-10, kind="kelvin_equation"):
    """Clause K; returns a Violation (to be raised after the other clauses) or None."""
    rk_lib = np.asarray(rk_lib, dtype=float)
    rk_ref = np.asarray(rk_ref, dtype=float)
    if rk_lib.shape != rk_ref.shape:
        return Violation(f"{what}: Kelvin radii have shape {rk_lib.shape} for pressures of shape {rk_ref.shape}",
                         tag="kelvin_shape")
    if np.all(np.abs(rk_lib - rk_ref) <= tol * np.abs(rk_ref)):
        return None
    ratio = rk_lib / rk_ref
    j = int(np.argmax(np.abs(ratio - 1))) if rk_lib.ndim else None
    one = (lambda a: float(a[j])) if rk_lib.ndim else float
    return Violation(
        f"{what}: Kelvin radius for a {meniscus} meniscus at p/p0 = {one(np.asarray(p, dtype=float))!r} is "
        f"{one(rk_lib)!r} nm, the Kelvin equation gives {one(rk_ref)!r} nm (ratio {one(ratio)!r})",
        tag=f"{kind}:{meniscus}",
        detail={"ratio_min": float(np.nanmin(ratio)), "ratio_max": float(np.nanmax(ratio))})


def kf_hemicylindrical_x4(check_name, desc, viol):
    """KF-C16-1: kelvin_radius(..., 'hemicylindrical') is exactly 4 x the Kelvin equation for a hemicylindrical
    meniscus (geometry_factor 0.5 where the one-curvature menisci need 2.0). Only this factor, only this meniscus,
    only clause K."""
    d = viol.detail
    return (viol.tag == "kelvin_equation:hemicylindrical" and isinstance(d, dict)
            and abs(d["ratio_min"] / 4.0 - 1) < 1e-8 and abs(d["ratio_max"] / 4.0 - 1) < 1e-8)


# ---- strategies ------------------------------------------------------------------------------------------------------
# (small categorical draws come first, the long lists last: hypothesis spends its entropy budget front to back)
_FORBID = (GRID // 10, GRID * 99 // 100)  # the default p_limits


def _fix(k):
    return k + 1 if k in _FORBID else k


def _lattice(min_n, max_n, lo=1, hi=GRID - 1):
    """sorted unique lattice indices in [lo, hi], never one of the default limits"""
    return st.lists(st.integers(lo, hi - 1).map(_fix), min_size=min_n, max_size=max_n, unique=True).map(sorted)


_SIZES = [(3, 5), (3, 5), (6, 20), (6, 20), (21, 80)]
_lattice_used = st.sampled_from(_SIZES).flatmap(
    lambda mm: st.one_of(_lattice(*mm), _lattice(*mm, lo=GRID // 20)))
# mostly inside the default window (0.1, 0.99), with a few points outside it
_lattice_default = st.sampled_from(_SIZES).flatmap(
    lambda mm: st.builds(lambda a, b: sorted(set(a) | set(b)),
                         _lattice(mm[0], mm[1], lo=_FORBID[0] + 1, hi=_FORBID[1] - 1), _lattice(0, 4)))


@st.composite
def _leg(draw, lattice=_lattice_used):
    plateaus = draw(st.booleans())
    v0 = draw(st.one_of(st.just(0.0), st.floats(1e-6, 5.0)))
    ks = draw(lattice)
    n = len(ks)
    inc = st.floats(1e-9, 2.0)
    if plateaus:
        inc = st.one_of(st.just(0.0), inc)
    incs = draw(st.lists(inc, min_size=n - 1, max_size=n - 1))
    v = [v0]
    for d in incs:
        v.append(v[-1] + d)
    return {"k": ks, "v": v}


@st.composite
def _step_leg(draw):
    a = draw(st.one_of(st.just(0.0), st.floats(1e-6, 3.0)))
    jump = draw(st.floats(1e-6, 3.0))
    where = draw(st.floats(0.0, 1.0))
    ks = draw(st.sampled_from([(3, 5), (6, 20), (21, 40)]).flatmap(lambda mm: _lattice(*mm)))
    n = len(ks)
    k = min(n - 2, int(where * (n - 1)))
    return {"k": ks, "v": [a] * (k + 1) + [a + jump] * (n - k - 1), "step": k}


_props = st.fixed_dictionaries({
    "T": st.floats(20.0, 600.0), "rho": st.floats(0.05, 3.0), "M": st.floats(2.0, 400.0),
    "gamma": st.floats(0.1, 80.0)})

_thickness = st.one_of(
    st.sampled_from(BUILTIN_T).map(lambda n: {"kind": "builtin", "name": n}),
    st.sampled_from(BUILTIN_T).map(lambda n: {"kind": "builtin", "name": n}),
    st.just({"kind": "builtin", "name": "zero thickness"}),
    st.just({"kind": "callable", "form": "zero", "a": 0.0}),
    st.builds(lambda f, a: {"kind": "callable", "form": f, "a": a},
              st.sampled_from(["const", "linear", "power"]), st.floats(0.01, 3.0)),
)

_METHOD_PORE = [("pygaps-DH", "slit"), ("pygaps-DH", "cylinder"), ("pygaps-DH", "sphere"), ("BJH", "cylinder"),
                ("DH", "cylinder")]
_method_pore = st.sampled_from(_METHOD_PORE)


def _raw_desc(mp, men, th, props, leg):
    return {"leg": leg, "method": mp[0], "pore": mp[1], "meniscus": men, "props": props, "thickness": th}


def strat_raw():
    return st.builds(_raw_desc, _method_pore, st.sampled_from(MENISCI), _thickness, _props, _leg())


_ads = st.one_of(
    _props.map(lambda p: dict(p, kind="custom")),
    st.builds(lambda name, u: {"kind": "registry", "name": name,
                               "T": REGISTRY_POOL[name][0] + u * (REGISTRY_POOL[name][1] - REGISTRY_POOL[name][0])},
              st.sampled_from(sorted(REGISTRY_POOL)), st.floats(0.0, 1.0)),
    st.just({"kind": "registry", "name": "nitrogen", "T": 77.355}),
)

_half = st.integers(0, GRID - 1).map(lambda k: (k + 0.5) / GRID)  # never a data point


@st.composite
def _entry(draw, step=False):
    used = draw(st.sampled_from(["ads", "des"]))
    branch_arg = "ads" if used == "ads" else draw(st.sampled_from([None, "des"]))
    method, pore = draw(_method_pore)
    kelvin = draw(st.sampled_from(["Kelvin", "Kelvin", "Kelvin", "Kelvin-KJS", "custom"]))
    meniscus = draw(st.one_of(st.none(), st.sampled_from(MENISCI)))
    if kelvin == "Kelvin-KJS":
        # only applicable to a cylindrical meniscus (documented precondition of the KJS correction)
        inferred_cyl = used == "ads" and pore == "cylinder"
        meniscus = None if (inferred_cyl and draw(st.booleans())) else "cylindrical"
    e = {
        "used": used, "branch_arg": branch_arg, "method": method, "pore": pore, "meniscus": meniscus,
        "kelvin": kelvin, "kelvin_c": draw(st.floats(0.05, 5.0)), "thickness": draw(_thickness),
        "loading": draw(st.sampled_from(["volume_liquid", "molar", "volume_liquid", "molar", "mass", "volume_gas"])), "ads": draw(_ads),
        "pressure": draw(st.sampled_from(["relative"] * 4 + ["relative%", "absolute:bar", "absolute:kPa", "absolute:Pa"])),
    }
    kind = "none" if step else draw(st.sampled_from(["default", "default", "none", "window", "window", "window",
                                                     "free"]))
    if kind == "default":
        e["limits"] = "default"
        e["leg"] = draw(_leg(_lattice_default))
    else:
        e["leg"] = draw(_step_leg() if step else _leg())
        ks = e["leg"]["k"]
        if kind == "none":
            e["limits"] = draw(st.sampled_from([[None, None], [None, None], [0, None], [None, 1.0], [0.0, 1.0]]))
        elif kind == "free":
            e["limits"] = [draw(st.one_of(st.none(), _half)), draw(st.one_of(st.none(), _half))]
        else:
            # a window placed relative to the data: from just below point i to just above point j
            i = draw(st.integers(0, len(ks) - 1))
            j = draw(st.integers(i, len(ks) - 1))
            if j - i < 2 and draw(st.integers(0, 3)) > 0:  # keep most windows at >= 3 points
                i, j = max(0, i - 2), min(len(ks) - 1, j + 2)
            lo = (ks[i] - 0.5) / GRID
            if i == 0:
                lo = draw(st.sampled_from([None, 0, lo]))
            e["limits"] = [lo, (ks[j] + 0.5) / GRID]
    e["other"] = draw(st.one_of(st.none(), _leg(_lattice(1, 6))))
    return e


def strat_entry():
    return _entry()


def strat_single_step():
    raw = st.builds(_raw_desc, _method_pore, st.sampled_from(MENISCI), _thickness, _props, _step_leg()).map(
        lambda d: dict(d, via="raw"))
    entry = _entry(step=True).map(lambda e: dict(e, via="entry"))
    return st.one_of(raw, entry)


def strat_kelvin():
    return st.builds(lambda men, props, ks: {"k": ks, "meniscus": men, "props": props},
                     st.sampled_from(MENISCI), _props, _lattice(1, 8))


# ---- raw functions ---------------------------------------------------------------------------------------------------
def _run_raw(desc):
    p = np.array(desc["leg"]["k"], dtype=float) / GRID
    v = np.array(desc["leg"]["v"], dtype=float)
    pr = desc["props"]
    men = desc["meniscus"]
    k_lib = mk.get_kelvin_model("Kelvin", meniscus_geometry=men, temperature=pr["T"], liquid_density=pr["rho"],
                                adsorbate_molar_mass=pr["M"], adsorbate_surface_tension=pr["gamma"])
    t_arg, t_fn, zero = make_thickness(desc["thickness"])
    res = METHODS[desc["method"]](v.copy(), p.copy(), desc["pore"], t_arg, k_lib)
    rk_lib = k_lib(p)
    rk_ref = ref_kelvin(p, men, pr["T"], pr["rho"], pr["M"], pr["gamma"])
    what = (f"{desc['method']} raw ({desc['pore']} pores, {men} meniscus, thickness "
            f"{_thickness_label(desc['thickness'])})")
    return res, p, v, t_fn(p), rk_lib, rk_ref, zero, what, men


def check_raw(desc, ctx):
    res, p, v, t, rk_lib, rk_ref, zero, what, men = _run_raw(desc)
    verify(res, p, v, t, rk_lib, zero, what)
    ctx.label("method_" + desc["method"], "pore_" + desc["pore"], "meniscus_" + men,
              "thickness_" + _thickness_label(desc["thickness"]), "zero_thickness" if zero else "with_thickness",
              "n_%s" % ("3-5" if len(p) <= 5 else "6-20" if len(p) <= 20 else "21-80"),
              "plateaus" if np.any(np.diff(v) == 0) else "strictly_increasing_volume")
    ctx.nt(desc, desc)
    late = kelvin_clause(rk_lib, rk_ref, p, men, what)
    if late is not None:
        raise late


# ---- psd_mesoporous --------------------------------------------------------------------------------------------------
def _ads_props(a):
    """-> (name to give the isotherm, T, rho, M, gamma, registry?)"""
    if a["kind"] == "custom":
        ADSORBATE_LIST[:] = [x for x in ADSORBATE_LIST if x.name != _CUSTOM_ADS]
        Adsorbate(_CUSTOM_ADS, store=True, molar_mass=a["M"], liquid_density=a["rho"], surface_tension=a["gamma"],
                  liquid_molar_density=a["rho"] / a["M"])  # g/mol, g/cm3, mN/m, mol/cm3
        return _CUSTOM_ADS, a["T"], a["rho"], a["M"], a["gamma"], False
    from CoolProp.CoolProp import PropsSI
    fluid = K.get_adsorbate(a["name"]).properties["backend_name"]
    T = a["T"]
    return (a["name"], T, PropsSI("Dmass", "T", T, "Q", 0, fluid) / 1000.0, PropsSI("M", fluid) * 1000.0,
            PropsSI("I", "T", T, "Q", 0, fluid) * 1000.0, True)


def _run_entry(e, ctx):
    """Build the isotherm, call psd_mesoporous, return what `verify` needs (or None when fewer than 3 points are in
    the limits and the library refused)."""
    name, T, rho, M, gamma, registry = _ads_props(e["ads"])
    try:
        legs = {e["used"]: e["leg"]}
        if e["other"] is not None:
            legs["des" if e["used"] == "ads" else "ads"] = e["other"]
        pressure, loading, branch = [], [], []
        if "ads" in legs:
            pressure += [k / GRID for k in legs["ads"]["k"]]
            loading += list(legs["ads"]["v"])
            branch += [False] * len(legs["ads"]["k"])
        if "des" in legs:  # a desorption leg is measured (and stored) from high to low pressure
            pressure += [k / GRID for k in reversed(legs["des"]["k"])]
            loading += list(reversed(legs["des"]["v"]))
            branch += [True] * len(legs["des"]["k"])
        # the stored loading representation; factor = cm3 of liquid per stored unit (the adsorbed LIQUID volume is what the
        # methods work on, whatever the isotherm is stored in)
        lbasis = e["loading"]
        if lbasis == "volume_gas":
            if registry:
                from CoolProp.CoolProp import PropsSI
                fl = K.get_adsorbate(e["ads"]["name"]).properties["backend_name"]
                rho_gas_molar = PropsSI("Dmolar", "T", T, "Q", 1, fl) / 1e6  # mol/cm3
            else:
                # user-defined adsorbate: the vapour density is another user-supplied constant
                rho_gas_molar = 4.0e-5
                next(x for x in ADSORBATE_LIST if x.name == _CUSTOM_ADS).properties.update(
                    gas_molar_density=rho_gas_molar, gas_density=rho_gas_molar * M)
            to_liquid, lunit = rho_gas_molar * M / rho, "cm3"  # cm3 vapour -> mol -> g -> cm3 liquid
        elif lbasis == "molar":
            to_liquid, lunit = M / rho / 1000.0, "mmol"  # mmol/g * g/mol / (g/cm3) / 1000 = cm3/g
        elif lbasis == "mass":
            to_liquid, lunit = 1.0 / rho / 1000.0, "mg"
        else:
            to_liquid, lunit = 1.0, "cm3"
        molar = False
        # the stored pressure representation (the methods work on relative pressure whatever the isotherm is stored in)
        prep = e.get("pressure", "relative")
        if prep == "relative":
            pmode, punit, pstore = "relative", None, list(pressure)
        elif prep == "relative%":
            pmode, punit, pstore = "relative%", None, [100.0 * v for v in pressure]
        else:
            punit = prep.split(":")[1]
            if registry:
                from CoolProp.CoolProp import PropsSI
                fl = K.get_adsorbate(e["ads"]["name"]).properties["backend_name"]
                psat_pa = PropsSI("P", "T", T, "Q", 0, fl)
            else:
                psat_pa = 1.2e5  # one more user-supplied constant of the user-defined adsorbate
                next(x for x in ADSORBATE_LIST if x.name == _CUSTOM_ADS).properties.update(saturation_pressure=psat_pa)
            pmode, pstore = "absolute", [v * psat_pa / {"bar": 1e5, "kPa": 1e3, "Pa": 1.0}[punit] for v in pressure]
        iso = pygaps.PointIsotherm(
            pressure=pstore, loading=loading, branch=branch, material="verif-c16-material", adsorbate=name,
            temperature=T, pressure_mode=pmode, pressure_unit=punit,
            loading_basis=lbasis, loading_unit=lunit,
            material_basis="mass", material_unit="g", temperature_unit="K")

        branch_used = e["branch_arg"] or "des"  # documented default
        if branch_used != e["used"]:
            raise HarnessError("descriptor inconsistent: branch")
        p_all = np.array(e["leg"]["k"], dtype=float) / GRID
        v_all = np.array(e["leg"]["v"], dtype=float)
        v_all = v_all * to_liquid
        lim = (0.1, 0.99) if e["limits"] == "default" else tuple(e["limits"])
        sel = np.ones(len(p_all), dtype=bool)
        if lim[0]:
            sel &= p_all > lim[0]
        if lim[1]:
            sel &= p_all < lim[1]
        p, v = p_all[sel], v_all[sel]

        t_arg, t_fn, zero = make_thickness(e["thickness"])
        if e["thickness"]["kind"] == "builtin":
            t_arg = e["thickness"]["name"]
        men = e["meniscus"] or mk.get_meniscus_geometry(branch_used, e["pore"])
        c = e["kelvin_c"]
        if e["kelvin"] == "custom":
            def k_arg(pressure, **model_args):
                return c / (-np.log(pressure))
        else:
            k_arg = e["kelvin"]

        kwargs = {"psd_model": e["method"], "pore_geometry": e["pore"], "thickness_model": t_arg,
                  "kelvin_model": k_arg}
        if e["meniscus"] is not None:
            kwargs["meniscus_geometry"] = e["meniscus"]
        if e["branch_arg"] is not None:
            kwargs["branch"] = e["branch_arg"]
        if e["limits"] != "default":
            kwargs["p_limits"] = lim
        try:
            res = pm.psd_mesoporous(iso, **kwargs)
        except CalculationError:
            if len(p) < 3:
                ctx.label("refused_fewer_than_3_points")
                return None
            raise
        if len(p) < 3:
            ctx.label("accepted_fewer_than_3_points")
            return None
    finally:
        if not registry:
            ADSORBATE_LIST[:] = [x for x in ADSORBATE_LIST if x.name != _CUSTOM_ADS]

    what = (f"psd_mesoporous({e['method']}, {e['pore']}, meniscus={e['meniscus']!r} -> {men}, branch="
            f"{e['branch_arg']!r}, thickness {_thickness_label(e['thickness'])}, kelvin {e['kelvin']}, "
            f"p_limits={e['limits']!r}, adsorbate {e['ads']})")
    if e["kelvin"] == "Kelvin":
        rk_lib = mk.kelvin_radius(p, men, T, rho, M, gamma)
        late = kelvin_clause(rk_lib, ref_kelvin(p, men, T, rho, M, gamma), p, men, what)
    elif e["kelvin"] == "Kelvin-KJS":
        rk_lib = mk.kelvin_radius_kjs(p, men, T, rho, M, gamma)
        late = kelvin_clause(rk_lib, ref_kelvin_kjs(p, T, rho, M, gamma), p, men, what, kind="kelvin_kjs")
    else:
        rk_lib = c / (-np.log(p))
        late = None
    tol = 1e-9 if registry else 1e-12
    if e.get("pressure", "relative") != "relative":
        # a stored representation that has to be converted to relative pressure first: an ulp in p is amplified by
        # 1/|ln p| in the Kelvin radius (grid up to 1 - 1e-6)
        tol = max(tol, 1e-8)
    return {"res": res, "p": p, "v": v, "t": t_fn(p), "rk_lib": rk_lib, "zero": zero, "what": what, "men": men,
            "tol_w": tol, "tol_v": tol if (molar or registry) else 1e-12, "late": late, "registry": registry}


def check_entry(desc, ctx):
    r = _run_entry(desc, ctx)
    if r is None:
        return
    verify(r["res"], r["p"], r["v"], r["t"], r["rk_lib"], r["zero"], r["what"], tol_w=r["tol_w"], tol_v=r["tol_v"],
           cum=True)
    n = len(r["p"])
    ctx.label("method_" + desc["method"], "pore_" + desc["pore"], "meniscus_" + r["men"],
              "meniscus_inferred" if desc["meniscus"] is None else "meniscus_given",
              "thickness_" + _thickness_label(desc["thickness"]), "zero_thickness" if r["zero"] else "with_thickness",
              "branch_" + str(desc["branch_arg"]), "kelvin_" + desc["kelvin"], "loading_" + desc["loading"],
              "ads_" + desc["ads"]["kind"],
              "limits_default" if desc["limits"] == "default" else
              "limits_none" if desc["limits"] == [None, None] else "limits_given",
              "limits_cut_points" if n < len(desc["leg"]["k"]) else "limits_keep_all",
              "n_%s" % ("3-5" if n <= 5 else "6-20" if n <= 20 else "21-80"))
    ctx.nt(desc, desc)
    if r["late"] is not None:
        raise r["late"]


# ---- single condensation step ----------------------------------------------------------------------------------------
def check_single_step(desc, ctx):
    if desc["via"] == "raw":
        res, p, v, t, rk_lib, rk_ref, zero, what, men = _run_raw(desc)
        widths, vols, dist = verify(res, p, v, t, rk_lib, zero, what)
        late = kelvin_clause(rk_lib, rk_ref, p, men, what)
    else:
        r = _run_entry(desc, ctx)
        if r is None:
            raise HarnessError("single-step entry case without result")
        p, v, t, rk_lib, zero, what, late = r["p"], r["v"], r["t"], r["rk_lib"], r["zero"], r["what"], r["late"]
        widths, vols, dist = verify(r["res"], p, v, t, rk_lib, zero, what, tol_w=r["tol_w"], tol_v=r["tol_v"],
                                    cum=True)
    k = desc["leg"]["step"]
    jump = float(v[k + 1] - v[k])
    # nothing condenses above the step
    if np.any(vols[k + 1:] != 0) or np.any(dist[k + 1:] != 0):
        raise Violation(f"{what}: single step between p = {p[k]!r} and {p[k + 1]!r}, but non-zero pore volumes above "
                        f"it: {_fmt(vols)}", tag="step_spurious_above")
    if not (vols[k] > 0 and dist[k] > 0):
        raise Violation(f"{what}: single step of {jump!r} between p = {p[k]!r} and {p[k + 1]!r} gives pore volume "
                        f"{vols[k]!r} / distribution {dist[k]!r} there", tag="step_no_peak")
    if zero:
        # exactly one peak, holding the whole step
        others = np.delete(vols, k)
        if np.any(others != 0) or np.any(np.delete(dist, k) != 0):
            raise Violation(f"{what}: zero thickness, single step at index {k}, but pore volumes {_fmt(vols)}",
                            tag="step_not_single")
        if int(np.argmax(dist)) != k or int(np.argmax(vols)) != k:
            raise Violation(f"{what}: peak not at the step", tag="step_peak_position")
    # ... at the Kelvin-predicted width: the width reported for the peak is the one of the pressure where the step
    # starts (clause W fixed pore_widths[k] = 2*(r_K(p_k) + t(p_k)) above) and the peak covers [w(p_k), w(p_k+1)]
    w_lo = 2.0 * (rk_lib[k] + t[k])
    w_hi = 2.0 * (rk_lib[k + 1] + t[k + 1])
    if not (abs(widths[k] - w_lo) <= 1e-9 * w_lo and widths[k] < w_hi):
        raise Violation(f"{what}: peak reported at width {widths[k]!r}, Kelvin-predicted interval [{w_lo!r}, {w_hi!r}]",
                        tag="step_peak_width")
    ctx.label("via_" + desc["via"], "method_" + desc["method"], "zero_thickness" if zero else "with_thickness",
              "step_first" if k == 0 else "step_last" if k == len(p) - 2 else "step_inner")
    ctx.nt(desc, desc)
    if late is not None:
        raise late


# ---- the Kelvin models themselves --------------------------------------------------------------------------------------
def check_kelvin(desc, ctx):
    pr = desc["props"]
    men = desc["meniscus"]
    p = np.array(desc["k"], dtype=float) / GRID
    args = (men, pr["T"], pr["rho"], pr["M"], pr["gamma"])
    what = f"kelvin_radius(T={pr['T']!r}, rho={pr['rho']!r}, M={pr['M']!r}, gamma={pr['gamma']!r})"
    ref = ref_kelvin(p, *args)
    late = []
    late.append(kelvin_clause(mk.kelvin_radius(p, *args), ref, p, men, what + " [array]"))
    for j, pj in enumerate(p):
        late.append(kelvin_clause(mk.kelvin_radius(float(pj), *args), ref[j], pj, men, what + " [scalar]"))
    model = mk.get_kelvin_model("Kelvin", meniscus_geometry=men, temperature=pr["T"], liquid_density=pr["rho"],
                                adsorbate_molar_mass=pr["M"], adsorbate_surface_tension=pr["gamma"])
    late.append(kelvin_clause(model(p), ref, p, men, what + " [get_kelvin_model]"))
    if men == "cylindrical":
        refk = ref_kelvin_kjs(p, *args[1:])
        v = kelvin_clause(mk.kelvin_radius_kjs(p, *args), refk, p, men, what + " [KJS]", kind="kelvin_kjs")
        if v is not None:
            raise v
        model = mk.get_kelvin_model("Kelvin-KJS", meniscus_geometry=men, temperature=pr["T"],
                                    liquid_density=pr["rho"], adsorbate_molar_mass=pr["M"],
                                    adsorbate_surface_tension=pr["gamma"])
        v = kelvin_clause(model(p), refk, p, men, what + " [get_kelvin_model KJS]", kind="kelvin_kjs")
        if v is not None:
            raise v
        ctx.label("kjs")
    ctx.label("meniscus_" + men)
    ctx.nt(desc, desc)
    late = [x for x in late if x is not None]
    # a violation that is not the known one first
    late.sort(key=lambda x: kf_hemicylindrical_x4("kelvin_equation", desc, x))
    if late:
        raise late[0]


CHECKS = [
    Check("kelvin_equation", check_kelvin, strategy=strat_kelvin, budget={"quick": 2000, "thorough": 20000},
          rule="kelvin_radius (array, scalar, through get_kelvin_model) and kelvin_radius_kjs against the Kelvin "
               "equation typed in SI units, 1-8 pressures, three menisci, generated (T, rho, M, gamma)"),
    Check("raw_recurrences", check_raw, strategy=strat_raw, budget={"quick": 3000, "thorough": 30000},
          rule="psd_pygapsdh / psd_bjh / psd_dollimore_heal on generated branches: clauses W, I, V, D, K"),
    Check("entry_point", check_entry, strategy=strat_entry, budget={"quick": 2500, "thorough": 25000},
          rule="psd_mesoporous on generated PointIsotherms (branches, limits, inferred meniscus, user / registry "
               "adsorbates, Kelvin variants): clauses W, I, V, D, C, K"),
    Check("single_step", check_single_step, strategy=strat_single_step, budget={"quick": 1500, "thorough": 15000},
          rule="one jump of the adsorbed volume between two neighbouring pressures, raw functions and psd_mesoporous: "
               "clause S on top of the others"),
]
