"""C04 - read-only queries and analyses are pure and independent of query history (model-based histories)."""
import copy
import json
import math

import numpy as np
import pandas as pd
from hypothesis import strategies as st

import pygaps
import pygaps.characterisation as pgc
import pygaps.modelling as pgm
from pygaps.characterisation import models_thickness, psd_kernel
from pygaps.data import ADSORBATE_LIST, MATERIAL_LIST
from pygaps.iast import iast_point
from pygaps.units.converter_mode import _LOADING_MODE, _MATERIAL_MODE

from pbt import case as K
from pbt import ref_units as ru
from pbt import strategies as S
from pbt.core import Check, HarnessError, Violation

LEVEL = "exploration"
RULE = (
    "A case is a history: a world of three objects built from a hypothesis-drawn descriptor (synthetic N2 point isotherm at "
    "77.355 K with adsorption and desorption legs, BET region and a mesopore step, stored in a generated unit configuration; "
    "a sibling at 87.3 K sharing the Adsorbate object; Langmuir model isotherms of two gases) followed by 2-10 read-only "
    "operations drawn from a catalogue of ~30 (accessors with unit / branch / limit arguments, loading_at / pressure_at / "
    "spreading_pressure_at with branch x interpolation kind x fill x inside / below / above the range x foreign units, "
    "to_json / to_csv / to_dict, area_BET, area_langmuir, t_plot, alpha_s, dr_plot, da_plot, psd_mesoporous, "
    "psd_microporous, psd_dft, initial_henry_slope / virial, isosteric_enthalpy, enthalpy_sorption_whittaker, model_iso, "
    "iast_point, adsorbate property calls at other temperatures). For EVERY operation: (a) the same operation issued first "
    "on an identical freshly built world (caches cleared) gives the same outcome - same exception class or same value "
    "(rel 1e-10) - and (b) the fingerprint (iso_id, labels, data frame bytes / dtypes / index, metadata, adsorbate and "
    "material dictionaries, registry contents) of every object of the world is unchanged. Non-trivial = history in which two "
    "calls on the same isotherm differ in branch / kind / fill / unit (a cache key changes) or an analysis follows an "
    "interpolating call, or two different analyses share a module-level cache / the adsorbate's thermodynamic state; distinct by (stored units, operation sequence with argument classes)."
)
ASSUMPTIONS = [
    "outcomes compared with rel 1e-10 (identical code path; CoolProp and SciPy are deterministic)",
    "a fresh world shares the registry Adsorbate objects (their CoolProp state is reset for the fresh run)",
]


def worker_init():
    K.reset_registries()


# ---- world ------------------------------------------------------------------------------------------------------------------
def _base_data(shape):
    nm, C, step, p0 = shape["nm"], shape["C"], shape["step"], shape["p0"]
    p_ads = np.concatenate([np.geomspace(2e-5, 0.04, 9), np.linspace(0.06, 0.95, 19)])
    p_des = np.linspace(0.9, 0.15, 9)

    def n(p, hyst=0.0):
        q = 0.85 * p
        return nm * C * q / ((1 - q) * (1 + (C - 1) * q)) + step / (1 + np.exp(-(p - (p0 - hyst)) / 0.02))
    return (np.concatenate([p_ads, p_des]).round(8), np.concatenate([n(p_ads), n(p_des, 0.08) * 1.01]).round(8),
            [0] * len(p_ads) + [1] * len(p_des))


def _other_unit(table, basis, unit):
    keys = [k for k in (table.get(basis) or {}) if k is not None]
    if unit not in keys or len(keys) < 2:
        return None
    return keys[(keys.index(unit) + 1) % len(keys)]


def build_world(desc, reset=True):
    """Builds the objects of the case from the descriptor. Deterministic."""
    if reset:
        K.reset_registries()
    units = desc["units"]
    p, l, br = _base_data(desc["shape"])
    world = {}
    for key, T, scale in (("A", 77.355, 1.0), ("B", 87.3, 0.55)):
        mat = pygaps.Material(desc["material"]["name"], density=desc["material"]["density"],
                              molar_mass=desc["material"]["molar_mass"])
        df = pd.DataFrame({"pressure": p, "loading": l * scale, "branch": br, "enthalpy": np.linspace(20, 8, len(p)).round(6)})
        iso = pygaps.PointIsotherm(isotherm_data=df, pressure_key="pressure", loading_key="loading", material=mat,
                                   adsorbate="nitrogen", temperature=T, pressure_mode="relative", pressure_unit=None,
                                   loading_basis="molar", loading_unit="mmol", material_basis="mass", material_unit="g",
                                   temperature_unit="K", user="verif", note=desc["shape"]["nm"])
        iso.convert(pressure_mode=units["pressure_mode"], pressure_unit=units["pressure_unit"],
                    loading_basis=units["loading_basis"], loading_unit=units["loading_unit"],
                    material_basis=units["material_basis"], material_unit=units["material_unit"])
        iso.convert_temperature(units["temperature_unit"])
        if key == "B" and desc.get("b_other_units"):
            # the companion isotherm reported in other units of the same bases (two instruments, two export settings)
            lu, mu = _other_unit(_LOADING_MODE, units["loading_basis"], units["loading_unit"]), \
                _other_unit(_MATERIAL_MODE, units["material_basis"], units["material_unit"])
            if lu:
                iso.convert_loading(unit_to=lu)
            if mu:
                iso.convert_material(unit_to=mu)
        world[key] = iso
    # the same data on an adsorbate WITHOUT thermodynamic backend whose constants the user supplied (documented fallback)
    uf = ru.UserFluid(101325.0, 30.07, 0.018, 6.5e-5)
    for a in list(ADSORBATE_LIST):
        if a.name == "verif-user-gas":
            ADSORBATE_LIST.remove(a)
    pygaps.Adsorbate("verif-user-gas", store=True, **ru.user_fluid_properties(uf))
    df_u = pd.DataFrame({"pressure": p, "loading": l * 0.8, "branch": br, "enthalpy": np.linspace(20, 8, len(p)).round(6)})
    world["U"] = pygaps.PointIsotherm(
        isotherm_data=df_u, pressure_key="pressure", loading_key="loading",
        material=pygaps.Material(desc["material"]["name"], density=desc["material"]["density"],
                                 molar_mass=desc["material"]["molar_mass"]),
        adsorbate="verif-user-gas", temperature=77.355, pressure_mode="relative", pressure_unit=None, loading_basis="molar",
        loading_unit="mmol", material_basis="mass", material_unit="g", temperature_unit="K", user="verif")
    # ... and on a user's PRIVATE description of a gas of the same name (not registered; other vapour pressure and
    # densities), attached through the adsorbate setter: two adsorbate objects with one name live in the process
    uf2 = ru.UserFluid(64000.0, 30.07, 0.021, 4.1e-5)
    iso_u2 = pygaps.PointIsotherm(
        isotherm_data=df_u.copy(), pressure_key="pressure", loading_key="loading",
        material=pygaps.Material(desc["material"]["name"], density=desc["material"]["density"],
                                 molar_mass=desc["material"]["molar_mass"]),
        adsorbate="verif-user-gas", temperature=77.355, pressure_mode="relative", pressure_unit=None, loading_basis="molar",
        loading_unit="mmol", material_basis="mass", material_unit="g", temperature_unit="K", user="verif-2")
    iso_u2.adsorbate = pygaps.Adsorbate("verif-user-gas", store=False, **ru.user_fluid_properties(uf2))
    world["U2"] = iso_u2
    for key, gas, kk in (("M1", "methane", 1.3), ("M2", "ethane", 4.0), ("M3", "methane", 2.0), ("M4", "ethane", 0.6)):
        m = pgm.get_isotherm_model("Langmuir" if key not in ("M3", "M4") else "Toth")
        m.params = {"K": kk * desc["shape"]["C"] / 50.0, "n_m": desc["shape"]["nm"] * (1.0 if key != "M4" else 1.7)}
        if key in ("M3", "M4"):
            m.params["t"] = 0.7 if key == "M3" else 1.3
        m.pressure_range = [0.0, 10.0]
        m.loading_range = [0.0, float(m.loading(10.0))]
        world[key] = pygaps.ModelIsotherm(model=m, material=pygaps.Material("m-model"), adsorbate=gas, temperature=298.0,
                                          pressure_mode="absolute", pressure_unit="bar", loading_basis="molar",
                                          loading_unit="mmol", material_basis="mass", material_unit="g", temperature_unit="K")
    return world


def _collect_module_state():
    """Every module-level dict / list / set of the library (caches, tables): (module, name) -> import-time deep copy.
    The registries are handled separately (their elements are live objects)."""
    import copy
    import importlib
    import pkgutil
    out = {}
    for m in pkgutil.walk_packages(pygaps.__path__, "pygaps."):
        if m.name.startswith(("pygaps.cli", "pygaps.graphing")):
            continue
        try:
            mod = importlib.import_module(m.name)
        except Exception:  # noqa - optional dependencies
            continue
        for name, val in vars(mod).items():
            if name.startswith("__") or name in ("ADSORBATE_LIST", "MATERIAL_LIST"):
                continue
            if isinstance(val, (dict, list, set)) and not any(val is o for (_, _), (o, _) in out.items()):
                try:
                    out[(m.name, name)] = (val, copy.deepcopy(val))
                except Exception:  # noqa - not copyable: leave alone
                    pass
            # containers declared in a class body are shared by all instances of the process: module-level state too
            if isinstance(val, type) and str(getattr(val, "__module__", "")).startswith("pygaps"):
                for an, av in list(vars(val).items()):
                    if an.startswith("__") or not isinstance(av, (dict, list, set)):
                        continue
                    if any(av is o for (_, _), (o, _) in out.items()):
                        continue
                    try:
                        out[(m.name, f"{name}.{an}")] = (av, copy.deepcopy(av))
                    except Exception:  # noqa
                        pass
    return out


_MODULE_STATE = _collect_module_state()


def _set_content(obj, content):
    if isinstance(obj, dict):
        obj.clear()
        obj.update(content)
    elif isinstance(obj, list):
        obj[:] = content
    else:
        obj.clear()
        obj.update(content)


_NP_ERR_DEFAULT = dict(np.geterr())  # process-global state of a third party the library may touch


def reset_module_state():
    import copy
    for (obj, snap) in _MODULE_STATE.values():
        _set_content(obj, copy.deepcopy(snap))
    np.seterr(**_NP_ERR_DEFAULT)


def clear_caches():
    """Make the 'fresh' run really fresh: every module-level container of the library (loaded kernels, standard
    isotherms, series coefficients, tables) is put back to its import-time content and the registry is filled with
    brand-new Adsorbate objects (no CoolProp state or anything else cached on them). Returns what the history world
    needs to get its own process-global state back."""
    import copy
    from pygaps.core.adsorbate import Adsorbate
    saved = {key: (dict(obj) if isinstance(obj, dict) else list(obj) if isinstance(obj, list) else set(obj))
             for key, (obj, _) in _MODULE_STATE.items()}
    saved["@numpy_err"] = dict(np.geterr())
    saved["@extra_ads"] = [a for a in ADSORBATE_LIST if not any(a is b for b in K._ADS_SNAPSHOT)]
    reset_module_state()
    ADSORBATE_LIST[:] = [Adsorbate(**copy.deepcopy(a.to_dict())) for a in K._ADS_SNAPSHOT]
    return saved


def restore_registry(saved):
    """Give the history world its own process-global state back (registry objects and module-level containers)."""
    ADSORBATE_LIST[:] = list(K._ADS_SNAPSHOT) + saved.pop("@extra_ads")
    np.seterr(**saved.pop("@numpy_err"))
    for key, content in saved.items():
        _set_content(_MODULE_STATE[key][0], content)


def fingerprint(world):
    out = []
    for key in sorted(world):
        iso = world[key]
        item = [key, iso.iso_id, json.dumps(iso.units, sort_keys=True), repr(iso._temperature),
                json.dumps(iso.properties, sort_keys=True, default=str),
                json.dumps(iso.adsorbate.to_dict(), sort_keys=True, default=str),
                json.dumps(iso.material.to_dict(), sort_keys=True, default=str)]
        if isinstance(iso, pygaps.PointIsotherm):
            item.append(K.frame_fingerprint(iso.data_raw))
        else:
            item.append(json.dumps(iso.model.to_dict(), sort_keys=True, default=str))
        out.append(tuple(item))
    out.append(("registries", tuple(a.name for a in ADSORBATE_LIST), tuple(m.name for m in MATERIAL_LIST)))
    return tuple(out)


def _diff_fp(a, b):
    for x, y in zip(a, b):
        if x != y:
            for i, (u, v) in enumerate(zip(x, y)):
                if u != v:
                    names = ["key", "iso_id", "units", "temperature", "metadata", "adsorbate", "material", "data/model"]
                    return f"{x[0]}: {names[i] if i < len(names) else i} changed: {str(u)[:200]} -> {str(v)[:200]}"
    return "?"


# ---- operations -----------------------------------------------------------------------------------------------------------
def _req_kwargs(req):
    kw = {}
    if req.get("prep"):
        kw["pressure_mode"], kw["pressure_unit"] = req["prep"]
    if req.get("lrep"):
        kw["loading_basis"], kw["loading_unit"] = req["lrep"]
    if req.get("mrep"):
        kw["loading_material_basis"], kw["loading_material_unit"] = req["mrep"]
    return kw


def _query(iso, op):
    """A query pressure / loading in the isotherm's stored units, placed inside / below / above the branch range."""
    vals = np.sort(np.asarray(iso.pressure(branch=op["branch"]) if op["op"] != "pressure_at" else
                              iso.loading(branch=op["branch"]), dtype=float))
    lo, hi = vals[0], vals[-1]
    if op["where"] == "inside":
        return lo + (hi - lo) * (0.02 + 0.96 * op["q"])
    if op["where"] == "below":
        return lo * (0.2 + 0.6 * op["q"])
    return hi * (1.05 + op["q"])


def run_op(world, op):
    """Execute one read-only operation; returns a JSON-able structure."""
    name = op["op"]
    iso = world[op.get("iso", "A")]
    kw = {k: (tuple(v) if isinstance(v, list) and k.endswith("limits") else copy.deepcopy(v)) for k, v in (op.get("kw") or {}).items()}
    for k, v in kw.items():
        if isinstance(v, dict) and "@frac" in v:
            isos = [world["A"], world["B"]] if name == "isosteric_enthalpy" else [iso]
            top = min(float(np.max(i.loading(branch="ads"))) for i in isos)
            kw[k] = [f * top for f in v["@frac"]]
    fill = op.get("fill")
    fill = tuple(fill) if isinstance(fill, list) else fill
    if name == "pressure":
        return iso.pressure(branch=op["branch"], limits=op.get("limits"), **{k: v for k, v in _req_kwargs(op["req"]).items() if k.startswith("pressure")})
    if name == "loading":
        return iso.loading(branch=op["branch"], limits=op.get("limits"), **{k.replace("loading_material", "material"): v for k, v in _req_kwargs(op["req"]).items() if k.startswith("loading")})
    if name == "other_data":
        return iso.other_data("enthalpy", branch=op["branch"])
    if name == "loading_at":
        return iso.loading_at(_query(iso, op), branch=op["branch"], interpolation_type=op["kind"], interp_fill=fill)
    if name == "pressure_at":
        return iso.pressure_at(_query(iso, op), branch=op["branch"], interpolation_type=op["kind"], interp_fill=fill)
    if name == "spreading_pressure_at":
        return iso.spreading_pressure_at(_query(iso, op), branch=op["branch"], interp_fill=fill)
    if name == "loading_at_units":
        q = _query(iso, dict(op, op="loading_at"))
        return iso.loading_at(q, branch=op["branch"], **{k.replace("loading_material", "material"): v
                                                         for k, v in _req_kwargs(op["req"]).items() if k.startswith("loading")})
    if name == "to_json":
        return iso.to_json()
    if name == "to_csv":
        return iso.to_csv()
    if name == "to_dict":
        return iso.to_dict()
    if name == "str":
        return str(iso)
    if name == "area_BET":
        return pgc.area_BET(iso, branch=op["branch"], **kw)
    if name == "area_langmuir":
        return pgc.area_langmuir(iso, branch=op["branch"], p_limits=(0.05, 0.6))
    if name == "t_plot":
        return pgc.t_plot(iso, thickness_model=op["thickness"], branch=op["branch"], **{"t_limits": (0.3, 0.7), **kw})
    if name == "alpha_s":
        return pgc.alpha_s(iso, reference_isotherm=world["B" if op.get("iso", "A") == "A" else "A"], branch=op["branch"],
                           t_limits=(0.3, 1.2))
    if name == "dr_plot":
        return pgc.dr_plot(iso, branch=op["branch"], **{"p_limits": (0.0, 0.1), **kw})
    if name == "da_plot":
        return pgc.da_plot(iso, exp=op.get("exp"), branch=op["branch"], p_limits=(0.0, 0.1))
    if name == "psd_mesoporous":
        return pgc.psd_mesoporous(iso, psd_model=op["model"], pore_geometry="cylinder", branch=op["branch"],
                                  thickness_model=op["thickness"], **kw)
    if name == "psd_microporous":
        return pgc.psd_microporous(iso, psd_model=op.get("model", "HK"), pore_geometry=op.get("geometry", "slit"),
                                   branch=op["branch"], p_limits=(0.0, 0.02 if op.get("geometry", "slit") != "slit" else 0.1), **kw)
    if name == "psd_dft":
        return pgc.psd_dft(iso, branch=op["branch"], bspline_order=op.get("order", 2), **kw)
    if name == "initial_henry_slope":
        return pgc.initial_henry_slope(iso, branch=op["branch"], **kw)
    if name == "initial_henry_virial":
        return pgc.initial_henry_virial(iso)
    if name == "initial_enthalpy_point":
        return pgc.initial_enthalpy_point(iso, "enthalpy", branch=op["branch"])
    if name == "isosteric_enthalpy":
        order = [world["A"], world["B"]] if op.get("order", 0) == 0 else [world["B"], world["A"]]
        return pgc.isosteric_enthalpy(order, branch=op["branch"], **kw)
    if name == "whittaker":
        return pgc.enthalpy_sorption_whittaker(iso, model=op["model"], **kw)
    if name == "model_iso":
        m = pgm.model_iso(iso, branch=op["branch"], model=op["model"], **kw)
        return {"params": m.model.params, "rmse": m.model.rmse, "id": m.iso_id}
    if name == "model_overrange":
        # beyond the capacity of the Toth model: the normal outcome is nan (not an error)
        m3 = world["M3"]
        return [m3.pressure_at(m3.model.params["n_m"] * (1.05 + op["q"])), m3.loading_at(op["p1"])]
    if name == "iast_point":
        return iast_point([world["M1"], world["M2"]], [op["p1"], op["p2"]])
    if name == "iast_point_mixed":
        # model isotherm + the point isotherm (needs absolute pressure; otherwise refused - also an outcome)
        return iast_point([world["M1"], world["A"]], [op["p1"], op["p2"]])
    if name == "adsorbate_props":
        a = iso.adsorbate
        T = 64.0 + 60.0 * op["q"]
        return [a.saturation_pressure(T), a.liquid_density(T), a.gas_molar_density(T), a.surface_tension(T),
                a.enthalpy_vaporisation(T), a.molar_mass()]
    if name == "model_spreading":
        # two isotherms of the SAME model class (other parameters) asked at pressures from a small common set
        return [world[op["which"]].spreading_pressure_at(op["p"]), world[op["which"]].loading_at(op["p"])]
    if name == "model_accessors":
        m = world["M1"]
        return [m.loading_at(op["p1"], pressure_unit="kPa", pressure_mode="absolute"), m.pressure_at(op["q"] * 0.5),
                m.spreading_pressure_at(op["p2"]), m.pressure(points=5), m.loading(points=5)]
    raise HarnessError(f"unknown op {name}")


def normalise(x):
    if isinstance(x, dict):
        return {str(k): normalise(v) for k, v in sorted(x.items(), key=lambda kv: str(kv[0]))}
    if isinstance(x, (list, tuple)):
        return [normalise(v) for v in x]
    if isinstance(x, np.ndarray):
        return [normalise(v) for v in x.tolist()]
    if isinstance(x, (pd.Series,)):
        return {"index": [str(i) for i in x.index], "values": normalise(x.to_numpy())}
    if isinstance(x, pd.DataFrame):
        return {c: normalise(x[c].to_numpy()) for c in x.columns}
    if isinstance(x, (np.floating, float)):
        return float(x)
    if isinstance(x, (np.integer, int)) and not isinstance(x, bool):
        return int(x)
    if isinstance(x, (str, bool)) or x is None:
        return x
    if callable(x):
        return "<callable>"
    if hasattr(x, "iso_id"):
        return {"iso_id": x.iso_id}
    return repr(type(x))


def same(a, b, rel=1e-10):
    if isinstance(a, dict) and isinstance(b, dict):
        return a.keys() == b.keys() and all(same(a[k], b[k], rel) for k in a)
    if isinstance(a, list) and isinstance(b, list):
        return len(a) == len(b) and all(same(x, y, rel) for x, y in zip(a, b))
    if isinstance(a, float) and isinstance(b, (float, int)) or isinstance(b, float) and isinstance(a, (float, int)):
        a, b = float(a), float(b)
        if math.isnan(a) and math.isnan(b):
            return True
        return a == b or abs(a - b) <= rel * max(abs(a), abs(b))
    return a == b


def outcome(world, op):
    try:
        return ("ok", normalise(run_op(world, op)))
    except HarnessError:
        raise
    except Exception as e:  # noqa - the kind of error IS the outcome that must not depend on history
        return ("raise", type(e).__name__)


# ---- strategies ------------------------------------------------------------------------------------------------------------
_BR = ["ads", "des"]
_KINDS = ["linear", "linear", "nearest", "slinear", "quadratic"]
_FILLS = [None, None, None, 0.0, 1.5, [0.0, 2.5], "extrapolate"]
_CUSTOM_ADSORBENT = {"molecular_diameter": 0.31, "polarizability": 1.2e-3, "magnetic_susceptibility": 1.1e-7, "surface_density": 2.9e19}
_CUSTOM_ADSORBATE = {"molecular_diameter": 0.32, "polarizability": 1.5e-3, "magnetic_susceptibility": 3.1e-8, "surface_density": 6.5e18,
                     "liquid_density": 0.81, "adsorbate_molar_mass": 28.0}
_BAD_GUESS = {  # starting guesses outside the parameter bounds: the fit is refused inside the least-squares routine
    "Langmuir": {"K": -1.0, "n_m": 1.0}, "Henry": {"K": -1.0}, "Toth": {"K": -1.0, "n_m": 1.0, "t": 1.0}}
_KW = {  # documented keyword arguments that callers usually leave at their defaults (values are JSON-able)
    "area_BET": [{"p_limits": [0.05, 0.3]}, {"p_limits": [0.1, 0.5]}],
    "dr_plot": [{"p_limits": [0.0, 0.05]}, {"p_limits": [1e-3, 0.2]}],
    "t_plot": [{"t_limits": [0.35, 0.6]}, {"t_limits": [0.4, 0.9]}],
    "psd_mesoporous": [{"kelvin_model": "Kelvin-KJS"}, {"meniscus_geometry": "hemispherical"}, {"meniscus_geometry": "cylindrical"},
                       {"p_limits": [0.2, 0.9]}, {"p_limits": [0.3, 0.95], "kelvin_model": "Kelvin-KJS"}],
    "psd_microporous": [{"material_model": "AlSiOxideIon"}, {"material_model": "AlPhOxideIon"}, {"material_model": _CUSTOM_ADSORBENT},
                        {"adsorbate_model": _CUSTOM_ADSORBATE}, {"material_model": _CUSTOM_ADSORBENT, "adsorbate_model": _CUSTOM_ADSORBATE}],
    "psd_dft": [{"kernel_units": {"loading_unit": "cm3(STP)"}}, {"kernel_units": {"material_unit": "kg"}}, {"p_limits": [0.0, 0.5]},
                {"kernel_units": {"loading_basis": "molar", "loading_unit": "mol", "material_basis": "mass", "material_unit": "kg",
                                  "pressure_mode": "relative", "pressure_unit": None}}],
    "initial_henry_slope": [{"max_adjrms": 0.05}, {"p_limits": [0.0, 0.2]}, {"l_limits": [0.0, 2.0]}],
    # "@frac": fractions of the largest adsorption loading of the isotherms involved (resolved in run_op)
    "isosteric_enthalpy": [{"loading_points": {"@frac": [0.3, 0.45, 0.6]}}, {"loading_points": {"@frac": [0.5, 0.35]}}],
    "whittaker": [{"loading": {"@frac": [0.2, 0.4, 0.6]}}, {"loading": {"@frac": [0.7, 0.15]}}, {"loading": {"@frac": [0.3, 5.0]}}],
}


def _op(focus=None):
    iso = st.sampled_from(["A", "A", "B", "U", "U2"])
    br = st.sampled_from(_BR)
    q = st.floats(0, 1)
    req = st.builds(lambda p, l, m: {"prep": p, "lrep": l, "mrep": m}, st.one_of(st.none(), S.p_rep()),
                    st.one_of(st.none(), S.l_rep(False)), st.one_of(st.none(), st.none(), S.m_rep()))
    at = lambda name: st.builds(  # noqa
        lambda i, b, k, f, w, qq: {"op": name, "iso": i, "branch": b, "kind": k, "fill": f, "where": w, "q": qq},
        iso, br, st.sampled_from(_KINDS), st.sampled_from(_FILLS), st.sampled_from(["inside", "inside", "below", "above"]), q)
    simple = lambda name: st.builds(lambda i, b: {"op": name, "iso": i, "branch": b}, iso, br)  # noqa

    def with_kw(base, variants):
        """Non-default keyword arguments (half of the draws keep the defaults): a call with one variant must not change what a
        later call with another (or none) returns."""
        return st.builds(lambda o, k: dict(o, kw=k) if k else o, base, st.sampled_from([None] * len(variants) + variants))

    cat = {
        "pressure": st.builds(lambda i, b, r: {"op": "pressure", "iso": i, "branch": b, "req": r}, iso,
                              st.sampled_from([None, "ads", "des", "all"]), req),
        "loading": st.builds(lambda i, b, r: {"op": "loading", "iso": i, "branch": b, "req": r}, iso,
                             st.sampled_from([None, "ads", "des", "all"]), req),
        "other_data": st.builds(lambda i, b: {"op": "other_data", "iso": i, "branch": b}, iso, st.sampled_from([None, "ads", "des"])),
        "loading_at": at("loading_at"), "pressure_at": at("pressure_at"), "spreading_pressure_at": at("spreading_pressure_at"),
        "loading_at_units": st.builds(lambda i, b, r, qq: {"op": "loading_at_units", "iso": i, "branch": b, "req": r, "q": qq,
                                                           "where": "inside"}, iso, br, req, q),
        "to_json": st.builds(lambda i: {"op": "to_json", "iso": i}, st.sampled_from(["A", "B", "M1"])),
        "to_csv": st.builds(lambda i: {"op": "to_csv", "iso": i}, st.sampled_from(["A", "B", "M1"])),
        "to_dict": st.builds(lambda i: {"op": "to_dict", "iso": i}, st.sampled_from(["A", "B", "M1"])),
        "str": st.builds(lambda i: {"op": "str", "iso": i}, st.sampled_from(["A", "M1"])),
        "area_BET": with_kw(simple("area_BET"), _KW["area_BET"]), "area_langmuir": simple("area_langmuir"),
        "t_plot": with_kw(st.builds(lambda i, b, t: {"op": "t_plot", "iso": i, "branch": b, "thickness": t}, iso, br,
                            st.sampled_from(["Harkins/Jura", "Halsey", "SiO2 Jaroniec/Kruk/Olivier", "carbon black Kruk/Jaroniec/Gadkaree",
                                             "SiO2 Jaroniec/Kruk/Olivier", "carbon black Kruk/Jaroniec/Gadkaree"])), _KW["t_plot"]),
        "alpha_s": simple("alpha_s"), "dr_plot": with_kw(simple("dr_plot"), _KW["dr_plot"]),
        "da_plot": st.builds(lambda i, b, e: {"op": "da_plot", "iso": i, "branch": b, "exp": e}, iso, br, st.sampled_from([None, 2.0, 1.5])),
        "psd_mesoporous": with_kw(st.builds(lambda i, b, m, t: {"op": "psd_mesoporous", "iso": i, "branch": b, "model": m, "thickness": t},
                                    iso, br, st.sampled_from(["pygaps-DH", "BJH", "DH"]),
                                    st.sampled_from(["Harkins/Jura", "Halsey", "SiO2 Jaroniec/Kruk/Olivier",
                                                     "carbon black Kruk/Jaroniec/Gadkaree", "SiO2 Jaroniec/Kruk/Olivier",
                                                     "carbon black Kruk/Jaroniec/Gadkaree"])), _KW["psd_mesoporous"]),
        "psd_microporous": with_kw(st.builds(lambda i, b, m, g: {"op": "psd_microporous", "iso": i, "branch": b, "model": m, "geometry": g},
                                     iso, br, st.sampled_from(["HK", "HK", "HK-CY", "RY", "RY-CY"]),
                                     st.sampled_from(["slit", "slit", "slit", "cylinder", "sphere"])), _KW["psd_microporous"]),
        "psd_micro_curved": with_kw(st.builds(lambda i, m, g: {"op": "psd_microporous", "iso": i, "branch": "ads", "model": m, "geometry": g},
                                      iso, st.sampled_from(["HK", "HK-CY", "RY", "RY-CY"]), st.sampled_from(["cylinder", "sphere"])), _KW["psd_microporous"]),
        "psd_dft": with_kw(st.builds(lambda b, o: {"op": "psd_dft", "iso": "A", "branch": b, "order": o}, br, st.sampled_from([0, 2])), _KW["psd_dft"]),
        "initial_henry_slope": with_kw(simple("initial_henry_slope"), _KW["initial_henry_slope"]),
        "initial_henry_virial": st.builds(lambda i: {"op": "initial_henry_virial", "iso": i}, iso),
        "initial_enthalpy_point": simple("initial_enthalpy_point"),
        "isosteric_enthalpy": with_kw(st.builds(lambda b, o: {"op": "isosteric_enthalpy", "branch": b, "order": o}, st.just("ads"), st.integers(0, 1)), _KW["isosteric_enthalpy"]),
        "whittaker": with_kw(st.builds(lambda i, m: {"op": "whittaker", "iso": i, "model": m}, iso, st.sampled_from(["Langmuir", "Toth"])), _KW["whittaker"]),
        "model_iso": st.builds(lambda i, b, m, bad: dict({"op": "model_iso", "iso": i, "branch": b, "model": m},
                                                        **({"kw": {"param_guess": _BAD_GUESS[m]}} if bad and isinstance(m, str) and m in _BAD_GUESS else {})),
                               # 'guess': the library tries its list of candidate models and keeps the best
                               iso, br, st.sampled_from(["Langmuir", "Henry", "DSLangmuir", "Toth"] * 2 + ["guess", ["Henry", "Langmuir"]]),
                               st.sampled_from([False, False, True])),
        "model_overrange": st.builds(lambda a, qq: {"op": "model_overrange", "p1": round(a, 4), "q": round(qq, 3)},
                                     st.floats(0.05, 3), q),
        "iast_point": st.builds(lambda a, b: {"op": "iast_point", "p1": round(a, 4), "p2": round(b, 4)}, st.floats(0.05, 3), st.floats(0.05, 3)),
        "iast_point_mixed": st.builds(lambda a, b: {"op": "iast_point_mixed", "p1": round(a, 4), "p2": round(b, 4)},
                                      st.floats(0.05, 1), st.floats(0.01, 0.5)),
        "adsorbate_props": st.builds(lambda i, qq: {"op": "adsorbate_props", "iso": i, "q": qq}, iso, q),
        "model_spreading": st.builds(lambda w, p: {"op": "model_spreading", "which": w, "p": p},
                                     st.sampled_from(["M3", "M4"]), st.sampled_from([0.5, 1.0, 2.0])),
        "model_accessors": st.builds(lambda a, b, qq: {"op": "model_accessors", "p1": round(a, 4), "p2": round(b, 4), "q": qq},
                                     st.floats(0.05, 3), st.floats(0.05, 3), q),
    }
    if focus == "interp":
        weights = ["loading_at"] * 4 + ["pressure_at"] * 3 + ["spreading_pressure_at"] * 3 + ["loading_at_units", "pressure", "to_json", "model_spreading", "model_spreading"]
        return st.sampled_from(weights).flatmap(lambda k: cat[k])
    if focus == "caches":
        weights = (["t_plot"] * 6 + ["psd_mesoporous"] * 4 + ["adsorbate_props"] * 3 + ["psd_micro_curved"] * 4 + ["psd_dft"] * 4 + ["model_iso"] * 2 + ["model_overrange"] * 2 + ["model_spreading"] * 3 + ["area_BET", "whittaker",
                   "isosteric_enthalpy", "alpha_s", "loading", "pressure", "iast_point_mixed", "model_accessors"])
        return st.sampled_from(weights).flatmap(lambda k: cat[k])
    weights = (["loading_at"] * 5 + ["pressure_at"] * 4 + ["spreading_pressure_at"] * 5 + ["pressure", "loading"] * 2 +
               ["loading_at_units"] * 2 + [k for k in cat if k not in ("loading_at", "pressure_at", "spreading_pressure_at",
                                                                        "psd_micro_curved")])
    return st.sampled_from(weights).flatmap(lambda k: cat[k])


def strat_history(focus=None, min_ops=2, max_ops=10):
    shape = st.builds(lambda nm, C, step, p0: {"nm": round(nm, 4), "C": round(C, 2), "step": round(step, 3), "p0": round(p0, 3)},
                      st.floats(0.5, 8.0), st.floats(20.0, 400.0), st.floats(0.0, 6.0), st.floats(0.35, 0.7))
    return st.builds(lambda u, mat, sh, bo, ops: {"units": u, "material": mat, "shape": sh, "b_other_units": bo, "ops": ops},
                     S.units(), S.material(), shape, st.sampled_from([False, False, True]),
                     st.lists(_op(focus), min_size=min_ops, max_size=max_ops))


def _argclass(op):
    return [op.get("op"), op.get("iso"), op.get("branch"), op.get("kind"), json.dumps(op.get("fill")), op.get("where"),
            json.dumps(op.get("req")), op.get("model"), op.get("thickness"), json.dumps(op.get("kw"), sort_keys=True)]


def check_history(desc, ctx):
    reset_module_state()
    world = build_world(desc)
    fp0 = fingerprint(world)
    fresh_fp = None
    seen = {}
    cache_key_changes = 0
    analysis_after_interp = False
    interp_seen = False
    for n, op in enumerate(desc["ops"]):
        # (a) the same operation issued first on an identical fresh world
        saved = clear_caches()
        fresh = build_world(desc, reset=False)
        if fresh_fp is None:
            fresh_fp = fingerprint(fresh)
            if fresh_fp != fp0:
                raise HarnessError("world construction is not deterministic: " + _diff_fp(fp0, fresh_fp))
        exp = outcome(fresh, op)
        fresh_after = fingerprint(fresh)
        restore_registry(saved)
        before = fingerprint(world)
        got = outcome(world, op)
        after = fingerprint(world)
        where = f"step {n} {json.dumps(op)}"
        if after != before:
            raise Violation(f"{where}: the call changed an object it was given: {_diff_fp(before, after)}",
                            tag=f"mutated:{op['op']}")
        if fresh_after != fresh_fp:
            raise Violation(f"{where}: (on a fresh object) the call changed an object it was given: "
                            f"{_diff_fp(fresh_fp, fresh_after)}", tag=f"mutated:{op['op']}")
        if got[0] != exp[0] or not same(got[1], exp[1]):
            prev = [json.dumps(o) for o in desc["ops"][:n]]
            raise Violation(f"{where}: outcome after the history {prev} is {_short(got)} but the same call issued first on a "
                            f"fresh identical isotherm gives {_short(exp)}", tag=f"history_dependent:{op['op']}")
        ctx.label(op["op"], "raises" if got[0] == "raise" else "returns")
        if op["op"] in ("loading_at", "pressure_at", "spreading_pressure_at", "loading_at_units"):
            key = (op.get("iso"), "l" if op["op"] != "pressure_at" else "p")
            sig = (op.get("branch"), op.get("kind"), json.dumps(op.get("fill")))
            if key in seen and seen[key] != sig:
                cache_key_changes += 1
            seen[key] = sig
            interp_seen = True
        elif interp_seen and op["op"] not in ("to_json", "to_csv", "to_dict", "str", "pressure", "loading", "other_data"):
            analysis_after_interp = True
    shared_state_ops = [o for o in desc["ops"] if o["op"] in ("adsorbate_props", "psd_mesoporous", "whittaker", "isosteric_enthalpy",
                                                               "area_BET", "t_plot", "alpha_s", "psd_dft", "psd_microporous")]
    shared_keys = {(o["op"], o.get("iso"), o.get("thickness"), o.get("model"), o.get("geometry"), json.dumps(o.get("kw"), sort_keys=True))
                   for o in shared_state_ops}
    if cache_key_changes or analysis_after_interp or len(shared_keys) >= 2:
        ctx.nt([desc["units"], [_argclass(o) for o in desc["ops"]]], desc)


def _short(o):
    s = json.dumps(o, default=str)
    return s if len(s) < 300 else s[:300] + "..."


CHECKS = [
    Check("histories", check_history, strategy=strat_history, budget={"quick": 400, "thorough": 8000}, shrink_quick=False,
          rule="2-10 read-only operations from the whole catalogue; each compared with the same call on a fresh world; "
               "fingerprints before/after"),
    Check("interpolation_histories", check_history, strategy=lambda: strat_history("interp", 3, 8),
          budget={"quick": 1200, "thorough": 20000}, shrink_quick=False,
          rule="3-8 interpolating calls (branch x kind x fill x inside/below/above) on two isotherms: every change of a cache key"),
    Check("cache_histories", check_history, strategy=lambda: strat_history("caches", 3, 6),
          budget={"quick": 320, "thorough": 5000}, shrink_quick=False,
          rule="2-5 analyses that share module-level caches (standard isotherms, kernels) and the adsorbate's thermodynamic state"),
]
