"""Shared hypothesis strategies producing JSON-able descriptors (DESIGN section 3). All constructive."""
from hypothesis import strategies as st

from pbt import case as K
from pbt import ref_units as ru

# ---- unit configurations ------------------------------------------------------------------------------------------------
_P_ABS = [r for r in ru.P_REPS if r[0] == "absolute"]
_P_REL = [r for r in ru.P_REPS if r[0] != "absolute"]
_L_DIM = [r for r in ru.L_REPS if r[1] is not None]
_L_FRAC = [r for r in ru.L_REPS if r[1] is None]
_M_MASS = [r for r in ru.M_REPS if r[0] == "mass"]
_M_OTHER = [r for r in ru.M_REPS if r[0] != "mass"]


def p_rep():
    # relative modes ~35 % of draws (they are where the code branches)
    return st.one_of(st.sampled_from(_P_ABS), st.sampled_from(_P_ABS), st.sampled_from(_P_REL))


def l_rep(allow_fraction=True):
    if not allow_fraction:
        return st.sampled_from(_L_DIM)
    return st.one_of(st.sampled_from(_L_DIM), st.sampled_from(_L_DIM), st.sampled_from(_L_FRAC))


def m_rep():
    return st.one_of(st.sampled_from(_M_MASS), st.sampled_from(_M_OTHER))


def t_unit():
    return st.sampled_from(["K", "°C"])


def units(allow_fraction=True):
    return st.builds(K.units_dict, p_rep(), l_rep(allow_fraction), m_rep(), t_unit())


# ---- adsorbate + temperature ---------------------------------------------------------------------------------------------
def ads_T():
    """{'adsorbate': registry name with backend, 'T_K': subcritical temperature in K}"""
    tab = K.backend_table()
    return st.tuples(st.integers(0, len(tab) - 1), st.floats(0, 1)).map(
        lambda t: {"adsorbate": tab[t[0]][0], "T_K": K.temperature_for(tab[t[0]], t[1])})


def material(rich=False):
    def make(k, d, mm, lit):
        if lit == "int":  # python integer literals for the physical properties (a quarter of the materials)
            d, mm = int(max(1, round(d))), int(round(mm))
        return {"name": f"m-{k}", "density": d, "molar_mass": mm}
    return st.builds(make, st.integers(0, 9), st.floats(0.05, 25.0), st.floats(10.0, 5000.0),
                     st.sampled_from(["float"] * 3 + ["int"]))


# ---- isotherm data --------------------------------------------------------------------------------------------------------
def _pos(lo=1e-3, hi=10.0):
    return st.floats(lo, hi, allow_nan=False, allow_infinity=False)


@st.composite
def iso_data(draw, min_points=1, max_points=12, desorption=True, grid=None, strict_loading=False):
    """Strictly increasing adsorption pressures (cumulative sums), optional strictly decreasing desorption leg;
    loadings non-decreasing on the adsorption leg. `grid` rounds values to that many decimals."""
    n_ads = draw(st.integers(min_points, max_points))
    scale = draw(st.sampled_from([1e-4, 1e-2, 1.0, 10.0]))
    incs = draw(st.lists(_pos(), min_size=n_ads, max_size=n_ads))
    p, acc = [], 0.0
    for i in incs:
        acc += i * scale
        p.append(acc)
    lincs = draw(st.lists(_pos() if strict_loading else st.one_of(_pos(), _pos(), st.just(0.0)), min_size=n_ads,
                          max_size=n_ads))
    l, acc = [], draw(_pos(0.01, 1.0))
    for i in lincs:
        acc += i
        l.append(acc)
    branch = [0] * n_ads
    if desorption and n_ads >= 2 and draw(st.booleans()):
        n_des = draw(st.integers(1, max(1, min(n_ads - 1, 6))))
        # fractions on a 1e-3 lattice: neighbouring desorption pressures must be distinct beyond rounding noise
        fr = sorted(draw(st.lists(st.integers(50, 950), min_size=n_des, max_size=n_des, unique=True)), reverse=True)
        fr = [f / 1000.0 for f in fr]
        pmax = p[-1]
        for f in fr:
            p.append(pmax * f)
            l.append(l[n_ads - 1] * (0.3 + 0.7 * f) + (0.0 if strict_loading else draw(_pos(0.001, 0.5))))
            branch.append(1)
    if grid is not None:
        p = [round(v, grid) for v in p]
        l = [round(v, grid) for v in l]
        # keep strict monotonicity after rounding
        for k in range(1, n_ads):
            if p[k] <= p[k - 1]:
                p[k] = round(p[k - 1] + 10 ** (-grid), grid)
    return {"pressure": p, "loading": l, "branch_true": branch}


_meta_values = st.one_of(st.text(alphabet="abcXYZ é-_", min_size=1, max_size=6), st.integers(-5, 5),
                         st.floats(-10, 10).map(lambda x: round(x, 3)), st.booleans(),
                         st.sampled_from(["", 0, 0.0, False]), st.sampled_from([[], [1, 2], ["a", "b"]]))  # "empty" values


@st.composite
def point_desc(draw, allow_fraction=True, min_points=1, max_points=12, desorption=True, extras=True, meta=True,
               handicap=0.0, grid=None, strict_loading=False, force_extras=False, row_labels=True, int_data=True):
    """A full point-isotherm descriptor for pbt.case.build_point."""
    u = draw(units(allow_fraction))
    at = draw(ads_T())
    mat = draw(material())
    data = draw(iso_data(min_points, max_points, desorption, grid, strict_loading))
    d = {
        "units": u, "adsorbate": at["adsorbate"], "T_K": at["T_K"],
        "T": at["T_K"] if u["temperature_unit"] == "K" else at["T_K"] - 273.15,
        "material": mat, "pressure": data["pressure"], "loading": data["loading"],
    }
    if int_data and draw(st.sampled_from([False] * 7 + [True])):
        # whole numbers handed over as python ints (the table then holds integer columns); ranks keep the shape of the data
        for key in ("pressure", "loading"):
            ranks = {v: i + 1 for i, v in enumerate(sorted(set(d[key])))}
            d[key] = [ranks[v] for v in d[key]]
        d["int_data"] = True
    n = len(data["pressure"])
    mode = draw(st.sampled_from(["guess", "explicit", "explicit"]))
    d["branch"] = "guess" if mode == "guess" else data["branch_true"]
    d["branch_true"] = data["branch_true"]
    if row_labels:
        # row labels of the table the isotherm is built from (kept by the library, never content): a quarter of the cases
        lab = draw(st.sampled_from([None] * 6 + ["shift", "perm", "gaps", "text"]))
        if lab:
            d["labels"] = [lab, draw(st.integers(0, 1000))]
    if extras and (force_extras or draw(st.booleans())):
        d["extra"] = {"enthalpy": draw(st.lists(st.floats(-50, 50).map(lambda x: round(x, 4)), min_size=n, max_size=n))}
        if draw(st.booleans()):
            # a text column, under a name that sorts after or before the numeric one
            tname = draw(st.sampled_from(["note", "note", "comment", "Batch"]))
            d["extra"][tname] = draw(st.lists(st.sampled_from(["a", "b", "c d"]), min_size=n, max_size=n))
    if meta:
        d["meta"] = draw(st.dictionaries(st.sampled_from(["user", "machine", "iso_type", "comment", "k1"]), _meta_values,
                                         max_size=3))
    kinds = ["supercritical", "no_density", "no_molar_mass", "no_backend", "user_constants", "user_constants"]
    n_none = max(1, round(len(kinds) * (1 - handicap) / handicap)) if handicap else 0
    kind = draw(st.sampled_from([None] * n_none + kinds)) if handicap else None
    if kind is not None:
        d["handicap"] = kind
        if kind == "no_backend":
            d["adsorbate"] = "verif-unknown-gas"
        elif kind == "user_constants":
            # no backend, but the constants supplied by the user (documented fallback): [p_sat Pa, M g/mol, liquid and
            # vapour molar density mol/cm3]
            d["adsorbate"] = "verif-user-gas"
            d["user_fluid"] = [draw(st.floats(1e3, 5e6)), draw(st.floats(2.0, 300.0)), draw(st.floats(1e-3, 0.08)),
                               draw(st.floats(1e-6, 5e-4))]
        elif kind == "supercritical":
            entry = next(e for e in K.backend_table() if e[0] == d["adsorbate"])
            d["T_K"] = entry[3] * 1.3
            d["T"] = d["T_K"] if u["temperature_unit"] == "K" else d["T_K"] - 273.15
        elif kind == "no_density":
            d["material"] = {k: v for k, v in mat.items() if k != "density"}
        else:
            d["material"] = {k: v for k, v in mat.items() if k != "molar_mass"}
    return d
