"""C19 - isosteric / Whittaker / initial-enthalpy methods recover the enthalpy built into consistent synthetic data."""
import functools
import math
import zlib

import numpy as np
from CoolProp.CoolProp import PropsSI
from hypothesis import strategies as st

import pygaps
from pygaps.characterisation.enth_sorp_whittaker import enthalpy_sorption_whittaker
from pygaps.characterisation.initial_enth import initial_enthalpy_point
from pygaps.characterisation.isosteric_enth import isosteric_enthalpy
from pygaps.core.material import Material
from pygaps.core.modelisotherm import ModelIsotherm
from pygaps.modelling import get_isotherm_model
from pygaps.utilities.exceptions import CalculationError

from pbt import case as K
from pbt import ref_units as ru
from pbt.core import Check, HarnessError, Inconclusive, Violation

LEVEL = "exploration"
RULE = (
    "Isosteric part: hypothesis-drawn physical adsorption systems theta = f(K(T) p) with f in {Langmuir, Toth, "
    "dual-site Langmuir (both sites the same enthalpy)}, K(T) = K_300 exp(dH/R (1/T - 1/300 K)) [1/Pa], dH in [5, 60] "
    "kJ/mol, capacity in mmol/g; 2-5 distinct temperatures (>= 1 K apart, any order, clustered or spread) in [200, 400] "
    "K; the SAME system is then expressed in one common unit configuration drawn from three classes: 'plain' (absolute "
    "pressure in any of the 8 units; molar / mass / fraction / percent loading; any of the 19 material "
    "representations; K or degC) - all factors temperature independent; 'relative' (relative or relative% pressure, "
    "p/p_sat(T_j)); 'tdep' (loading as gas or liquid volume, or fraction/percent per volume of material - the factor "
    "depends on T_j through the saturated densities). Each isotherm is a ModelIsotherm built from a model instance "
    "with the native-unit parameters (check iso_model) or a PointIsotherm of 25-1500 geometrically spaced exact "
    "points (check iso_point); isotherms cover individually drawn, overlapping coverage windows; loading points are "
    "drawn inside the common range (or left to the default grid). Whittaker part: Langmuir / Toth parameters with "
    "K p_sat log-uniform in [0.05, 1e4], t in [0.25, 1.6], all 81 backend adsorbates at a temperature inside (Tt, Tc), "
    "loadings from 1e-7 n_m to 1.3 n_m (so below-triple, regular, above-p_sat and above-capacity loadings all occur), "
    "as ModelIsotherm in Pa (any loading / material representation, K or degC) and as PointIsotherm in any pressure "
    "representation fitted by the library. Initial-enthalpy part: point isotherms with arbitrary (also interleaved) "
    "branch flags and an enthalpy column. Non-trivial: every case that reaches the comparison; distinct by (model, "
    "class, representation, number of temperatures, rounded dH) resp. (model, adsorbate, classes of loadings hit)."
)
ASSUMPTIONS = [
    "dH is the positive isosteric heat: K grows on cooling, K(T) = K_300 exp(dH/R (1/T - 1/300)); the analysis is "
    "expected to return +dH (the convention pinned by the existing test, which expects +29 kJ/mol)",
    "R = k_B N_A = 8.31446261815324 J/mol/K (SI 2019 exact)",
    "model isotherms: |lib - dH| <= 1e-8 dH + (R/1000) (sum|x_j - xbar| / Sxx) 1e-11, x = 1/T: the second term is "
    "the propagation of a 1e-11 relative rounding error of each pressure (dual-site quadratic cancellation, Toth "
    "1 - theta^t) through the least-squares slope",
    "point isotherms: (i) lib == harness least squares on independently (numpy.interp) linearly interpolated "
    "pressures with the same tolerance; (ii) |lib - dH| <= (R/1000) sum|x_j - xbar| ln(p_hi/p_lo)_j / Sxx, the "
    "rigorous bound for any monotone interpolant (p_lo, p_hi = the data points bracketing the loading in isotherm j)",
    "physical reading of 'whatever (common) units': the same physical system is re-expressed; for temperature "
    "dependent representations (relative pressure, volume loadings) the expected value is still dH; a loading point "
    "given in the common representation denotes the amount it stands for at the first isotherm's temperature",
    "Whittaker: reported / supplied parameters are in 1/Pa (documented: 'units must be in Pascal'); closed form "
    "RT ln(p_sat K (theta^t/(1-theta^t))^((t-1)/t)) + dH_vap(max(p, p_triple)) + RT, included iff 0 <= p(n) <= "
    "min(p_sat, p_c); dH_vap, p_sat, p_c, p_triple from CoolProp PropsSI (high level); comparison rel 1e-8 of "
    "max(|lambda|, dH_vap, RT); n = 0 is never generated (property silent); cases with a loading whose pressure is "
    "within 1e-9 of a threshold, or with a loading above capacity for a Toth exponent with 1/t an even integer (the "
    "inverse formula then yields a spurious positive pressure), are not judged",
    "Whittaker point path: when the fitted family contains the generating function, the reported parameters must "
    "reproduce the exact data with pressures in Pa (max relative deviation 1e-4); a fit that reproduces them neither "
    "in Pa nor in the isotherm's own representation (poor optimum) and a library-reported fit failure "
    "(CalculationError) are inconclusive",
]

R_GAS = 1.380649e-23 * 6.02214076e23
T_REF = 300.0
T_LO, T_HI = 200.0, 400.0
CANON_L, CANON_M = ("molar", "mmol"), ("mass", "g")


def worker_init():
    K.reset_registries()


# ---------------------------------------------------------------------------------------------------------------------
# reference generators: theta = f(x), x = K p (own formulas; inverse in the cancellation-free form)
def f_fwd(model, prm, x):
    x = np.asarray(x, dtype=float)
    if model == "Langmuir":
        return x / (1.0 + x)
    if model == "Toth":
        t = prm["t"]
        return x / (1.0 + x ** t) ** (1.0 / t)
    if model == "DSLangmuir":
        f, r = prm["frac"], prm["ratio"]
        x2 = x / r
        return f * x / (1.0 + x) + (1.0 - f) * x2 / (1.0 + x2)
    raise HarnessError(model)


def f_inv(model, prm, theta):
    theta = np.asarray(theta, dtype=float)
    if model == "Langmuir":
        return theta / (1.0 - theta)
    if model == "Toth":
        t = prm["t"]
        return theta / (1.0 - theta ** t) ** (1.0 / t)
    if model == "DSLangmuir":
        f, r = prm["frac"], prm["ratio"]
        a = (1.0 - theta) / r
        b = f + (1.0 - f) / r - theta * (1.0 + 1.0 / r)
        d = np.sqrt(b * b + 4.0 * a * theta)
        return np.where(b >= 0, 2.0 * theta / (b + d), (d - b) / (2.0 * a))
    raise HarnessError(model)


def k_pa(desc, T):
    return desc["K300"] * math.exp(desc["dH"] * 1000.0 / R_GAS * (1.0 / T - 1.0 / T_REF))


def lib_params(model, prm, K_nat, nm_nat):
    if model == "Langmuir":
        return {"K": K_nat, "n_m": nm_nat}
    if model == "Toth":
        return {"K": K_nat, "n_m": nm_nat, "t": prm["t"]}
    return {"n_m1": prm["frac"] * nm_nat, "K1": K_nat, "n_m2": (1.0 - prm["frac"]) * nm_nat, "K2": K_nat / prm["ratio"]}


def lsq_slope(x, y):
    x = np.asarray(x, dtype=float)
    y = np.asarray(y, dtype=float)
    xm = x.mean()
    return float(((x - xm) * (y - y.mean())).sum() / ((x - xm) ** 2).sum())


def amp(x):
    x = np.asarray(x, dtype=float)
    xm = x.mean()
    return float(np.abs(x - xm).sum() / ((x - xm) ** 2).sum())


def fluid_of(name):
    return next(e for e in K.backend_table() if e[0] == name)[1]


def factors(desc, T):
    """(Pa per native pressure unit, native loading per mmol/g) of the common representation at temperature T."""
    u = desc["units"]
    prep, lrep, mrep = K.reps_of(u)
    fluid = fluid_of(desc["adsorbate"])
    if prep[0] == "absolute":
        pfac = ru.PRESSURE_PA[prep[1]]
    elif prep[0] == "relative":
        pfac = ru.p_sat(fluid, T)
    else:
        pfac = ru.p_sat(fluid, T) / 100.0
    mat = desc["material"]
    cfac = ru.conv_full_loading(1.0, CANON_L, CANON_M, lrep, mrep, fluid, T, mat["density"], mat["molar_mass"])
    return pfac, cfac


def unit_class(units):
    if units["pressure_mode"].startswith("relative"):
        return "relative"
    lb = units["loading_basis"]
    if lb in ("volume_gas", "volume_liquid") or (lb in ("fraction", "percent") and units["material_basis"] == "volume"):
        return "tdep"
    return "plain"


def iso_kwargs(desc, T):
    u = dict(desc["units"])
    mat = desc["material"]
    return dict(material=Material(mat["name"], density=mat["density"], molar_mass=mat["molar_mass"]),
                adsorbate=desc["adsorbate"], temperature=T if u["temperature_unit"] == "K" else T - 273.15, **u)


def coverage(desc, j):
    """theta window covered by isotherm j (every isotherm covers at least desc['window'])."""
    lo, hi = desc["window"]
    a, b = desc["margins"][j]
    return lo * a, hi + (0.99 - hi) * b


# ---- strategies ---------------------------------------------------------------------------------------------------------
_P_ABS = [r for r in ru.P_REPS if r[0] == "absolute"]
_P_REL = [r for r in ru.P_REPS if r[0] != "absolute"]
_L_PLAIN = [r for r in ru.L_REPS if r[0] in ("molar", "mass")]
_L_VOL = [r for r in ru.L_REPS if r[0] in ("volume_gas", "volume_liquid")]
_L_FRAC = [r for r in ru.L_REPS if r[1] is None]
_M_NOVOL = [r for r in ru.M_REPS if r[0] != "volume"]
_M_VOL = [r for r in ru.M_REPS if r[0] == "volume"]

_POOLS = None


def pools():
    """(all backend adsorbates, [(index, T_lo, T_hi)] of those sub-critical on >= 25 K of [200, 400] K)."""
    global _POOLS
    if _POOLS is None:
        tab = K.backend_table()
        sub = []
        for i, e in enumerate(tab):
            lo, hi = max(T_LO, K.temperature_for(e, 0.0)), min(T_HI, K.temperature_for(e, 1.0))
            if hi - lo >= 25.0:
                sub.append((i, lo, hi))
        _POOLS = (tab, sub)
    return _POOLS


def _units_plain(p=None):
    lm = st.one_of(
        st.tuples(st.sampled_from(_L_PLAIN), st.sampled_from(ru.M_REPS)),
        st.tuples(st.sampled_from(_L_PLAIN), st.sampled_from(ru.M_REPS)),
        st.tuples(st.sampled_from(_L_FRAC), st.sampled_from(_M_NOVOL)))
    return st.builds(lambda pr, lm_, tu: K.units_dict(pr, lm_[0], lm_[1], tu),
                     p or st.sampled_from(_P_ABS), lm, st.sampled_from(["K", "°C"]))


def _units_relative():
    return _units_plain(st.sampled_from(_P_REL))


def _units_tdep():
    lm = st.one_of(st.tuples(st.sampled_from(_L_VOL), st.sampled_from(ru.M_REPS)),
                   st.tuples(st.sampled_from(_L_FRAC), st.sampled_from(_M_VOL)))
    return st.builds(lambda pr, lm_, tu: K.units_dict(pr, lm_[0], lm_[1], tu),
                     st.sampled_from(_P_ABS), lm, st.sampled_from(["K", "°C"]))


class _Rng:
    """Continuous nuisance parameters are derived from ONE hypothesis-drawn integer (hypothesis's own float draws
    concentrate on range boundaries and replayed duplicates inside large composite descriptors); 8 % of the draws are
    the range ends on purpose."""

    def __init__(self, seed, *structure):
        # mixed with the structural choices so that a repeated seed (hypothesis favours small integers) still gives
        # fresh numbers for a different structure; crc32 is stable across processes
        self.r = np.random.default_rng([seed, zlib.crc32(repr(structure).encode())])

    def u(self, lo, hi):
        q = self.r.random()
        if q < 0.04:
            return float(lo)
        if q < 0.08:
            return float(hi)
        return float(lo + (hi - lo) * self.r.random())

    def logu(self, lo, hi):
        return float(math.exp(self.u(math.log(lo), math.log(hi))))

    def material(self):
        return {"name": f"m-{int(self.r.integers(0, 10))}", "density": self.u(0.05, 25.0), "molar_mass": self.u(10.0, 5000.0)}


_seed = st.integers(0, 2 ** 31 - 1)
_MODELS = ["Langmuir", "Toth", "DSLangmuir"]


@st.composite
def strat_iso(draw, kind):
    tab, sub = pools()
    cls = draw(st.sampled_from(["plain", "plain", "plain", "plain", "plain", "relative", "tdep"]))
    if cls == "plain":
        units = draw(_units_plain())
        ads = tab[draw(st.integers(0, len(tab) - 1))][0]
        lo, hi = T_LO, T_HI
    else:
        units = draw(_units_relative() if cls == "relative" else _units_tdep())
        i, lo, hi = sub[draw(st.integers(0, len(sub) - 1))]
        ads = tab[i][0]
    model = draw(st.sampled_from(_MODELS))
    npoints = draw(st.sampled_from([0, 1, 1, 2, 2, 3, 3, 4, 5, 6]))  # 0 = default grid (50 regressions: costly)
    spread = draw(st.sampled_from(["full", "any", "any"]))
    perm5 = draw(st.permutations(list(range(5))))
    g = _Rng(draw(_seed), cls, units, ads, model, npoints, spread, perm5)
    k = 2 + int(g.r.integers(0, 4))
    perm = [j for j in perm5 if j < k]
    # clustered or spread temperature sets: a sub-window of the admissible range, k sorted fractions, >= 1 K apart
    span = 1.0 if spread == "full" else g.u(0.0, 1.0)
    width = (k - 1) * 1.0 + span * (hi - lo - (k - 1) * 1.0)
    start = lo + g.u(0.0, 1.0) * (hi - lo - width)
    free = width - (k - 1) * 1.0
    us = sorted(g.u(0.0, 1.0) for _ in range(k))
    Ts = [min(hi, start + free * u + j * 1.0) for j, u in enumerate(us)]
    Ts = [Ts[j] for j in perm]
    prm = {} if model == "Langmuir" else ({"t": g.u(0.25, 1.6)} if model == "Toth" else
                                          {"frac": g.u(0.1, 0.9), "ratio": g.logu(1.0, 100.0)})
    points = None if npoints == 0 else [g.u(0.01, 0.99) for _ in range(npoints)]
    if cls == "tdep":
        points = points or [0.5]  # the default grid has no defined physical meaning in this class
    desc = {"kind": kind, "model": model, "prm": prm, "dH": g.u(5.0, 60.0),
            "K300": g.logu(1e-7, 1e-3), "n_m": g.logu(0.05, 50.0),
            "adsorbate": ads, "T": Ts, "units": units, "material": g.material(),
            "window": [g.u(0.02, 0.35), g.u(0.5, 0.97)],
            "margins": [[g.u(0.3, 1.0), g.u(0.0, 1.0)] for _ in range(k)], "points": points}
    if kind == "point":
        desc["npts"] = [int(round(g.logu(25, 1500))) for _ in range(k)]
    return desc


# ---- isosteric checks -----------------------------------------------------------------------------------------------------
def _tol(dH, x):
    return 1e-8 * dH + R_GAS / 1000.0 * amp(x) * 1e-11


def _build_iso(desc):
    """Build the isotherms and the per-isotherm native data. Returns (isotherms, info)."""
    model, prm = desc["model"], desc["prm"]
    isos, info = [], []
    # how the parameter mappings of the models of the different temperatures come about: a fresh dictionary each time,
    # ONE dictionary updated and passed again, or a copy made from the first model's own description
    route = ["fresh", "one_dict_reused", "from_template"][int(desc["n_m"] * 1e6 + len(desc["T"])) % 3]
    shared, template = {}, None
    for j, T in enumerate(desc["T"]):
        pfac, cfac = factors(desc, T)
        Kp = k_pa(desc, T)
        th_lo, th_hi = coverage(desc, j)
        x_lo, x_hi = float(f_inv(model, prm, th_lo)), float(f_inv(model, prm, th_hi))
        nm_nat = desc["n_m"] * cfac
        K_nat = Kp * pfac
        rec = {"pfac": pfac, "cfac": cfac, "K_nat": K_nat, "nm_nat": nm_nat}
        if desc["kind"] == "model":
            lp = lib_params(model, prm, K_nat, nm_nat)
            if route == "one_dict_reused":
                shared.update(lp)
                lp = shared
            if route == "from_template" and template is not None:
                from pygaps.modelling import model_from_dict
                m = model_from_dict(template.to_dict())
                for key, val in lp.items():
                    m.params[key] = val
                m.pressure_range = (x_lo / K_nat, x_hi / K_nat)
                m.loading_range = (th_lo * nm_nat, th_hi * nm_nat)
            else:
                m = get_isotherm_model(model, parameters=lp, pressure_range=(x_lo / K_nat, x_hi / K_nat),
                                       loading_range=(th_lo * nm_nat, th_hi * nm_nat))
            template = template or m
            iso = ModelIsotherm(model=m, **iso_kwargs(desc, T))
            rec["l_lo"], rec["l_hi"] = th_lo * nm_nat, th_hi * nm_nat
        else:
            x = np.geomspace(x_lo, x_hi, desc["npts"][j])
            p = x / K_nat
            l = f_fwd(model, prm, x) * nm_nat
            if not (np.all(np.diff(p) > 0) and np.all(np.diff(l) > 0)):
                raise Inconclusive()  # grid so dense that neighbouring loadings coincide in double precision
            # table order of the rows: as measured upwards, or (one case in three) listed from high to low pressure, or
            # with the lowest points appended at the end - the adsorption branch either way
            how = int(desc["K300"] * 1e13) % 3 if len(p) >= 4 else 0
            idx = {0: np.arange(len(p)), 1: np.arange(len(p))[::-1],
                   2: np.concatenate([np.arange(3, len(p)), np.arange(3)])}[how]
            iso = pygaps.PointIsotherm(pressure=p[idx], loading=l[idx], branch="ads", **iso_kwargs(desc, T))
            rec["p"], rec["l"] = p, l
            rec["l_lo"], rec["l_hi"] = float(l[0]), float(l[-1])
        isos.append(iso)
        info.append(rec)
    return isos, info


def _loading_points(desc, info):
    """Loading points (first isotherm's representation) inside the common range, or None for the default grid."""
    if desc["points"] is None:
        return None
    c0 = info[0]["cfac"]
    lo_nat, hi_nat = max(r["l_lo"] for r in info), min(r["l_hi"] for r in info)
    lo_ph, hi_ph = max(r["l_lo"] / r["cfac"] for r in info) * c0, min(r["l_hi"] / r["cfac"] for r in info) * c0
    lo, hi = max(lo_nat, lo_ph), min(hi_nat, hi_ph)
    if not lo < 0.95 * hi:
        return []
    return [lo + f * (hi - lo) for f in desc["points"]]


def check_iso(desc, ctx):
    cls = unit_class(desc["units"])
    dH = desc["dH"]
    isos, info = _build_iso(desc)
    pts = _loading_points(desc, info)
    if pts is not None and not pts:
        ctx.label("no_common_range")
        return
    x = np.array([1.0 / T for T in desc["T"]])
    what = (f"{desc['kind']} isotherms {desc['model']} {desc['prm']} dH={dH!r} T={desc['T']} "
            f"{K.reps_of(desc['units'])} T-unit {desc['units']['temperature_unit']} {desc['adsorbate']}")
    # what happens to the isotherm objects between their creation and the analysis: nothing, or the ordinary read-only
    # uses (printed, identifier taken, compared with each other, looked up in a list)
    touch = int(desc["n_m"] * 1e6) % 3
    if touch == 1:
        for iso in isos:
            iso.iso_id, str(iso)
    elif touch == 2:
        isos[0] == isos[-1], isos[-1] in isos, repr(isos[0])
    ctx.label(("untouched", "id_taken_before", "compared_before")[touch])
    res = isosteric_enthalpy(isos) if pts is None else isosteric_enthalpy(isos, loading_points=list(pts))
    lib = np.asarray(res["isosteric_enthalpy"], dtype=float)
    lpts = np.asarray(res["loading"], dtype=float)
    if lib.shape != lpts.shape or (pts is not None and not np.array_equal(lpts, np.asarray(pts))) or lib.size == 0:
        raise Violation(f"{what}: result has {lib.size} enthalpies for loadings {lpts.tolist()} (asked {pts})",
                        tag="result_shape")
    tol = _tol(dH, x)
    if desc["kind"] == "point":
        # (i) independent linear interpolation + own least squares; (ii) rigorous interpolation bound
        c0 = info[0]["cfac"]
        ys, deltas = [], []
        for r in info:
            nj = lpts * (r["cfac"] / c0)
            pj = np.interp(nj, r["l"], r["p"])
            ys.append(np.log(pj * r["pfac"]))
            i = np.clip(np.searchsorted(r["l"], nj, side="right") - 1, 0, len(r["l"]) - 2)
            deltas.append(np.log(r["p"][i + 1] / r["p"][i]))
        ys, deltas = np.array(ys), np.array(deltas)
        ref = np.array([-R_GAS * lsq_slope(x, ys[:, q]) / 1000.0 for q in range(lpts.size)])
        w = np.abs(x - x.mean()) / ((x - x.mean()) ** 2).sum()
        bound = R_GAS / 1000.0 * (w[:, None] * deltas).sum(axis=0) + tol
        bad = np.flatnonzero(~(np.abs(lib - ref) <= tol))
        if bad.size:
            q = int(bad[0])
            raise Violation(f"{what}: at loading {lpts[q]!r} isosteric_enthalpy = {lib[q]!r}, but least squares on the "
                            f"linearly interpolated absolute pressures gives {ref[q]!r} (tol {tol:.3g})",
                            tag="interp_reference")
        bad = np.flatnonzero(~(np.abs(lib - dH) <= bound))
        if bad.size:
            q = int(bad[0])
            raise Violation(f"{what}: at loading {lpts[q]!r} isosteric_enthalpy = {lib[q]!r}, built-in dH = {dH!r}, "
                            f"interpolation error bound {bound[q]:.3g}", tag="enthalpy_value")
        tight = float(bound.max()) <= 0.25 * dH
        ctx.label("bound_tight" if tight else "bound_loose")
        # the same isotherm objects, converted IN PLACE to another pressure representation after the first analysis
        # (which left interpolators behind), analysed again at the same loadings: same enthalpies
        if int(dH * 1e6) % 2 == 0:
            try:
                for iso in isos:
                    if iso.pressure_mode == "absolute":
                        iso.convert_pressure(mode_to="relative")
                    else:
                        iso.convert_pressure(mode_to="absolute", unit_to="kPa")
                res2 = isosteric_enthalpy(isos, loading_points=[float(v) for v in lpts])
            except CalculationError:
                ctx.label("second_analysis_refused")
            else:
                lib2 = np.asarray(res2["isosteric_enthalpy"], dtype=float)
                if lib2.shape != lib.shape or not np.all(np.abs(lib2 - lib) <= tol + 1e-6 * abs(dH)):
                    q = int(np.argmax(np.abs(lib2 - lib))) if lib2.shape == lib.shape else 0
                    raise Violation(f"{what}: after converting the same isotherms in place to {isos[0].pressure_mode} pressure "
                                    f"the analysis at loading {lpts[q]!r} gives {lib2[q] if lib2.shape == lib.shape else lib2!r}, "
                                    f"before the conversion {lib[q]!r}", tag="enthalpy_after_inplace_conversion")
                ctx.label("second_analysis_after_inplace_conversion")
    else:
        bad = np.flatnonzero(~(np.abs(lib - dH) <= tol))
        if bad.size:
            q = int(bad[0])
            raise Violation(f"{what}: at loading {lpts[q]!r} isosteric_enthalpy = {lib[q]!r}, built-in dH = {dH!r} "
                            f"(tol {tol:.3g})", tag="enthalpy_value")
        tight = True
    Ts = desc["T"]
    order = "sorted" if Ts == sorted(Ts) else ("reversed" if Ts == sorted(Ts, reverse=True) else "shuffled")
    ctx.label("cls_" + cls, "model_" + desc["model"], f"nT_{len(Ts)}", "order_" + order,
              "default_grid" if pts is None else "explicit_points",
              "spacing_lt5K" if min(np.diff(sorted(Ts))) < 5.0 else "spacing_ge5K")
    if tight:
        ctx.nt([desc["model"], cls, K.reps_of(desc["units"]), desc["units"]["temperature_unit"], len(Ts), order,
                round(dH, 1), pts is None], desc)


# ---- Whittaker ------------------------------------------------------------------------------------------------------------
@functools.lru_cache(maxsize=None)
def _consts(fluid):
    return PropsSI("Pcrit", fluid), PropsSI("PTRIPLE", fluid)


def _thermo(fluid, T):
    return (ru.p_sat(fluid, T),) + _consts(fluid)


def _hvap_p(fluid, p):
    return PropsSI("Hmolar", "P", p, "Q", 1, fluid) - PropsSI("Hmolar", "P", p, "Q", 0, fluid)


def whittaker_ref(n, n_m, Kpa, t, T, fluid):
    """(status, value kJ/mol, class): closed form typed from the property text; parameters in 1/Pa."""
    p_sat, p_c, p_t = _thermo(fluid, T)
    theta = np.float64(n) / np.float64(n_m)
    if theta > 1 and t != 1.0 and float(1.0 / t).is_integer() and int(1.0 / t) % 2 == 0:
        # above capacity the Toth inverse has no value; for an even integer 1/t the power of the negative base is
        # nevertheless a positive number (a spurious pressure): measure-zero corner, not judged
        return "ambiguous", None, "even_root"
    with np.errstate(all="ignore"):
        p = theta / (1.0 - theta ** t) ** (1.0 / t) / Kpa
    for thr in (p_sat, p_c):
        if np.isfinite(p) and abs(p - thr) <= 1e-9 * thr:
            return "ambiguous", None, "threshold"
    if not (p >= 0 and p <= p_c and p <= p_sat):
        return "omitted", None, ("above_capacity" if not theta < 1 else "above_psat")
    pe = max(float(p), p_t)
    hv = _hvap_p(fluid, pe)
    with np.errstate(all="ignore"):
        lam = R_GAS * T * np.log(p_sat * Kpa * (theta ** t / (1.0 - theta ** t)) ** ((t - 1.0) / t))
    scale = max(abs(lam), abs(hv), R_GAS * T)
    return "included", (float(lam + hv + R_GAS * T) / 1000.0, scale / 1000.0), ("below_triple" if p < p_t else "regular")


def _units_whittaker_model():
    lm = st.one_of(st.tuples(st.sampled_from(_L_PLAIN + _L_VOL), st.sampled_from(ru.M_REPS)),
                   st.tuples(st.sampled_from(_L_FRAC), st.sampled_from(ru.M_REPS)))
    return st.builds(lambda lm_, tu: K.units_dict(("absolute", "Pa"), lm_[0], lm_[1], tu), lm,
                     st.sampled_from(["K", "°C"]))


def _units_whittaker_point():
    p = st.one_of(st.sampled_from(_P_ABS), st.sampled_from(_P_ABS), st.sampled_from(_P_ABS), st.sampled_from(_P_REL))
    lm = st.tuples(st.sampled_from(_L_PLAIN), st.sampled_from(ru.M_REPS))
    return st.builds(lambda pr, lm_, tu: K.units_dict(pr, lm_[0], lm_[1], tu), p, lm, st.sampled_from(["K", "°C"]))


def _theta_w(g):
    q = g.r.random()
    if q < 0.5:
        return g.u(0.001, 0.999)
    if q < 0.75:
        return g.logu(1e-7, 1e-2)
    return g.u(1.0, 1.3)


@st.composite
def strat_whittaker(draw, kind):
    tab = K.backend_table()
    e = tab[draw(st.integers(0, len(tab) - 1))]
    model = draw(st.sampled_from(["Langmuir", "Toth"]))
    nload = draw(st.sampled_from(([0] if kind == "model" else []) + [1, 2, 2, 3, 3, 4, 5, 6, 7, 8]))  # 0 = default (100)
    units = draw(_units_whittaker_model() if kind == "model" else _units_whittaker_point())
    fit = draw(st.sampled_from(["Langmuir", "Toth"]))
    g = _Rng(draw(_seed), e[0], model, nload, units, fit)
    desc = {"kind": kind, "model": model, "t": g.u(0.25, 1.6) if model == "Toth" else 1.0,
            "adsorbate": e[0], "T": K.temperature_for(e, g.u(0.0, 1.0)), "kpsat": g.logu(0.05, 1e4),
            "n_m": g.logu(0.05, 50.0), "material": g.material(), "units": units,
            "theta": None if nload == 0 else [_theta_w(g) for _ in range(nload)]}
    if kind == "model":
        desc["range"] = [g.u(0.001, 0.5), g.u(0.5, 1.2)]
        if g.r.random() < 0.5:
            # the same model (same K in 1/Pa, so numerically identical pressures) analysed for another adsorbate first
            c = tab[int(g.r.integers(0, len(tab)))]
            if c[0] != e[0]:
                desc["companion"] = {"adsorbate": c[0], "T": K.temperature_for(c, g.u(0.0, 1.0))}
    else:
        desc["fit"] = fit
        desc["npts"] = int(g.r.integers(12, 61))
        desc["span"] = [g.logu(1e-4, 1e-2), g.u(0.3, 0.95)]  # data from/to, as fraction of p_sat
    return desc


def _judge_whittaker(desc, ctx, res, loadings, n_m, Kpa, t, what):
    fluid = fluid_of(desc["adsorbate"])
    T = desc["T"]
    lib_n = [float(v) for v in res["loading"]]
    lib_h = [float(v) for v in res["enthalpy_sorption"]]
    if len(lib_n) != len(lib_h):
        raise Violation(f"{what}: {len(lib_n)} loadings but {len(lib_h)} enthalpies returned", tag="result_shape")
    exp_n, exp_h, classes = [], [], []
    for n in loadings:
        status, val, klass = whittaker_ref(n, n_m, Kpa, t, T, fluid)
        if status == "ambiguous":
            ctx.label("ambiguous_" + klass)
            return None
        classes.append(klass)
        if status == "included":
            exp_n.append(float(n))
            exp_h.append(val)
    if lib_n != exp_n:
        extra = [n for n in lib_n if n not in exp_n]
        missing = [n for n in exp_n if n not in lib_n]
        raise Violation(f"{what}: loadings kept {lib_n} != loadings whose pressure lies in [0, min(p_sat, p_c)] {exp_n} "
                        f"(wrongly kept {extra}, wrongly omitted {missing}); parameters n_m={n_m!r} K={Kpa!r}/Pa t={t!r}",
                        tag="omitted_set")
    for n, h, (want, scale) in zip(lib_n, lib_h, exp_h):
        if not abs(h - want) <= 1e-8 * scale:
            raise Violation(f"{what}: at loading {n!r} enthalpy_sorption = {h!r}, closed form lambda + dH_vap + RT = "
                            f"{want!r} (n_m={n_m!r}, K={Kpa!r}/Pa, t={t!r}, T={T!r})", tag="whittaker_value")
    return classes


def check_whittaker_model(desc, ctx):
    fluid = fluid_of(desc["adsorbate"])
    T = desc["T"]
    p_sat = ru.p_sat(fluid, T)
    Kpa = desc["kpsat"] / p_sat
    n_m, t, model = desc["n_m"], desc["t"], desc["model"]
    comp = desc.get("companion")
    if comp and desc["theta"] is not None:
        cdesc = dict(desc, adsorbate=comp["adsorbate"], T=comp["T"])
        cparams = {"K": Kpa, "n_m": n_m} if model == "Langmuir" else {"K": Kpa, "n_m": n_m, "t": t}
        cm = get_isotherm_model(model, parameters=cparams, pressure_range=(1e-4 * p_sat, p_sat),
                                loading_range=(desc["range"][0] * n_m, desc["range"][1] * n_m))
        ciso = ModelIsotherm(model=cm, **iso_kwargs(cdesc, comp["T"]))
        cload = [th * n_m for th in desc["theta"]]
        cres = enthalpy_sorption_whittaker(ciso, loading=list(cload))
        cwhat = (f"Whittaker on {model} ModelIsotherm ({comp['adsorbate']} at {comp['T']!r} K, analysed before the same model "
                 f"for {desc['adsorbate']})")
        if _judge_whittaker(cdesc, ctx, cres, cload, n_m, Kpa, t, cwhat) is not None:
            ctx.label("companion_first")
    params = {"K": Kpa, "n_m": n_m} if model == "Langmuir" else {"K": Kpa, "n_m": n_m, "t": t}
    lr = (desc["range"][0] * n_m, desc["range"][1] * n_m)
    m = get_isotherm_model(model, parameters=params, pressure_range=(1e-4 * p_sat, p_sat), loading_range=lr)
    iso = ModelIsotherm(model=m, **iso_kwargs(desc, T))
    what = f"Whittaker on {model} ModelIsotherm ({desc['adsorbate']} at {T!r} K, {K.reps_of(desc['units'])})"
    if desc["theta"] is None:
        res = enthalpy_sorption_whittaker(iso)
        # the default grid is not part of the property: every returned pair must be a valid closed-form pair
        kept = [float(v) for v in res["loading"]]
        if any(not (lr[0] <= n <= lr[1]) for n in kept):
            raise Violation(f"{what}: default loadings {kept} leave the model's loading range {lr}", tag="default_grid")
        classes = _judge_whittaker(desc, ctx, res, kept, n_m, Kpa, t, what + " default loadings")
        ctx.label("default_loadings")
    else:
        loadings = [th * n_m for th in desc["theta"]]
        res = enthalpy_sorption_whittaker(iso, loading=list(loadings))
        classes = _judge_whittaker(desc, ctx, res, loadings, n_m, Kpa, t, what)
    if classes is None:
        return
    ctx.label("model_" + model, *("n_" + c for c in set(classes)))
    ctx.nt([model, desc["adsorbate"], sorted(set(classes)), desc["units"]["temperature_unit"], round(T, 0)], desc)


def check_whittaker_point(desc, ctx):
    fluid = fluid_of(desc["adsorbate"])
    T = desc["T"]
    p_sat = ru.p_sat(fluid, T)
    Kpa = desc["kpsat"] / p_sat
    n_m, t = desc["n_m"], desc["t"]
    prep = K.reps_of(desc["units"])[0]
    p_pa = np.geomspace(desc["span"][0] * p_sat, desc["span"][1] * p_sat, desc["npts"])
    load = n_m * f_fwd("Toth", {"t": t}, Kpa * p_pa)
    p_nat = np.array([ru.pressure_from_pa(v, prep, fluid, T) for v in p_pa])
    iso = pygaps.PointIsotherm(pressure=p_nat, loading=load, branch="ads", **iso_kwargs(desc, T))
    loadings = [th * n_m for th in desc["theta"]]
    what = (f"Whittaker on PointIsotherm ({desc['model']} data, {desc['fit']} fit, {desc['adsorbate']} at {T!r} K, "
            f"pressure {prep})")
    try:
        res = enthalpy_sorption_whittaker(iso, model=desc["fit"], loading=list(loadings))
    except CalculationError:
        raise Inconclusive()
    rp = res["model_params"]
    r_nm, r_K, r_t = float(rp["n_m"]), float(rp["K"]), (float(rp["t"]) if desc["fit"] == "Toth" else 1.0)
    if desc["fit"] == desc["model"] or desc["model"] == "Langmuir":
        # the data are exact values of a function the fitted family contains: a description that reproduces them must
        # do so with the pressures in Pa (the unit the closed form reads K in)
        def dev(pressures):
            with np.errstate(all="ignore"):
                return float(np.max(np.abs(r_nm * f_fwd("Toth", {"t": r_t}, r_K * pressures) / load - 1.0)))
        if not dev(p_pa) <= 1e-4:
            if dev(p_nat) <= 1e-4:
                got = [float(v) for v in res["enthalpy_sorption"]]
                truth = [whittaker_ref(n, n_m, Kpa, t, T, fluid) for n in loadings]
                truth = [round(r[1][0], 6) if r[0] == "included" else r[0] for r in truth]
                raise Violation(
                    f"{what}: reported parameters {dict(rp)} reproduce the data only with the pressures in the "
                    f"isotherm's own representation, not in Pa (generating parameters n_m={n_m!r}, K={Kpa!r}/Pa, t={t!r}); "
                    f"loadings kept {[float(v) for v in res['loading']]} of {loadings}, enthalpies {got}; closed form "
                    f"with the generating parameters: {truth}", tag="params_not_pa")
            ctx.label("poor_fit")
            raise Inconclusive()
        ctx.label("fit_reproduces_data")
    classes = _judge_whittaker(desc, ctx, res, loadings, r_nm, r_K, r_t, what)
    if classes is None:
        return
    ctx.label("fit_" + desc["fit"], "mode_" + prep[0], *("n_" + c for c in set(classes)))
    ctx.nt([desc["model"], desc["fit"], prep, desc["adsorbate"], sorted(set(classes))], desc)


# ---- initial enthalpy, point method ---------------------------------------------------------------------------------------
@st.composite
def strat_initial(draw):
    tab = K.backend_table()
    n = draw(st.integers(1, 14))
    flags = draw(st.one_of(
        st.integers(0, n).map(lambda k: [0] * k + [1] * (n - k)),            # adsorption then desorption
        st.lists(st.integers(0, 1), min_size=n, max_size=n)))                # arbitrary (interleaved) flags
    branch = draw(st.sampled_from(["ads", "des"]))
    want = 0 if branch == "ads" else 1
    if want not in flags:
        flags = list(flags)
        flags[draw(st.integers(0, n - 1))] = want
    g = _Rng(draw(_seed), flags, branch)

    def enth():
        return float(int(g.u(-100, 100))) if g.r.random() < 0.3 else g.u(-200.0, 200.0)
    return {
        "units": draw(_units_plain()), "adsorbate": tab[draw(st.integers(0, len(tab) - 1))][0],
        "T": g.u(77.0, 400.0), "material": g.material(),
        "pressure": [g.logu(1e-6, 100.0) for _ in range(n)],
        "loading": [g.u(0.0, 50.0) for _ in range(n)],
        "enthalpy": [enth() for _ in range(n)],
        "flags": list(flags), "branch": branch, "key": draw(st.sampled_from(["enthalpy", "dH", "q st"])),
        "other": draw(st.booleans()),
    }


def check_initial_point(desc, ctx):
    u = dict(desc["units"])
    T = desc["T"]
    d = {"units": u, "adsorbate": desc["adsorbate"], "T": T if u["temperature_unit"] == "K" else T - 273.15,
         "material": desc["material"], "pressure": desc["pressure"], "loading": desc["loading"],
         "branch": desc["flags"], "extra": {desc["key"]: desc["enthalpy"]}}
    if desc["other"]:
        d["extra"]["aaa"] = [v + 1000.0 for v in desc["enthalpy"]]
        d["extra"]["zzz"] = [v - 1000.0 for v in desc["enthalpy"]]
    iso = K.build_point(d)
    want_flag = 0 if desc["branch"] == "ads" else 1
    idx = desc["flags"].index(want_flag)
    want = desc["enthalpy"][idx]
    res = initial_enthalpy_point(iso, desc["key"], branch=desc["branch"])
    got = res.get("initial_enthalpy") if isinstance(res, dict) else None
    if got is None or not float(got) == want:
        raise Violation(f"initial_enthalpy_point(branch={desc['branch']!r}) = {got!r}; the first {desc['branch']} row is "
                        f"row {idx} with enthalpy {want!r} (flags {desc['flags']}, enthalpies {desc['enthalpy']})",
                        tag="initial_value")
    ctx.label("branch_" + desc["branch"], "first_row" if idx == 0 else "later_row")
    ctx.nt([desc["branch"], idx, len(desc["flags"]), want], desc)


# ---- self validation of the reference pieces ------------------------------------------------------------------------------
def self_validate():
    rng = np.random.default_rng(19)
    for model, prm in (("Langmuir", {}), ("Toth", {"t": 0.4}), ("Toth", {"t": 1.5}),
                       ("DSLangmuir", {"frac": 0.3, "ratio": 37.0}), ("DSLangmuir", {"frac": 0.85, "ratio": 1.0})):
        th = rng.uniform(0.005, 0.99, 200)
        back = f_fwd(model, prm, f_inv(model, prm, th))
        if not np.allclose(back, th, rtol=1e-11, atol=0):
            raise HarnessError(f"reference inverse of {model} {prm} does not round-trip")
    x = rng.uniform(2.5e-3, 5e-3, 5)
    y = rng.normal(size=5)
    if not math.isclose(lsq_slope(x, y), float(np.polyfit(x, y, 1)[0]), rel_tol=1e-9):
        raise HarnessError("own least squares disagrees with numpy.polyfit")
    # exact van 't Hoff family: -R d ln p / d(1/T) at constant theta is dH for the reference generator itself
    desc = {"K300": 3e-5, "dH": 31.5}
    Ts = [215.0, 333.0, 290.0]
    for model, prm in (("Toth", {"t": 0.6}), ("DSLangmuir", {"frac": 0.4, "ratio": 12.0})):
        ys = [math.log(float(f_inv(model, prm, 0.37)) / k_pa(desc, T)) for T in Ts]
        if not math.isclose(-R_GAS * lsq_slope([1 / T for T in Ts], ys) / 1000.0, 31.5, rel_tol=1e-10):
            raise HarnessError("reference generator is not van 't Hoff consistent")
    # dH_vap at p_sat(T) equals dH_vap at T (PropsSI consistency of the pressure route used by the closed form)
    hT = PropsSI("Hmolar", "T", 250.0, "Q", 1, "CarbonDioxide") - PropsSI("Hmolar", "T", 250.0, "Q", 0, "CarbonDioxide")
    if not math.isclose(_hvap_p("CarbonDioxide", ru.p_sat("CarbonDioxide", 250.0)), hT, rel_tol=1e-7):
        raise HarnessError("PropsSI vaporisation enthalpy: pressure and temperature routes disagree")
    if not math.isclose(R_GAS, 8.31446261815324, rel_tol=1e-15):
        raise HarnessError("gas constant")
    if len(pools()[1]) < 20:
        raise HarnessError("sub-critical adsorbate pool for [200, 400] K unexpectedly small")


# ---- known findings (narrow class predicates) -----------------------------------------------------------------------------
def kf_isosteric_relative_pressure(check_name, desc, viol):
    """isosteric_enthalpy regresses ln(p/p_sat(T_j)) when the isotherms are stored in a relative pressure mode."""
    return (check_name in ("iso_model", "iso_point") and unit_class(desc["units"]) == "relative"
            and viol.tag in ("enthalpy_value", "interp_reference"))


def kf_isosteric_tdep_loading(check_name, desc, viol):
    """isosteric_enthalpy holds the stored loading NUMBER constant although in a volume representation the same number
    is a different amount at each temperature."""
    return (check_name in ("iso_model", "iso_point") and unit_class(desc["units"]) == "tdep"
            and viol.tag in ("enthalpy_value", "interp_reference"))


def kf_whittaker_relative_point(check_name, desc, viol):
    """Whittaker fits a relative-mode PointIsotherm in p/p_sat and then treats K and p(n) as if they were in Pa."""
    return (check_name == "whittaker_point" and desc["units"]["pressure_mode"].startswith("relative")
            and viol.tag in ("params_not_pa", "whittaker_value", "omitted_set"))


CHECKS = [
    Check("iso_model", check_iso, strategy=lambda: strat_iso("model"), budget={"quick": 1400, "thorough": 24000},
          rule="ModelIsotherms from model instances with van 't Hoff consistent native parameters: dH at every loading"),
    Check("iso_point", check_iso, strategy=lambda: strat_iso("point"), budget={"quick": 640, "thorough": 10000},
          shrink_quick=False,
          rule="densely sampled exact PointIsotherms: == independent interpolation + least squares, and dH within the "
               "rigorous interpolation bound"),
    Check("whittaker_model", check_whittaker_model, strategy=lambda: strat_whittaker("model"),
          budget={"quick": 1400, "thorough": 24000},
          rule="closed form lambda + dH_vap(max(p, p_t)) + RT and the omitted-loading set, ModelIsotherm in Pa"),
    Check("whittaker_point", check_whittaker_point, strategy=lambda: strat_whittaker("point"),
          budget={"quick": 480, "thorough": 8000}, shrink_quick=False,
          rule="same with the parameters the library reports after fitting a PointIsotherm in any pressure representation"),
    Check("initial_point", check_initial_point, strategy=strat_initial, budget={"quick": 800, "thorough": 16000},
          rule="initial_enthalpy_point == enthalpy of the first row of the chosen branch"),
]
