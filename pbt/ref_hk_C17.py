"""Reference (independently typed) Horvath-Kawazoe-type potential equations for property C17.

Everything here is written from the published equations (Horvath & Kawazoe 1983 slit; Saito & Foley 1991 cylinder;
Cheng & Yang 1994 sphere and Langmuir correction; Rege & Yang 2000 layer models), in SI, without importing anything
from pygaps.  `phi(model, geometry, L, T, ads, mat)` returns ln(p/p0) of the uncorrected equation for the
characteristic length L in nm (slit: distance between the wall nuclei planes; cylinder / sphere: radius).

Conventions (the ones of the pyGAPS documentation): d0 = (d_g + d_h)/2, sigma = (2/5)^(1/6) d0,
effective width W = L - d_h (slit), 2L - d_h (cylinder, sphere).

The cylinder series  sum_k alpha_k b^(2k),  alpha_k = ((4.5+k)/k)^2 alpha_(k-1)  is the Gauss hypergeometric series
2F1(5.5,5.5;1;b^2) (beta: 2F1(2.5,2.5;1;b^2)); it is summed until the remaining terms are below 1e-15 of the sum
(`trunc=None`), or - to recognise one specific library behaviour - cut after int(25 L) terms (`trunc='lib'`).
"""
import math

import numpy as np

N_A = 6.02214076e23  # 1/mol (exact, SI 2019)
R_GAS = 8.314462618  # J/mol/K (exact to the digits given)
M_E = 9.1093837015e-31  # kg (CODATA 2018)
C_0 = 299792458.0  # m/s (exact)
SIX_ROOT = (2.0 / 5.0) ** (1.0 / 6.0)

MODELS = ("HK", "HK-CY", "RY", "RY-CY")
GEOMETRIES = ("slit", "cylinder", "sphere")

_KMAX = 20000
_AK = np.empty(_KMAX + 1)
_BK = np.empty(_KMAX + 1)
_AK[0] = _BK[0] = 1.0
for _k in range(1, _KMAX + 1):
    _AK[_k] = _AK[_k - 1] * ((4.5 + _k) / _k) ** 2
    _BK[_k] = _BK[_k - 1] * ((1.5 + _k) / _k) ** 2
_KIDX = np.arange(_KMAX + 1, dtype=float)


def mult(geometry):
    """W = mult*L - d_h."""
    return 1 if geometry == "slit" else 2


def lower_bound(geometry, ads, mat):
    """Geometric minimum of the characteristic length: the adsorbate just fits (W = d_g)."""
    d0 = (ads["molecular_diameter"] + mat["molecular_diameter"]) / 2
    return 2 * d0 if geometry == "slit" else d0


def kirkwood_muller(ads, mat):
    """(A_gg, A_gh) in J m^6."""
    ag, ah = ads["polarizability"] * 1e-27, mat["polarizability"] * 1e-27
    xg, xh = ads["magnetic_susceptibility"] * 1e-27, mat["magnetic_susceptibility"] * 1e-27
    mc2 = M_E * C_0 * C_0
    return 1.5 * mc2 * ag * xg, 6.0 * mc2 * ag * ah / (ag / xg + ah / xh)


def n_terms(b2):
    """Number of terms after which alpha_k b2^k (~ k^9 b2^k) has fallen below 1e-17 of the leading term."""
    if b2 <= 0:
        return 1
    lb = math.log(b2)
    k = 64
    while k < _KMAX and k * lb + 9.0 * math.log(k) > -42.0:
        k *= 2
    return min(k, _KMAX)


def cyl_sums(b, weighted, n=None):
    """(sum alpha_k b^2k w_k, sum beta_k b^2k w_k) with w_k = 1/(k+1) if weighted else 1; n terms (None: converged)."""
    b2 = b * b
    if n is None:
        n = n_terms(b2)
        if n >= _KMAX and b2 > 0 and _KMAX * math.log(b2) + 9.0 * math.log(_KMAX) > -30.0:
            raise ValueError("cylinder series not converged within the cached coefficients")
    n = max(1, min(int(n), _KMAX + 1))
    if b2 <= 0:
        return 1.0, 1.0
    k = _KIDX[:n]
    pw = np.exp(k * math.log(b2))
    w = 1.0 / (k + 1.0) if weighted else 1.0
    return float(np.sum(_AK[:n] * pw * w)), float(np.sum(_BK[:n] * pw * w))


def _lib_terms(L):
    n = int(L * 25)
    return max(1, min(n, 2000))


def phi(model, geometry, L, T, ads, mat, trunc=None):
    """ln(p/p0) without the Cheng-Yang term."""
    dg, dh = ads["molecular_diameter"], mat["molecular_diameter"]
    ng, nh = ads["surface_density"], mat["surface_density"]
    a_gg, a_gh = kirkwood_muller(ads, mat)
    d0 = (dg + dh) / 2.0
    pref = N_A / (R_GAS * T)
    L = float(L)
    nser = _lib_terms(L) if trunc == "lib" else None
    if model.startswith("HK"):
        if geometry == "slit":
            s = SIX_ROOT * d0
            x = L - d0
            br = s ** 4 / (3 * x ** 3) - s ** 10 / (9 * x ** 9) - s ** 4 / (3 * d0 ** 3) + s ** 10 / (9 * d0 ** 9)  # nm
            return pref * (nh * a_gh + ng * a_gg) / ((s * 1e-9) ** 4) * br / (L - 2 * d0)
        if geometry == "cylinder":
            a = d0 / L
            sa, sb = cyl_sums(1.0 - a, True, nser)
            return 0.75 * math.pi * pref * (nh * a_gh + ng * a_gg) / ((d0 * 1e-9) ** 4) * (
                21.0 / 32.0 * a ** 10 * sa - a ** 4 * sb)
        if geometry == "sphere":
            s = (L - d0) / L
            a = d0 / L
            n1 = 4 * math.pi * (L * 1e-9) ** 2 * nh
            n2 = 4 * math.pi * ((L - d0) * 1e-9) ** 2 * ng
            e12 = a_gh / (4 * (d0 * 1e-9) ** 6)
            e22 = a_gg / (4 * (dg * 1e-9) ** 6)
            t1 = (1 - s) ** -3 - (1 + s) ** -3
            t2 = (1 + s) ** -2 - (1 - s) ** -2
            t3 = (1 - s) ** -9 - (1 + s) ** -9
            t4 = (1 + s) ** -8 - (1 - s) ** -8
            return pref * 6 * (n1 * e12 + n2 * e22) * (L / (L - d0)) ** 3 * (
                -(a ** 6) * (t1 / 12 + t2 / 8) + a ** 12 * (t3 / 90 + t4 / 80))
        raise ValueError(geometry)
    # ---- Rege-Yang
    if geometry == "slit":
        s, sg = SIX_ROOT * d0, SIX_ROOT * dg

        def lj(n, a_x, sig, z):  # 10-4 potential of one plane at distance z
            return n * a_x / (2 * (sig * 1e-9) ** 4) * ((sig / z) ** 10 - (sig / z) ** 4)

        m = (L - dh) / dg
        if m < 2:
            return pref * (lj(nh, a_gh, s, d0) + lj(nh, a_gh, s, L - d0))
        e_hgg = lj(nh, a_gh, s, d0) + lj(ng, a_gg, sg, dg)
        e_ggg = 2 * lj(ng, a_gg, sg, dg)
        return pref * (2 * e_hgg + (m - 2) * e_ggg) / m
    m = int(((2 * L - dh) / dg - 1) / 2) + 1
    if geometry == "cylinder":
        def eps(n, a_x, d, a):
            sa, sb = cyl_sums(1.0 - a, False, nser)
            return 0.75 * math.pi * n * a_x / ((d * 1e-9) ** 4) * (21.0 / 32.0 * a ** 10 * sa - a ** 4 * sb)

        es, ns = [], []
        for i in range(1, m + 1):
            if i == 1:
                es.append(eps(nh, a_gh, d0, d0 / L))
            else:
                es.append(eps(ng, a_gg, dg, dg / (L - d0 - (i - 2) * dg)))
            width = 2 * (L - d0 - (i - 1) * dg)
            ns.append(math.pi / math.asin(dg / width) if dg <= width else 1.0)
        es, ns = np.array(es), np.array(ns)
        return pref * float(np.sum(ns * es) / np.sum(ns))
    if geometry == "sphere":
        def eps(n, e, a):
            b = 1.0 - a
            return 2 * n * e * (a ** 12 / (10 * b) * ((1 - b) ** -10 - (1 + b) ** -10) -
                                a ** 6 / (4 * b) * ((1 - b) ** -4 - (1 + b) ** -4))

        e12 = a_gh / (4 * (d0 * 1e-9) ** 6)
        e22 = a_gg / (4 * (dg * 1e-9) ** 6)

        def pop(i):  # molecules in adsorbate layer i >= 1
            return 4 * math.pi * ((L - d0 - (i - 1) * dg) * 1e-9) ** 2 * ng

        n0 = 4 * math.pi * (L * 1e-9) ** 2 * nh
        es = [eps(n0, e12, d0 / L)]
        for i in range(2, m + 1):
            es.append(eps(pop(i - 1), e22, dg / (L - d0 - (i - 2) * dg)))
        ns = np.array([pop(i) for i in range(1, m + 1)])
        es = np.array(es)
        return pref * float(np.sum(ns * es) / np.sum(ns))
    raise ValueError(geometry)


def cy_term(theta):
    """Cheng-Yang (Langmuir) correction: ln p = phi - [1 + ln(1-theta)/theta]; its limit at zero coverage is 0."""
    theta = np.asarray(theta, dtype=float)
    safe = np.where(theta > 0, theta, 1.0)
    return np.where(theta > 0, 1.0 + np.log1p(-safe) / safe, 0.0)


# ---- self validation ----------------------------------------------------------------------------------------------------
def self_validate():
    """Closed-form / published-number checks of the typed equations; raises AssertionError on failure."""
    from scipy import integrate, special
    # 1. hypergeometric identity of the cylinder series
    for b in (0.05, 0.3, 0.6, 0.85, 0.93):
        sa, sb = cyl_sums(b, False)
        assert abs(sa / special.hyp2f1(5.5, 5.5, 1.0, b * b) - 1) < 1e-10, ("alpha series", b)
        assert abs(sb / special.hyp2f1(2.5, 2.5, 1.0, b * b) - 1) < 1e-10, ("beta series", b)
        # weighted series = (1/x) * integral_0^x of the plain series (x = b^2)
        wa, wb = cyl_sums(b, True)
        qa = integrate.quad(lambda x: special.hyp2f1(5.5, 5.5, 1.0, x), 0, b * b, epsabs=0, epsrel=1e-12)[0] / (b * b)
        qb = integrate.quad(lambda x: special.hyp2f1(2.5, 2.5, 1.0, x), 0, b * b, epsabs=0, epsrel=1e-12)[0] / (b * b)
        assert abs(wa / qa - 1) < 1e-9 and abs(wb / qb - 1) < 1e-9, ("weighted series", b)
    # 2. Horvath & Kawazoe (1983), nitrogen on carbon at 77.4 K, their eq. with rounded numbers:
    #    ln(p/p0) = 62.38/(l-0.64) * [1.895e-3/(l-0.32)^3 - 2.7087e-7/(l-0.32)^9 - 0.05014],  l in nm
    ads = {"molecular_diameter": 0.30, "polarizability": 1.46e-3, "magnetic_susceptibility": 2.0e-8,
           "surface_density": 6.7e18}
    mat = {"molecular_diameter": 0.34, "polarizability": 1.02e-3, "magnetic_susceptibility": 1.35e-7,
           "surface_density": 3.845e19}
    for l_nm in (0.70, 0.74, 0.84, 1.0, 1.44, 1.84, 3.0):
        pub = 62.38 / (l_nm - 0.64) * (1.895e-3 / (l_nm - 0.32) ** 3 - 2.7087e-7 / (l_nm - 0.32) ** 9 - 0.05014)
        mine = phi("HK", "slit", l_nm, 77.4, ads, mat)
        # (their prefactor 62.38 is 1.6 % above the one from CODATA constants: 61.35; the bracket numbers agree to 0.3 %)
        assert abs(mine / pub - 1) < 2.5e-2, ("HK 1983 numeric equation", l_nm, mine, pub)
    # ... and their Table: 0.40 nm <-> 1.46e-7, 1.10 nm <-> 2.22e-2, 1.50 nm <-> 7.59e-2 (effective width l - 0.34)
    for w_nm, p_rel in ((0.40, 1.46e-7), (1.10, 2.22e-2), (1.50, 7.59e-2)):
        pub = 62.38 / (w_nm + 0.34 - 0.64) * (1.895e-3 / (w_nm + 0.02) ** 3 - 2.7087e-7 / (w_nm + 0.02) ** 9 - 0.05014)
        assert abs(math.exp(pub) / p_rel - 1) < 1e-2, ("HK 1983 table", w_nm)
    # 3. sphere: the closed form is the volume average of the Lennard-Jones potential of a spherical shell
    dg, dh = ads["molecular_diameter"], mat["molecular_diameter"]
    d0 = (dg + dh) / 2
    a_gg, a_gh = kirkwood_muller(ads, mat)
    for L in (0.45, 0.8, 1.5):
        n1 = 4 * math.pi * (L * 1e-9) ** 2 * mat["surface_density"]
        n2 = 4 * math.pi * ((L - d0) * 1e-9) ** 2 * ads["surface_density"]
        e_star = n1 * a_gh / (4 * (d0 * 1e-9) ** 6) + n2 * a_gg / (4 * (dg * 1e-9) ** 6)

        def shell(r):
            x = r / L
            a = d0 / L
            return 2 * e_star * (a ** 12 / (10 * x) * ((1 - x) ** -10 - (1 + x) ** -10) -
                                 a ** 6 / (4 * x) * ((1 - x) ** -4 - (1 + x) ** -4))

        num = integrate.quad(lambda r: shell(r) * r * r, 1e-12, L - d0, epsabs=0, epsrel=1e-11)[0]
        avg = 3 * num / (L - d0) ** 3
        mine = phi("HK", "sphere", L, 100.0, ads, mat) * R_GAS * 100.0 / N_A
        assert abs(mine / avg - 1) < 1e-7, ("sphere volume average", L, mine, avg)
    # 4. slit: the closed form is the average of the two-wall 10-4 potential between d0 and L-d0
    s = SIX_ROOT * d0
    for L in (0.7, 1.0, 2.0):
        k = (mat["surface_density"] * a_gh + ads["surface_density"] * a_gg) / (2 * (s * 1e-9) ** 4)

        def walls(z):
            return k * ((s / z) ** 10 - (s / z) ** 4 + (s / (L - z)) ** 10 - (s / (L - z)) ** 4)

        avg = integrate.quad(walls, d0, L - d0, epsabs=0, epsrel=1e-12)[0] / (L - 2 * d0)
        mine = phi("HK", "slit", L, 100.0, ads, mat) * R_GAS * 100.0 / N_A
        assert abs(mine / avg - 1) < 1e-8, ("slit average", L, mine, avg)
    # 5. Rege-Yang slit: single-layer pore at the largest width equals wall+wall, continuity of the average in M>2
    v1 = phi("RY", "slit", dh + 2.5 * dg, 100.0, ads, mat)
    v2 = phi("RY", "slit", dh + 2.5000001 * dg, 100.0, ads, mat)
    assert abs(v1 / v2 - 1) < 1e-6
    # 6. temperature scaling of every potential
    for model in ("HK", "RY"):
        for geo in GEOMETRIES:
            L = lower_bound(geo, ads, mat) * 1.7
            assert abs(phi(model, geo, L, 77.0, ads, mat) * 77.0 / (phi(model, geo, L, 154.0, ads, mat) * 154.0) - 1) < 1e-13
