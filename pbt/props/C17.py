"""C17 - Horvath-Kawazoe-type micropore analyses: every reported pore width solves the method's potential equation;
published slit HK round trip; monotone widths; cumulative volume and distribution identities."""
import contextlib
import math

import numpy as np
from hypothesis import strategies as st

import pygaps
import pygaps.characterisation.psd_micro as pm
from pygaps.characterisation.models_hk import get_hk_model
from pygaps.utilities.exceptions import CalculationError

from pbt import case as K
from pbt import ref_hk_C17 as rh
from pbt import ref_units as ru
from pbt.core import Check, HarnessError, Violation

LEVEL = "exploration"
RULE = (
    "Cases = hypothesis-drawn (model in HK/HK-CY/RY/RY-CY, geometry in slit/cylinder/sphere, T in [70,300] K, adsorbent = "
    "one of the 3 built-in sets or a generated dictionary, generated adsorbate dictionary, 3-8 target characteristic "
    "lengths between the geometric minimum (W = d_g) and W = 3 nm, strictly increasing loadings (1 in 8 starting at "
    "exactly zero); for the Cheng-Yang variants a final plateau point that fixes the coverage scale). Pressures are "
    "computed by the harness from the target lengths with its own (independently typed) published equations, or with the "
    "library's own potential closure captured through a stub solver; targets are ordered by potential so that pressure "
    "and loading both increase; only pressures in [1e-30, 0.99] are used. The library (raw functions "
    "psd_horvath_kawazoe / psd_horvath_kawazoe_ry, and psd_microporous on a PointIsotherm) is then run with "
    "`_solve_hk`/`_solve_hk_cy` wrapped to record (pressure, solution, potential closure) per point. Non-trivial = a case "
    "with >= 2 points whose targets lie in the domain (every asserted point has a solution there by construction); "
    "distinct by the whole descriptor."
)
ASSUMPTIONS = [
    "a reported length L_i 'solves' an equation when the equation's residual ln p_model(L) - ln p_i changes sign inside "
    "[L_i - 5e-5 nm, L_i + 5e-5 nm] (scipy's bounded Brent minimiser stops at an interval half-width of about "
    "2*(xatol/3 + 1.5e-8*L) ~ 0.7e-5 nm with xatol = 1e-5; 5e-5 leaves a factor ~4) or is below 1e-9 in ln p",
    "agreement of the library's potential with the independently typed equation is demanded to 2e-6 relative in ln p "
    "(the library rounds (2/5)^(1/6) to 7 digits; measured agreement 1e-7 slit, 1e-9 sphere / cylinder with equal series)",
    "published slit HK round trip: returned (mid-point) widths equal the mid-points of the chosen widths within 5e-5 nm",
    "Cheng-Yang coverage is loading / (1.01 * largest loading passed) (the library's regularisation of theta=1) and the "
    "correction term at zero coverage is its limit 0",
    "relative pressures are kept inside [1e-30, 0.99]; adsorbate/adsorbent dictionaries are drawn from d in [0.2,0.5] nm, "
    "polarizability in [2e-4,1.2e-2] nm3, susceptibility in [3e-9,3e-7] nm3, surface density in [4e18,5e19] m-2, liquid "
    "density [0.1,3] g/cm3, molar mass [2,200] g/mol",
    "the cylinder series are summed to convergence in the reference (hypergeometric identity validated at start-up); "
    "the typed equations are validated at start-up against the numeric equation and table of Horvath & Kawazoe (1983) and "
    "against numerical quadrature of the Lennard-Jones wall / shell potentials (slit, sphere)",
    "the Rege-Yang equations are typed from the pyGAPS documentation with the two-wall signs of the 10-4 potential "
    "(the documentation's sign of the (L-d0) terms is a misprint; the typed form is the physical one and agrees with the code)",
    "CoolProp PropsSI is the source of p_sat, liquid density and molar mass for the isotherm interface; the adsorbed "
    "amount is taken per unit of the isotherm's own material basis (mmol per g or per kg)",
    "monotonicity of widths is asserted only when the chosen target widths themselves increase with pressure over the "
    "whole case (then mapping pressures back to their solutions consistently gives non-decreasing widths), with an "
    "allowance of 1e-4 nm (slit) / 2e-4 nm (cylinder, sphere)",
    "the plateau point of the Cheng-Yang variants and points of windows that do not contain it are not asserted to "
    "solve the equation (no constructed solution); identities are asserted on every returned value",
]

DELTA = 5e-5  # nm, see ASSUMPTIONS
W_MAX = 3.0  # nm, upper end of the quantifier's width range
P_FLOOR = 1e-30
TYPED_REL = 2e-6  # relative agreement (in ln p) demanded between the library's potential and the typed equation
P_TOP = 0.99
P_CAP = 0.995  # pressure of the plateau point appended for the Cheng-Yang variants (its width is not asserted)
LN_FLOOR, LN_TOP = math.log(P_FLOOR), math.log(P_TOP)

# adsorbent parameter sets typed from Horvath-Kawazoe (carbon) and Saito-Foley (oxide ions); NOT imported from pygaps
BUILTIN = {
    "Carbon(HK)": {"molecular_diameter": 0.34, "polarizability": 1.02e-3, "magnetic_susceptibility": 1.35e-7,
                   "surface_density": 3.845e19},
    "AlSiOxideIon": {"molecular_diameter": 0.276, "polarizability": 2.5e-3, "magnetic_susceptibility": 1.3e-8,
                     "surface_density": 1.315e19},
    "AlPhOxideIon": {"molecular_diameter": 0.260, "polarizability": 2.5e-3, "magnetic_susceptibility": 1.3e-8,
                     "surface_density": 1.0e19},
}

_ORIG_HK = pm._solve_hk
_ORIG_CY = pm._solve_hk_cy


def worker_init():
    K.reset_registries()
    pm._solve_hk = _ORIG_HK
    pm._solve_hk_cy = _ORIG_CY


def self_validate():
    rh.self_validate()


# ---- solver instrumentation --------------------------------------------------------------------------------------------
@contextlib.contextmanager
def _patched(hk, cy):
    old = (pm._solve_hk, pm._solve_hk_cy)
    pm._solve_hk, pm._solve_hk_cy = hk, cy
    try:
        yield
    finally:
        pm._solve_hk, pm._solve_hk_cy = old


def _raw_fn(model):
    return pm.psd_horvath_kawazoe if model.startswith("HK") else pm.psd_horvath_kawazoe_ry


def capture_closure(model, geometry, T, ads, mat):
    """The library's own potential function phi(L), obtained by running the analysis with stub solvers."""
    box = {}

    def stub(pressure, hk_fun, bound, geo):
        box.update(f=hk_fun, bound=bound, geo=geo)
        return [bound + 1.0 + 0.5 * i for i in range(len(pressure))]

    def stub_cy(pressure, loading, hk_fun, bound, geo):
        return stub(pressure, hk_fun, bound, geo)

    with _patched(stub, stub_cy):
        _raw_fn(model)(np.array([0.1, 0.2, 0.3]), np.array([1.0, 2.0, 3.0]), T, geometry, ads, mat,
                       use_cy=model.endswith("CY"))
    if "f" not in box:
        raise Violation(f"{model}/{geometry}: the analysis never called its solver", tag="solver_not_called")
    return box


@contextlib.contextmanager
def recording():
    rec = []

    def w_hk(pressure, hk_fun, bound, geo):
        out = _ORIG_HK(pressure, hk_fun, bound, geo)
        rec.append({"p": np.array(pressure, dtype=float), "loading": None, "L": np.array(out, dtype=float),
                    "f": hk_fun, "bound": float(bound), "geo": geo})
        return out

    def w_cy(pressure, loading, hk_fun, bound, geo):
        out = _ORIG_CY(pressure, loading, hk_fun, bound, geo)
        rec.append({"p": np.array(pressure, dtype=float), "loading": np.array(loading, dtype=float),
                    "L": np.array(out, dtype=float), "f": hk_fun, "bound": float(bound), "geo": geo})
        return out

    with _patched(w_hk, w_cy):
        yield rec


# ---- case preparation -------------------------------------------------------------------------------------------------
def _materials(desc):
    """(reference dictionary, argument for the raw functions, argument for psd_microporous)."""
    m = desc["material"]
    if isinstance(m, str):
        return BUILTIN[m], get_hk_model(m), m
    # a user dictionary is keyed by name: the order in which its keys were written means nothing
    return dict(m), _reorder(m, desc.get("key_order", 0)), _reorder(m, desc.get("key_order", 0))


def _reorder(d, how):
    keys = list(d)
    keys = {0: keys, 1: keys[::-1], 2: sorted(keys), 3: sorted(keys, reverse=True)}[how % 4]
    return {k: d[k] for k in keys}


def _fam(model):
    return "ry" if model.startswith("RY") else "hk"


def _phi_points(phi_fn, lengths):
    out = []
    for L in lengths:
        try:
            v = float(phi_fn(np.float64(L)))
        except (ZeroDivisionError, OverflowError, ValueError):
            v = float("nan")
        out.append(v)
    return np.array(out)


def build_points(desc, phi_fn, bound, l_max, cy):
    """Targets -> (pressure, loading, cy term, target length, is_plateau) sorted so that pressure and loading increase.

    Returns None when fewer than two usable points remain."""
    u = np.array(desc["u"], dtype=float)
    targets = bound + (l_max - bound) * u
    phis = _phi_points(phi_fn, targets)
    ok = np.isfinite(phis) & (phis >= LN_FLOOR) & (phis <= LN_TOP)
    targets, phis = targets[ok], phis[ok]
    order = np.argsort(phis, kind="stable")
    targets, phis = targets[order], phis[order]
    # strictly increasing potentials (pressures differing by at least 0.1 %)
    keep = []
    for i in range(len(phis)):
        if not keep or phis[i] - phis[keep[-1]] >= 1e-3:
            keep.append(i)
    targets, phis = targets[keep], phis[keep]
    m = len(phis)
    if m == 0:
        return None
    loads = np.cumsum(np.array(desc["dload"][:m], dtype=float))
    if desc.get("zero_first"):
        loads = loads - loads[0]  # "any increasing loading" includes one that starts at exactly zero
    if not cy:
        if m < 2:
            return None
        return {"p": np.exp(phis), "loading": loads, "sf": np.zeros(m), "target": targets, "plateau": np.zeros(m, bool),
                "eff": phis, "dropped": len(u) - m}
    top = loads[-1] * (1.0 + desc["plateau"])
    if not top > 0:
        return None
    theta = loads / (1.01 * top)
    sf = rh.cy_term(theta)
    lnp = phis - sf
    dipped = False
    if desc.get("dip") and m >= 3:
        # Cheng-Yang: the coverage term can fall faster than the potential rises, so that a HIGHER pressure belongs to a
        # NARROWER pore. Exchange the two widest targets when the pressures stay increasing: every width must still solve
        # the equation at its own pressure (the monotonicity clause is then not asserted)
        t2, f2 = targets.copy(), phis.copy()
        t2[[m - 2, m - 1]], f2[[m - 2, m - 1]] = t2[[m - 1, m - 2]], f2[[m - 1, m - 2]]
        lnp2 = f2 - sf
        if np.all(np.diff(lnp2) >= 1e-3) and lnp2[-1] <= LN_TOP:
            targets, phis, lnp, dipped = t2, f2, lnp2, True
    n_ok = int(np.sum(lnp <= LN_TOP))  # lnp is increasing: a prefix
    if n_ok < 1:
        return None
    sl = slice(0, n_ok)
    sf_cap = float(rh.cy_term(1.0 / 1.01))
    return {
        "p": np.append(np.exp(lnp[sl]), P_CAP), "loading": np.append(loads[sl], top), "sf": np.append(sf[sl], sf_cap),
        "target": np.append(targets[sl], np.nan), "plateau": np.append(np.zeros(n_ok, bool), True),
        "eff": np.append(phis[sl], math.log(P_CAP) + sf_cap), "dropped": len(u) - n_ok, "dipped": dipped and n_ok == m,
    }


def solved(resid, L, bound):
    """True when `resid` (ln p_model(L) - ln p) vanishes within the solver tolerance of L."""
    r0 = resid(np.float64(L))
    # (1e-6 in ln p: the solver minimises the squared residual with xatol 1e-5 nm; near the potential minimum the
    #  residual is flat and need not change sign although it is at rounding level)
    if abs(r0) <= 1e-6:
        return True
    lo = max(L - DELTA, bound * (1 + 1e-9) + 1e-9)
    a, b = resid(np.float64(lo)), resid(np.float64(L + DELTA))
    if not (np.isfinite(a) and np.isfinite(b) and np.isfinite(r0)):
        return False
    return a == 0 or b == 0 or (a < 0) != (b < 0) or (a < 0) != (r0 < 0)


def classify_stop(resid, L, bound, jumps):
    """Where the bounded local minimiser of (exp(phi(L))/p - 1)^2 stopped when L is not a solution: at a layer-count
    'jump', at a search 'bound', at a local 'extremum' of the squared residual - or 'elsewhere' (no minimiser stops there)."""
    def sq(x):
        with np.errstate(all="ignore"):
            try:
                v = math.expm1(float(resid(np.float64(x))))
            except (OverflowError, ZeroDivisionError, ValueError):
                return math.inf
        return v * v if math.isfinite(v) else math.inf
    h = 2e-4
    if any(abs(L - j) <= 2e-4 for j in jumps):
        return "jump"
    if L >= 50.0 - 1e-3 or L <= bound + 1e-3:
        return "bound"
    # (a numerically flat stretch counts: far from the wells the squared residual is 1 to the last digit and the
    # minimiser has nothing to tell one width from the next)
    flat = 1e-12 * max(1.0, sq(L)) if math.isfinite(sq(L)) else 0.0
    if sq(L) <= sq(L - h) + flat and sq(L) <= sq(L + h) + flat:
        return "extremum"
    return "elsewhere"


def witness_near(resid, L_t, bound):
    """A sign change of `resid` near the target (the closure may differ slightly from the typed equation)."""
    for r in (1e-4, 1e-3, 1e-2, 5e-2):
        a = resid(np.float64(max(L_t - r, bound * (1 + 1e-9) + 1e-9)))
        b = resid(np.float64(L_t + r))
        if np.isfinite(a) and np.isfinite(b) and (a == 0 or b == 0 or (a < 0) != (b < 0)):
            return True
    return False


def ry_jumps(geometry, ads, mat, l_max):
    """Characteristic lengths at which the Rege-Yang layer count (or innermost-layer population) changes."""
    dg, dh = ads["molecular_diameter"], mat["molecular_diameter"]
    if geometry == "slit":
        return [dh + 2 * dg]
    out = []
    j = 2
    while (dh + j * dg) / 2 <= l_max + dg:
        out.append((dh + j * dg) / 2)
        j += 1
    return out


class Problems:
    """Collects violations of one case; raises the one that is least likely to be an already known class."""

    def __init__(self):
        self.items = []

    def add(self, prio, message, tag):
        self.items.append((prio, len(self.items), message, tag))

    def raise_if_any(self):
        if self.items:
            _, _, message, tag = min(self.items)
            raise Violation(message, tag=tag)


def check_identities(probs, head, out, L_rec, loading, ads, mat_ref, geometry):
    """Width definition, cumulative volume and distribution identities on the returned arrays."""
    widths, dist, cum = (np.asarray(x, dtype=float) for x in out)
    m = len(L_rec)
    if not (len(widths) == len(dist) == len(cum) == max(m - 1, 0)):
        probs.add(0, f"{head}: {m} solved points but {len(widths)} widths / {len(dist)} distribution / {len(cum)} "
                     "cumulative values returned", "array_lengths")
        return None
    w_pt = rh.mult(geometry) * L_rec - mat_ref["molecular_diameter"]
    mid = (w_pt[:-1] + w_pt[1:]) / 2
    if not np.all(np.abs(widths - mid) <= 1e-12 * np.abs(mid) + 1e-15):
        i = int(np.argmax(np.abs(widths - mid)))
        probs.add(0, f"{head}: returned width {widths[i]!r} nm is not the mid-point {mid[i]!r} nm of the effective widths "
                     f"W = {rh.mult(geometry)}*L - d_h of points {i},{i + 1} (L = {L_rec[i]!r}, {L_rec[i + 1]!r})",
                  "width_definition")
    vol = loading[:m] * ads["adsorbate_molar_mass"] / ads["liquid_density"] / 1000.0
    if not np.all(np.abs(cum - vol[1:]) <= 1e-12 * np.abs(vol[1:])):
        i = int(np.argmax(np.abs(cum - vol[1:])))
        probs.add(0, f"{head}: cumulative pore volume {cum[i]!r} != loading*M/rho/1000 = {vol[i + 1]!r} cm3/g "
                     f"(loading {loading[i + 1]!r} mmol/g)", "cumulative_volume")
    dw, dv = np.diff(w_pt), np.diff(vol)
    for i in range(m - 1):
        if dw[i] == 0 or not np.isfinite(dist[i]):
            if dw[i] != 0:
                probs.add(0, f"{head}: distribution value {dist[i]!r} at point {i} although dW = {dw[i]!r}", "distribution")
            continue
        slack = 1e-9 * abs(dv[i]) + 16 * np.finfo(float).eps * abs(dist[i]) * max(abs(w_pt[i]), abs(w_pt[i + 1]))
        if abs(dist[i] * dw[i] - dv[i]) > slack:
            probs.add(0, f"{head}: distribution {dist[i]!r} != dV/dW = {dv[i]!r}/{dw[i]!r} = {dv[i] / dw[i]!r}",
                      "distribution")
            break
    return w_pt


def check_monotone(probs, ctx, head, w_pt, pts, fam, geometry):
    """Asserted when the chosen (target) widths themselves increase with pressure over the whole case: then an analysis
    that maps the pressures back to solutions consistently must return non-decreasing widths."""
    real = ~pts["plateau"][:len(w_pt)]
    tgt, p = pts["target"][:len(w_pt)][real], pts["p"][:len(w_pt)][real]
    w = w_pt[real]
    if len(w) < 2 or not (np.all(np.diff(tgt) > 0) and np.all(np.diff(p) > 0)):
        ctx.label("targets_not_monotone_in_pressure")
        return
    ctx.label("monotonicity_asserted")
    tol = 2 * rh.mult(geometry) * DELTA
    for i in range(len(w) - 1):
        if w[i + 1] < w[i] - tol:
            probs.add(1 if (fam == "hk" and geometry == "slit") else 2,
                      f"{head}: width decreases with pressure: W({p[i]!r}) = {w[i]!r} nm > W({p[i + 1]!r}) = {w[i + 1]!r} nm "
                      f"(the pressures were computed for the increasing lengths L = {tgt[i]!r} < {tgt[i + 1]!r} nm)",
                      f"widths_decrease:{fam}:{geometry}")
            return


def _one_record(rec, head, n_expected, p_expected, tol=0.0):
    if len(rec) != 1:
        raise Violation(f"{head}: solver called {len(rec)} times for one analysis", tag="solver_calls")
    r = rec[0]
    if len(r["p"]) != n_expected or not np.all(np.abs(r["p"] - p_expected) <= tol * np.abs(p_expected)):
        raise Violation(f"{head}: the solver was handed pressures {r['p'].tolist()} instead of the relative pressures "
                        f"{np.asarray(p_expected).tolist()}", tag="solver_pressures")
    return r


def assert_solutions(probs, ctx, head, desc, r, pts, source, ads, mat_ref, T):
    """Every asserted point: the recorded solution solves the closure equation (solver) and, for source 'published',
    the independently typed equation (potential)."""
    model, geometry = desc["model"], desc["geometry"]
    fam = _fam(model)
    f, bound = r["f"], r["bound"]
    jumps = ry_jumps(geometry, ads, mat_ref, (W_MAX + mat_ref["molecular_diameter"]) / rh.mult(geometry)) if fam == "ry" else []
    n = len(r["L"])
    for i in range(n):
        if pts["plateau"][i]:
            continue
        L_i, lnp, sf, L_t = float(r["L"][i]), math.log(r["p"][i]), float(pts["sf"][i]), float(pts["target"][i])

        def res_cl(x, lnp=lnp, sf=sf):
            return float(f(x)) - sf - lnp

        ok_cl = solved(res_cl, L_i, bound)
        if not ok_cl:
            if source == "closure" or witness_near(res_cl, L_t, bound):
                # where did the bounded local minimiser stop? (only stops that a local minimiser can legitimately make
                # belong to the known class of the Rege-Yang models)
                stop = classify_stop(res_cl, L_i, bound, jumps)
                ctx.label("missed_root_at_layer_jump" if stop == "jump" else "missed_root_" + stop)
                resid = math.expm1(res_cl(np.float64(L_i)))
                probs.add(0 if fam == "hk" else (3 if stop != "elsewhere" else 0),
                          f"{head}: point {i}: p/p0 = {r['p'][i]!r}: reported L = {L_i!r} nm does not solve the library's own "
                          f"potential equation (exp(phi(L))/p - 1 = {resid:.3g}; the search stopped at: {stop}) although L = {L_t!r} nm "
                          f"(W = {rh.mult(geometry) * L_t - mat_ref['molecular_diameter']:.6g} nm) does",
                          f"not_a_solution:{fam}" + (f":{stop}" if fam == "ry" else ""))
                ctx.label("solver_missed_root")
            else:
                ctx.label("no_witness")
            continue
        ctx.label("same_root" if abs(L_i - L_t) <= 2 * DELTA else "other_root")
        if source != "published":
            continue

        def res_ty(x, lnp=lnp, sf=sf, trunc=None):
            return rh.phi(model, geometry, float(x), T, ads, mat_ref, trunc=trunc) - sf - lnp

        # the library rounds (2/5)^(1/6) to 7 digits (slit) and uses CODATA constants of its scipy: potentials agree
        # with the typed ones to 1e-7 relative at best -> residuals up to 2e-6*|phi| are not resolvable
        r_ty = res_ty(L_i)
        if solved(res_ty, L_i, bound) or abs(r_ty) <= TYPED_REL * max(1.0, abs(r_ty + sf + lnp)):
            continue
        r_tr = res_ty(L_i, trunc="lib") if geometry == "cylinder" else None
        if geometry == "cylinder" and (solved(lambda x: res_ty(x, trunc="lib"), L_i, bound) or
                                       abs(r_tr) <= TYPED_REL * max(1.0, abs(r_tr + sf + lnp))):
            dev = rh.mult(geometry) * abs(L_i - L_t)
            probs.add(4, f"{head}: point {i}: p/p0 = {r['p'][i]!r} from the {model} cylinder equation at W = "
                         f"{2 * L_t - mat_ref['molecular_diameter']:.6g} nm; reported L = {L_i!r} nm solves the equation only "
                         f"when the series is cut after int(25 L) = {int(25 * L_i)} terms (width off by {dev:.3g} nm)",
                      "cylinder_series_truncated")
            ctx.label("cylinder_truncation")
            continue
        probs.add(0, f"{head}: point {i}: p/p0 = {r['p'][i]!r}: reported L = {L_i!r} nm does not solve the published "
                     f"{model} {geometry} equation: ln p_published(L) - ln p = {res_ty(L_i):.6g} "
                     f"(target L = {L_t!r} nm)", f"published_mismatch:{fam}:{geometry}")


# ---- check: solves the equation (published / own closure) --------------------------------------------------------------
def _run_solves(desc, ctx, source):
    model, geometry, T = desc["model"], desc["geometry"], desc["T"]
    cy = model.endswith("CY")
    ads = dict(desc["adsorbate"])
    mat_ref, mat_arg, _ = _materials(desc)
    head = f"{model}/{geometry} T={T!r} K"
    bound = rh.lower_bound(geometry, ads, mat_ref)
    l_max = (W_MAX + mat_ref["molecular_diameter"]) / rh.mult(geometry)
    if source == "closure":
        box = capture_closure(model, geometry, T, ads, mat_arg)
        phi_fn = box["f"]
    else:
        def phi_fn(x):
            return rh.phi(model, geometry, x, T, ads, mat_ref)
    pts = build_points(desc, phi_fn, bound, l_max, cy)
    if pts is None:
        ctx.label("too_few_points")
        return
    with recording() as rec:
        out = _raw_fn(model)(pts["p"].copy(), pts["loading"].copy(), T, geometry, ads, mat_arg, use_cy=cy)
    r = _one_record(rec, head, len(pts["p"]), pts["p"])
    probs = Problems()
    w_pt = check_identities(probs, head, out, r["L"], pts["loading"], ads, mat_ref, geometry)
    assert_solutions(probs, ctx, head, desc, r, pts, source, ads, mat_ref, T)
    if w_pt is not None:
        check_monotone(probs, ctx, head, w_pt, pts, _fam(model), geometry)
    ctx.label(f"{model}/{geometry}", "material_builtin" if isinstance(desc["material"], str) else "material_dict",
              f"points_{min(len(pts['p']), 7)}")
    if pts["dropped"]:
        ctx.label("some_targets_outside_pressure_window")
    if pts.get("dipped"):
        ctx.label("cy_narrower_pore_at_higher_pressure")
    ctx.nt([source, desc], desc)
    probs.raise_if_any()


def check_published(desc, ctx):
    _run_solves(desc, ctx, "published")


def check_closure(desc, ctx):
    _run_solves(desc, ctx, "closure")


# ---- check: published slit HK equation round trip (public outputs only) ----------------------------------------------
def check_slit_roundtrip(desc, ctx):
    T = desc["T"]
    ads = dict(desc["adsorbate"])
    mat_ref, mat_arg, mat_iso = _materials(desc)
    d0 = (ads["molecular_diameter"] + mat_ref["molecular_diameter"]) / 2
    bound, l_max = 2 * d0, W_MAX + mat_ref["molecular_diameter"]
    pts = build_points(dict(desc, plateau=0.0), lambda x: rh.phi("HK", "slit", x, T, ads, mat_ref), bound, l_max, False)
    if pts is None or (desc["api"] == "isotherm" and len(pts["p"]) < 3):
        ctx.label("too_few_points")
        return
    head = f"HK/slit T={T!r} K ({desc['api']})"
    if desc["api"] == "raw":
        widths, dist, cum = pm.psd_horvath_kawazoe(pts["p"].tolist() if desc["as_list"] else pts["p"].copy(),
                                                   pts["loading"].tolist() if desc["as_list"] else pts["loading"].copy(),
                                                   T, "slit", ads, mat_arg)
    else:
        iso = pygaps.PointIsotherm(
            pressure=pts["p"].tolist(), loading=pts["loading"].tolist(), material="m-0", adsorbate="nitrogen",
            temperature=T, pressure_mode="relative", pressure_unit=None, loading_basis="molar", loading_unit="mmol",
            material_basis="mass", material_unit="g", temperature_unit="K")
        res = pm.psd_microporous(iso, psd_model="HK", pore_geometry="slit", material_model=mat_iso, adsorbate_model=ads,
                                 p_limits=(None, 1.0))
        widths, dist, cum = res["pore_widths"], res["pore_distribution"], res["pore_volume_cumulative"]
    widths, dist, cum = (np.asarray(x, dtype=float) for x in (widths, dist, cum))
    w_t = pts["target"] - mat_ref["molecular_diameter"]
    mid = (w_t[:-1] + w_t[1:]) / 2
    if len(widths) != len(mid):
        raise Violation(f"{head}: {len(pts['p'])} pressures in, {len(widths)} widths out", tag="array_lengths")
    if not np.all(np.abs(widths - mid) <= DELTA):
        i = int(np.argmax(np.abs(widths - mid)))
        raise Violation(
            f"{head}: pressures {pts['p'][i]!r}, {pts['p'][i + 1]!r} computed from the published slit HK equation for "
            f"W = {w_t[i]!r}, {w_t[i + 1]!r} nm come back as mid-point width {widths[i]!r} nm, expected {mid[i]!r} nm "
            f"(adsorbate {ads}, adsorbent {mat_ref})", tag="slit_roundtrip")
    if not np.all(np.diff(widths) >= -2 * DELTA):
        raise Violation(f"{head}: returned widths {widths.tolist()} decrease with pressure", tag="widths_decrease:hk")
    vol = pts["loading"] * ads["adsorbate_molar_mass"] / ads["liquid_density"] / 1000.0
    if not np.all(np.abs(cum - vol[1:]) <= 1e-12 * vol[1:]):
        raise Violation(f"{head}: cumulative volume {cum.tolist()} != loading*M/rho/1000 {vol[1:].tolist()}",
                        tag="cumulative_volume")
    dw, dv = np.diff(w_t), np.diff(vol)
    for i in range(len(dw)):
        if dw[i] < 40 * DELTA:
            continue
        want = dv[i] / dw[i]
        if abs(dist[i] - want) > (2 * DELTA / (dw[i] - 2 * DELTA) + 1e-9) * abs(want):
            raise Violation(f"{head}: distribution {dist[i]!r} != finite difference dV/dW = {want!r} between W = {w_t[i]!r} and "
                            f"{w_t[i + 1]!r} nm", tag="distribution")
    ctx.label(desc["api"], "material_builtin" if isinstance(desc["material"], str) else "material_dict",
              f"points_{min(len(pts['p']), 7)}")
    if pts["target"][0] - bound < 0.02:
        ctx.label("near_geometric_minimum")
    if w_t[-1] > 2.0:
        ctx.label("width_above_2nm")
    ctx.nt(desc, desc)


# ---- check: temperature law ---------------------------------------------------------------------------------------------
def check_temperature(desc, ctx):
    """Pressures transformed with p' = exp((T/T')(ln p + c) - c) (c = Cheng-Yang term, 0 without) at T' must give
    lengths that solve the equation at T."""
    model, geometry, T = desc["model"], desc["geometry"], desc["T"]
    cy = model.endswith("CY")
    fam = _fam(model)
    ads = dict(desc["adsorbate"])
    mat_ref, mat_arg, _ = _materials(desc)
    T2 = 70.0 + ((T if cy else 300.0) - 70.0) * desc["v"]
    head = f"{model}/{geometry} T={T!r} K -> T'={T2!r} K"
    box = capture_closure(model, geometry, T, ads, mat_arg)
    bound = rh.lower_bound(geometry, ads, mat_ref)
    l_max = (W_MAX + mat_ref["molecular_diameter"]) / rh.mult(geometry)
    pts = build_points(dict(desc, dip=False), box["f"], bound, l_max, cy)
    if pts is None or abs(T2 - T) < 1.0:
        ctx.label("too_few_points" if pts is None else "same_temperature")
        return
    # eff = ln p + c is increasing along the points, so ln p' = (T/T') eff - c is increasing too: points leaving the
    # pressure window form a prefix / suffix; the plateau point (Cheng-Yang only, T' <= T) keeps its pressure and with
    # it the coverage scale
    lnp2 = (T / T2) * (np.log(pts["p"]) + pts["sf"]) - pts["sf"]
    sel = (lnp2 >= LN_FLOOR) & (lnp2 <= LN_TOP) & ~pts["plateau"]
    if int(np.sum(sel)) < (1 if cy else 2):
        ctx.label("too_few_points")
        return
    if cy:
        lnp2[pts["plateau"]] = math.log(P_CAP)
        sel = sel | pts["plateau"]
    p2, load2, sf2, tgt2 = np.exp(lnp2[sel]), pts["loading"][sel], pts["sf"][sel], pts["target"][sel]
    plateau2 = pts["plateau"][sel]
    if not np.all(np.diff(p2) > 0):
        raise HarnessError("transformed pressures not increasing")
    with recording() as rec:
        _raw_fn(model)(p2.copy(), load2.copy(), T2, geometry, ads, mat_arg, use_cy=cy)
    r = _one_record(rec, head, len(p2), p2)
    f1, f2 = box["f"], r["f"]
    probs = Problems()
    jumps_t = ry_jumps(geometry, ads, mat_ref, l_max) if fam == "ry" else []
    n_checked = 0
    for i in range(len(r["L"])):
        if plateau2[i]:
            continue
        L2 = float(r["L"][i])
        lnp_T = (T2 / T) * (math.log(p2[i]) + sf2[i]) - sf2[i]  # the pressure of this point on the T scale

        def res_T(x, a=lnp_T, c=float(sf2[i])):
            return float(f1(x)) - c - a

        if solved(res_T, L2, bound):
            n_checked += 1
            continue

        def res_T2(x, a=math.log(p2[i]), c=float(sf2[i])):
            return float(f2(x)) - c - a

        if not solved(res_T2, L2, bound):
            stop = classify_stop(res_T2, L2, bound, jumps_t) if fam == "ry" else ""
            probs.add(0 if (fam == "hk" or stop == "elsewhere") else 3,
                      f"{head}: point {i}: p/p0 = {p2[i]!r}: reported L = {L2!r} nm does not solve the library's own equation "
                      f"at T' (the search stopped at: {stop or 'n/a'}) although L = {float(tgt2[i])!r} nm does",
                      f"not_a_solution:{fam}" + (f":{stop}" if fam == "ry" else ""))
            continue
        probs.add(0, f"{head}: point {i}: L = {L2!r} nm solves the equation at T' = {T2!r} K for p' = {p2[i]!r} but not the "
                     f"equation at T = {T!r} K for p = p'^(T'/T) = {math.exp(lnp_T)!r} (residual in ln p: "
                     f"{res_T(np.float64(L2)):.6g}); the potential does not scale as 1/T", "temperature_law")
    ctx.label(f"{model}/{geometry}", "T_up" if T2 > T else "T_down")
    if n_checked:
        ctx.nt(desc, desc)
    probs.raise_if_any()


# ---- check: the isotherm interface -------------------------------------------------------------------------------------
_ISO_ADSORBATES = ["nitrogen", "argon", "oxygen", "methane", "krypton", "carbon dioxide", "ethane", "xenon"]
_ISO_PRESSURE = [("relative", None), ("relative%", None), ("absolute", "bar"), ("absolute", "Pa"), ("absolute", "kPa"),
                 ("absolute", "torr"), ("absolute", "atm")]
_ISO_LOADING = [("mmol", "g", 1.0), ("mol", "g", 1e3), ("mmol", "kg", 1.0), ("kmol", "kg", 1e6)]  # (unit, material unit, mmol per unit)


def _iso_table():
    tab = {e[0]: e for e in K.backend_table()}
    return [tab[n] for n in _ISO_ADSORBATES if n in tab]


def check_isotherm(desc, ctx):
    """psd_microporous on a PointIsotherm: the solver receives the relative pressures of the selected points, every
    width solves the equation at that pressure, and the identities hold with the loading in mmol per material unit."""
    model, geometry = desc["model"], desc["geometry"]
    cy = model.endswith("CY")
    fam = _fam(model)
    iso_d = desc["iso"]
    table = _iso_table()
    entry = table[0 if iso_d["registry_model"] else iso_d["adsorbate"] % len(table)]  # registry model: nitrogen only
    name, fluid, t_lo, t_c = entry
    lo, hi = max(70.0, t_lo + 0.5), min(300.0, t_c - 2.0)
    if hi <= lo:
        raise HarnessError(f"no temperature window for {name}")
    T = lo + (hi - lo) * iso_d["t"]
    registry_model = bool(iso_d["registry_model"])
    if registry_model and name != "nitrogen":
        raise HarnessError("nitrogen is not the first isotherm adsorbate")
    adsorbate = K.get_adsorbate(name)
    if registry_model:
        ads = {k: adsorbate.properties[k] for k in ("molecular_diameter", "polarizability", "magnetic_susceptibility",
                                                    "surface_density")}
        ads["liquid_density"] = ru.rho_liq_molar(fluid, T) * ru.molar_mass(fluid)  # mol/cm3 * g/mol -> g/cm3
        ads["adsorbate_molar_mass"] = ru.molar_mass(fluid)
    else:
        ads = dict(desc["adsorbate"])
    mat_ref, mat_arg, mat_iso = _materials(desc)
    head = f"psd_microporous {model}/{geometry} {name} T={T!r} K"
    bound = rh.lower_bound(geometry, ads, mat_ref)
    l_max = (W_MAX + mat_ref["molecular_diameter"]) / rh.mult(geometry)
    pts = build_points(desc, lambda x: rh.phi(model, geometry, x, T, ads, mat_ref), bound, l_max, cy)
    if pts is None or len(pts["p"]) < 3:
        ctx.label("too_few_points")
        return
    n = len(pts["p"])
    prep = _ISO_PRESSURE[iso_d["prep"] % len(_ISO_PRESSURE)]
    # the analysis works per unit of the isotherm's own material basis: "adsorbed amount" = mmol per material unit
    lunit, munit, to_mmol = _ISO_LOADING[iso_d["lrep"] % len(_ISO_LOADING)]
    p_iso = np.array([ru.conv_pressure(float(v), ("relative", None), prep, fluid, T) for v in pts["p"]])
    l_iso = pts["loading"] / to_mmol
    iso = pygaps.PointIsotherm(
        pressure=p_iso.tolist(), loading=l_iso.tolist(), material="m-0", adsorbate=name, temperature=T,
        pressure_mode=prep[0], pressure_unit=prep[1], loading_basis="molar", loading_unit=lunit,
        material_basis="mass", material_unit=munit, temperature_unit="K")
    # limits strictly between data points (the property says nothing about open / closed ends); windows keep >= 3 points
    i0, i1 = 0, n - 1
    lim = iso_d["limits"]
    if lim == "default":  # documented default (None, 0.2)
        i1 = int(np.sum(pts["p"] < 0.2)) - 1
        p_limits = None
    else:
        if lim is not None:
            i0 = lim[0] % (n - 2)
            i1 = i0 + 2 + lim[1] % (n - 2 - i0)
        p_lo = None if i0 == 0 else math.sqrt(pts["p"][i0 - 1] * pts["p"][i0])
        p_hi = 1.0 if i1 == n - 1 else math.sqrt(pts["p"][i1] * pts["p"][i1 + 1])
        p_limits = (p_lo, p_hi)
    kwargs = dict(psd_model=model, pore_geometry=geometry, material_model=mat_iso, p_limits=p_limits)
    if not registry_model:
        kwargs["adsorbate_model"] = _reorder(ads, desc.get("key_order", 0))
    try:
        with recording() as rec:
            res = pm.psd_microporous(iso, **kwargs)
    except CalculationError:
        if i1 - i0 + 1 < 3:
            ctx.label("window_below_3_points_refused")
            return
        raise
    if i1 - i0 + 1 < 3:
        ctx.label("window_below_3_points_accepted")
    sl = slice(i0, i1 + 1)
    if tuple(int(x) for x in res["limits"]) != (i0, i1):
        raise Violation(f"{head}: limits {res['limits']} reported for p_limits {p_limits!r} placed between points "
                        f"{i0 - 1}|{i0} and {i1}|{i1 + 1} of pressures {pts['p'].tolist()}", tag="limits")
    p_sel, load_sel = pts["p"][sl], pts["loading"][sl]
    r = _one_record(rec, head, len(p_sel), p_sel, tol=ru.tol_for(prep))
    out = (res["pore_widths"], res["pore_distribution"], res["pore_volume_cumulative"])
    probs = Problems()
    # loadings as mmol/g (unit factors are exact powers of ten; 1e-12 covers the double conversion)
    sub = {k: v[sl] for k, v in pts.items() if isinstance(v, np.ndarray)}
    if cy:
        # coverage is now relative to the largest loading of the *window*
        top = load_sel[-1]
        sub["sf"] = rh.cy_term(load_sel / (1.01 * top))
        sub["eff"] = np.log(r["p"]) + sub["sf"]
        # targets are no longer solutions unless the window ends with the plateau point
        if i1 != n - 1:
            sub["plateau"] = np.ones(len(p_sel), bool)
            sub["target"] = np.full(len(p_sel), np.nan)
    w_pt = check_identities(probs, head, out, r["L"], load_sel, ads, mat_ref, geometry)
    assert_solutions(probs, ctx, head, desc, r, sub, "published", ads, mat_ref, T)
    if w_pt is not None:
        check_monotone(probs, ctx, head, w_pt, dict(sub, p=r["p"]), fam, geometry)
    ctx.label(f"{model}/{geometry}", f"pressure_{prep[0]}_{prep[1]}", "adsorbate_model_from_registry" if registry_model
              else "adsorbate_model_dict", "limits_documented_default" if lim == "default" else "limits_all" if lim is None else "limits_inside")
    ctx.nt(desc, desc)
    probs.raise_if_any()


# ---- strategies ---------------------------------------------------------------------------------------------------------
def _logu(lo, hi):
    return st.floats(0.0, 1.0).map(lambda x: float(lo * (hi / lo) ** x))


def _adsorbate():
    return st.builds(
        lambda d, a, x, n, rho, mm: {"molecular_diameter": d, "polarizability": a, "magnetic_susceptibility": x,
                                     "surface_density": n, "liquid_density": rho, "adsorbate_molar_mass": mm},
        st.floats(0.25, 0.5), _logu(2e-4, 1.2e-2), _logu(3e-9, 1.5e-7), _logu(4e18, 1.5e19), st.floats(0.1, 3.0),
        st.floats(2.0, 200.0))


def _material():
    gen = st.builds(
        lambda d, a, x, n: {"molecular_diameter": d, "polarizability": a, "magnetic_susceptibility": x, "surface_density": n},
        st.floats(0.2, 0.4), _logu(5e-4, 5e-3), _logu(5e-9, 3e-7), _logu(5e18, 5e19))
    return st.one_of(st.sampled_from(sorted(BUILTIN)), st.sampled_from(sorted(BUILTIN)), gen)


def _targets(max_n, min_n=3):
    # the last alternative: a pore essentially at the geometric minimum width (a few 1e-5 nm above it)
    one = st.one_of(st.floats(0.001, 1.0), st.floats(0.001, 0.08), st.floats(0.1, 0.6), st.floats(0.001, 1.0),
                    st.floats(0.001, 0.08), st.floats(0.1, 0.6), st.sampled_from([2e-6, 5e-6, 1e-5, 2e-5]))
    return st.integers(min_n, max_n).flatmap(lambda n: st.tuples(
        st.lists(one, min_size=n, max_size=n), st.lists(_logu(1e-3, 10.0), min_size=n, max_size=n)))


def _base(max_n=7, models=rh.MODELS, geometries=rh.GEOMETRIES, min_n=3):
    return st.builds(
        lambda model, geo, T, mat, ads, ul, kappa, zero, dip, ko: {
            "model": model, "geometry": geo, "T": T, "material": mat, "adsorbate": ads,
            # (slit: the potential is deepest at the minimum width; in curved pores that width lies on the repulsive wall)
            "u": ul[0] if geo == "slit" else [max(v, 0.001) for v in ul[0]], "dload": ul[1],
            "plateau": kappa, "zero_first": zero, "dip": dip, "key_order": ko},
        st.sampled_from(list(models)), st.sampled_from(list(geometries)), st.floats(70.0, 300.0), _material(),
        _adsorbate(), _targets(max_n, min_n), _logu(0.05, 20.0), st.sampled_from([False] * 7 + [True]),
        st.sampled_from([False, True]), st.sampled_from([0, 0, 1, 2, 3]))


def strat_solves():
    return _base()


def strat_roundtrip():
    return st.builds(lambda b, api, as_list: dict(b, api=api, as_list=as_list),
                     _base(max_n=8, models=("HK",), geometries=("slit",)), st.sampled_from(["raw", "raw", "isotherm"]),
                     st.booleans())


def strat_temperature():
    return st.builds(lambda b, v: dict(b, v=v), _base(max_n=5), st.floats(0.0, 1.0))


def strat_isotherm():
    iso = st.builds(
        lambda a, t, prep, lrep, lim, reg: {"adsorbate": a, "t": t, "prep": prep, "lrep": lrep, "limits": lim,
                                            "registry_model": reg},
        st.integers(0, 7), st.floats(0.0, 1.0), st.integers(0, 6), st.integers(0, 3),
        st.one_of(st.none(), st.just("default"), st.tuples(st.integers(0, 7), st.integers(0, 7)).map(list)),
        st.sampled_from([False, False, True]))
    return st.builds(lambda b, i: dict(b, iso=i), _base(max_n=7, min_n=5), iso)


# ---- known findings (narrow classes) ---------------------------------------------------------------------------------
def kf_cylinder_series_truncated(check_name, desc, viol):
    """Cylinder potentials (HK and RY) cut the Saito-Foley series after int(25 L) terms."""
    return viol.tag == "cylinder_series_truncated" and desc.get("geometry") == "cylinder"


def kf_cy_zero_loading(check_name, desc, viol):
    """Cheng-Yang variants: a point with zero loading gives 0*inf = NaN in the correction term; the solver returns the
    50 nm bound for it and the analysis stops there (empty result when it is the first point)."""
    return viol.tag == "cy_zero_loading" and str(desc.get("model", "")).endswith("CY") and bool(desc.get("zero_first"))


def kf_ry_not_a_solution(check_name, desc, viol):
    """Rege-Yang potentials are discontinuous (layer count) and non-monotone inside a layer band; the bounded local
    minimiser of (exp(phi(L)) - p)^2 stops at a discontinuity / local extremum (or at the upper bound 50 nm) that is
    not a solution although the equation has one inside the width range."""
    # only stops a local minimiser can legitimately make: at a layer-count jump, at a local extremum of the squared
    # residual, at a search bound ("not_a_solution:ry:elsewhere" is NOT part of the class)
    return viol.tag in ("not_a_solution:ry:jump", "not_a_solution:ry:extremum", "not_a_solution:ry:bound") \
        and str(desc.get("model", "")).startswith("RY")


def kf_ry_widths_decrease(check_name, desc, viol):
    """Rege-Yang potentials have several solutions per pressure; the solver switches between them from point to point,
    so widths decrease with pressure although the pressures were computed for increasing widths."""
    return viol.tag == f"widths_decrease:ry:{desc.get('geometry')}" and str(desc.get("model", "")).startswith("RY")


def kf_hk_repulsive_branch(check_name, desc, viol):
    """HK cylinder / sphere potentials have a minimum just above the geometric minimum; near it the solver returns the
    solution on the repulsive side (narrower than the potential minimum), where width decreases with pressure."""
    return (desc.get("geometry") in ("cylinder", "sphere") and str(desc.get("model", "")).startswith("HK") and
            viol.tag == f"widths_decrease:hk:{desc.get('geometry')}")


def kf_hk_repulsive_target_bound(check_name, desc, viol):
    """HK / HK-CY cylinder and sphere (the non-monotone potentials of KF-C17-4), second symptom: a pressure whose only
    solution inside the search range lies on the REPULSIVE wall next to the geometric minimum (the attractive-branch
    solution would be wider than 50 nm) is reported as the 50 nm search bound, which does not solve the equation.
    Matches only when the witness width really lies where the potential still falls with width (repulsive wall) and
    the reported width is the upper search bound."""
    import re
    if not (desc.get("geometry") in ("cylinder", "sphere") and str(desc.get("model", "")).startswith("HK")
            and viol.tag == "not_a_solution:hk" and "the search stopped at: bound" in viol.message):
        return False
    m_rep = re.search(r"reported L = ([0-9.eE+-]+) nm", viol.message)
    m_wit = re.search(r"although L = ([0-9.eE+-]+) nm", viol.message)
    if not (m_rep and m_wit) or float(m_rep.group(1)) < 50.0 - 1e-3:
        return False
    try:
        _, mat_arg, _ = _materials(desc)
        box = capture_closure(desc["model"], desc["geometry"], desc["T"], dict(desc["adsorbate"]), mat_arg)
        L_t = float(m_wit.group(1))
        return float(box["f"](L_t * 1.001)) < float(box["f"](L_t))  # potential still falling: repulsive wall
    except Exception:  # noqa - cannot establish the class: not known
        return False


CHECKS = [
    Check("slit_hk_roundtrip", check_slit_roundtrip, strategy=strat_roundtrip, budget={"quick": 1600, "thorough": 40000},
          rule="pressures from the harness's published slit HK equation for chosen widths; raw function and "
               "psd_microporous; returned mid-point widths, cumulative volume, distribution against the chosen widths"),
    Check("published_equation", check_published, strategy=strat_solves, budget={"quick": 480, "thorough": 9000},
          shrink_quick=False,
          rule="4 models x 3 geometries; pressures from the independently typed published equations; recorded per-point "
               "solutions must solve the closure and the typed equation; identities; monotone widths"),
    Check("own_equation", check_closure, strategy=strat_solves, budget={"quick": 320, "thorough": 6000}, shrink_quick=False,
          rule="pressures from the library's own potential closure at target lengths; recorded solutions must solve it"),
    Check("temperature_law", check_temperature, strategy=strat_temperature, budget={"quick": 240, "thorough": 4000},
          shrink_quick=False, rule="p -> exp((T/T')(ln p + c) - c) at T' gives lengths solving the equation at T"),
    Check("isotherm_interface", check_isotherm, strategy=strat_isotherm, budget={"quick": 240, "thorough": 5000},
          shrink_quick=False,
          rule="PointIsotherm in 7 pressure representations x 4 loading/material units, 8 adsorbates, limits between "
               "points, adsorbate model from the registry (nitrogen) or a dictionary"),
]
