ALL_IDS = [f"C{i:02d}" for i in range(1, 21)]
NOT_APPLICABLE = {}
CLAIMED = {
    "C01": {
        "text": "All ordered pairs and triples of the 10/27/19 representations are enumerated inside every hypothesis-drawn "
                "(adsorbate, temperature, material, value) case and compared with identity / inverse / path-independence laws "
                "and an independent canonical-form SI+CoolProp reference; refusals are generated one corrupted argument at a "
                "time. Exploration: the finite representation space is exhaustive per case, the continuum (values, "
                "temperatures, adsorbates) is sampled.",
        "note": "Trusts CoolProp PropsSI as thermophysical truth and the SI constants typed in pbt/ref_units.py; library "
                "constants rounded to 4-6 digits are accepted within 2e-4; unit_to=None on a same-basis call means keep.",
        "technique": "property-based testing: exhaustive pair/triple enumeration x hypothesis-generated operands, algebraic laws + reference model oracle",
    },
    "C20": {
        "text": "Registry part exhaustive (176 JSON entries x every name/alias x 5 case variants, unique ownership, JSON vs "
                "default.db, isotherm linkage) plus hypothesis-drawn casings; thermodynamic relations and the unit argument "
                "checked on generated (adsorbate, T1<T2, unit) against CoolProp PropsSI; fallback typing on generated user "
                "adsorbates. Exploration for the continuum, exhaustive for the registry.",
        "note": "Trusts CoolProp HEOS; temperatures in the inner 96 % of (Tt,Tc); only calculate=True paths.",
        "technique": "property-based testing: exhaustive registry enumeration + hypothesis-generated thermodynamic/fallback cases against a PropsSI reference",
    },
    "C02": {
        "text": "Model-based histories: hypothesis draws a point isotherm in any unit configuration (incl. physically "
                "handicapped ones) and 3-12 convert_* / convert / read operations with omitted, valid, wrong-table and unknown "
                "arguments; after every step the labels must be valid, the data equal the reference conversion of the original "
                "data, refusals leave the state untouched (combined convert == sequential single steps), frame and metadata "
                "are invariant, reads at knots return stored data, and a fully specified trip home restores the numbers. "
                "A second check runs all 58 fully specified single-quantity edges from generated configurations.",
        "note": "Reference = pbt/ref_units.py (SI + CoolProp PropsSI); tolerance 1e-8/step plus the documented inaccuracy of "
                "rounded table constants; whether an under-specified call is accepted or refused is left open.",
        "technique": "property-based testing: model-based operation histories (hypothesis) against a reference conversion model + invariants after every step",
    },
    "C03": {
        "text": "Hypothesis-drawn point isotherms in any stored configuration x fully specified requested representations: "
                "pressure()/loading()/loading_at()/pressure_at() must equal the reference conversion of the native numbers and "
                "a permanently converted clone read natively; foreign-unit inputs are compared conditioning-aware; branch/limit "
                "selection equals a plain python filter; the branch guess is checked for label/dtype independence and the "
                "position rule; interpolation against numpy.interp, refusal outside the range and fill rules; ModelIsotherm "
                "accessors against the bare model on reference-converted values.",
        "note": "Open finding KF-C03-1 (fraction/percent combined with a foreign material representation in accessor paths) is "
                "excluded by a narrow predicate and counted; limits strictly between data values; requests are full "
                "(mode/basis, unit) pairs per quantity.",
        "technique": "property-based testing: differential against a permanently converted clone + reference conversion model, python-filter and numpy.interp oracles, metamorphic relabelling",
    },
    "C16": {
        "text": "Hypothesis-generated increasing relative-pressure grids with non-decreasing volumes x 3 methods x pore / meniscus "
                "geometries x built-in, zero and callable thickness models x generated adsorbate property sets and limits, through "
                "the raw functions and psd_mesoporous: widths == 2(r_K+t) with an independently typed Kelvin equation, monotone, "
                "zero-thickness volume conservation, distribution x width increments == volumes, cumulative end value and "
                "running sum, single-step single peak.",
        "note": "Open finding KF-C16-1 (hemicylindrical Kelvin radius exactly 4x the Kelvin equation; pinned by an existing test "
                "table) excluded by a narrow predicate (ratio 4 within 1e-8) and counted; volumes with non-zero thickness are only "
                "constrained through the distribution, cumulative and step clauses (as the property states).",
        "technique": "property-based testing: generated isotherm branches against an independent Kelvin reference and volume-conservation identities",
    },
    "C19": {
        "text": "Hypothesis-generated van 't Hoff families (Langmuir/Toth/DS-Langmuir, dH 5-60 kJ/mol, 2-5 temperatures in any "
                "order, many common unit configurations) as model isotherms (exact recovery) and dense point isotherms "
                "(independent interpolation + interpolation error bound); Whittaker closed form lambda + dH_vap + RT and the "
                "omitted-loading set against CoolProp PropsSI for all 81 backend adsorbates; initial_enthalpy_point == first "
                "enthalpy of the branch.",
        "note": "Open finding KF-C19-2 (temperature-dependent loading representations compare different amounts) excluded by a "
                "narrow predicate; CoolProp HEOS trusted; continuous parameters derived from a hypothesis-drawn integer seed.",
        "technique": "property-based testing: synthetic-data parameter recovery with closed-form / PropsSI reference oracles",
    },
}
