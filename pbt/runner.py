"""Runner: bin/check <ID> [--tier quick|thorough] [--seed N] [--replay FILE] [--only CHECK] [--shards N]

Exit codes: 0 held on everything explored; 1 violation (prints `VIOLATION property=<id> replay=<path>`);
2 harness / setup error (never a VIOLATION line).
"""
import argparse
import importlib
import json
import math
import multiprocessing as mp
import os
import sys
import time
import traceback

from pbt import core
from pbt.core import HERE, Ctx, HarnessError, Violation, canon, derive_seed, h16, jsonable
from pbt.ledger import Ledger

NPROC = int(os.environ.get("VERIF_NPROC", "16"))

# The per-check thorough budgets were sized while the machine was shared by many builders; measured alone the
# thorough tier takes 0.5-6 min per property. They are scaled up here to use ~10-20 min each.
THOROUGH_SCALE = {"C02": 3.0, "C03": 2.5, "C04": 2.0, "C05": 2.0, "C07": 3.0, "C08": 1.5, "C09": 1.5, "C13": 3.0, "C15": 3.0,
                  "C12": 1.5}
THOROUGH_SCALE_DEFAULT = 5.0
# same for the quick tier: target ~30-60 s wall per property on 16 cores
QUICK_SCALE = {"C01": 3.0, "C02": 3.0, "C03": 2.0, "C04": 1.5, "C06": 2.5, "C07": 2.5, "C08": 2.0, "C09": 2.0, "C10": 4.0,
               "C11": 4.0, "C12": 1.5, "C13": 1.5, "C14": 5.0, "C15": 3.0, "C16": 4.0, "C17": 8.0, "C18": 6.0, "C19": 6.0,
               "C20": 6.0}


def load_prop(prop):
    return importlib.import_module(f"pbt.props.{prop}")


def _quiet_library():
    import logging
    import warnings
    warnings.filterwarnings("ignore")
    try:
        import pygaps
        pygaps.logger.setLevel(logging.CRITICAL)
        for h in list(pygaps.logger.handlers):
            h.setLevel(logging.CRITICAL)
    except Exception:
        pass
    import numpy as np
    np.seterr(all="ignore")


def _preload_library():
    """Import every pygaps submodule up front. pygaps loads model modules lazily; hypothesis harvests numeric constants
    from the source of loaded local modules whenever sys.modules grows, so without this the generated cases would depend
    on which check happened to run earlier in the same worker process."""
    import importlib
    import pkgutil
    try:
        import pygaps
        for m in pkgutil.walk_packages(pygaps.__path__, "pygaps."):
            if m.name.startswith("pygaps.cli"):
                continue
            try:
                importlib.import_module(m.name)
            except Exception:  # noqa - optional dependencies
                pass
    except Exception:  # noqa
        pass


def _task(args):
    prop, check_name, tier, seed, shard, nshards, budget_scale = args
    try:
        _quiet_library()
        _preload_library()
        mod = load_prop(prop)
        check = next(c for c in mod.CHECKS if c.name == check_name)
        ledger = Ledger()
        ctx = Ctx(prop, check.name, tier)
        if hasattr(mod, "worker_init"):
            mod.worker_init()
        if check.mode == "hyp":
            tier_scale = (THOROUGH_SCALE.get(prop, THOROUGH_SCALE_DEFAULT) if tier == "thorough"
                          else QUICK_SCALE.get(prop, 1.0))
            total = int(check.budget[tier] * budget_scale * tier_scale)
            n = max(1, math.ceil(total / nshards))
            shrink = check.shrink if tier == "thorough" else check.shrink_quick
            core.drive_hyp(check, n, derive_seed(seed, prop, check.name, shard), ctx, ledger, shrink=shrink)
        elif check.mode == "enum":
            core.drive_enum(check, tier, seed, shard, nshards, ctx, ledger)
        else:
            raise HarnessError(f"unknown mode {check.mode}")
        out = ctx.dump()
        out["shard"] = shard
        return out
    except BaseException as e:  # noqa
        return {"check": check_name, "shard": shard, "harness_error": "".join(
            traceback.format_exception(type(e), e, e.__traceback__))[-4000:]}


def shards_for(check, tier):
    if check.mode == "enum":
        n = NPROC
    else:
        n = min(NPROC, max(1, check.budget[tier] // 8))
    if check.max_shards:
        n = min(n, check.max_shards)
    return max(1, n)


def write_replay(prop, v):
    d = os.path.join(HERE, "replay", prop)
    os.makedirs(d, exist_ok=True)
    path = os.path.join(d, f"{v['check']}-{h16(v['case'])}.json")
    with open(path, "w") as f:
        json.dump({"property": prop, "check": v["check"], "case": v["case"], "seed": v.get("seed"),
                   "message": v["message"], "tag": v.get("tag", "")}, f, indent=1, sort_keys=True)
    return os.path.relpath(path, HERE)


def replay_case(mod, prop, check_name, case, ledger=None):
    """Run one stored case through its check function. Returns Violation or None."""
    check = next((c for c in mod.CHECKS if c.name == check_name), None)
    if check is None:
        raise HarnessError(f"no check {check_name} in {prop}")
    ctx = Ctx(prop, check_name, "replay")
    if hasattr(mod, "worker_init"):
        mod.worker_init()
    return core.run_case(check, case, ctx, ledger)


def main(argv=None):
    ap = argparse.ArgumentParser()
    ap.add_argument("prop")
    ap.add_argument("--tier", default=os.environ.get("VERIF_TIER") or "quick", choices=["quick", "thorough"])
    ap.add_argument("--seed", type=int, default=None)
    ap.add_argument("--replay", default=None)
    ap.add_argument("--only", default=None, help="comma separated check names")
    ap.add_argument("--scale", type=float, default=1.0, help="budget multiplier (development aid)")
    ap.add_argument("--no-evidence", action="store_true")
    a = ap.parse_args(argv)
    prop = a.prop
    seed = a.seed
    if seed is None:
        try:
            seed = int(os.environ.get("VERIF_SEED", "1") or "1")
        except ValueError:
            seed = 1
    t0 = time.perf_counter()
    try:
        _quiet_library()
        _preload_library()
        mod = load_prop(prop)
        if hasattr(mod, "self_validate"):
            mod.self_validate()
    except BaseException as e:  # noqa
        traceback.print_exc()
        print(f"HARNESS-ERROR property={prop} could not load: {e}")
        return 2

    if a.replay:
        with open(a.replay) as f:
            rec = json.load(f)
        try:
            v = replay_case(mod, prop, rec["check"], rec["case"])
        except BaseException as e:  # noqa
            traceback.print_exc()
            print(f"HARNESS-ERROR property={prop} replay failed: {e}")
            return 2
        if v is not None:
            print(f"replayed {a.replay}: {v.message}")
            print(f"VIOLATION property={prop} replay={a.replay}")
            return 1
        print(f"replayed {a.replay}: no violation")
        return 0

    ledger = Ledger()
    checks = mod.CHECKS
    if a.only:
        names = set(a.only.split(","))
        checks = [c for c in checks if c.name in names]

    violations = []
    known_lines = []
    harness_errors = []

    # --- ledger: replay the concrete cases of open findings (KNOWN-FINDING lines) and fixed ones (regressions)
    try:
        for e in ledger.open_for(prop):
            case = ledger.load_case(e)
            v = replay_case(mod, prop, case["check"], case["case"], ledger=None)
            if v is not None:
                known_lines.append(f"KNOWN-FINDING: property={prop} {e['id']} {e['what']}")
            else:
                print(f"note: known finding {e['id']} no longer reproduces on this tree")
        for e in ledger.fixed_for(prop):
            case = ledger.load_case(e)
            v = replay_case(mod, prop, case["check"], case["case"], ledger=None)
            if v is not None:
                violations.append({"check": case["check"], "case": case["case"], "seed": seed,
                                   "message": f"regression of fixed finding {e['id']}: {v.message}", "tag": v.tag})
    except BaseException as e:  # noqa
        harness_errors.append("ledger replay: " + "".join(traceback.format_exception(type(e), e, e.__traceback__))[-3000:])

    # --- the search
    tasks = []
    for c in checks:
        ns = shards_for(c, a.tier)
        for s in range(ns):
            tasks.append((prop, c.name, a.tier, seed, s, ns, a.scale))
    # expensive first does not matter much; interleave checks so that all progress
    results = []
    if not tasks:
        print(f"HARNESS-ERROR property={prop} no check selected (--only {a.only})")
        return 2
    if NPROC <= 1 or len(tasks) == 1:
        results = [_task(t) for t in tasks]
    else:
        ctxm = mp.get_context("fork")
        with ctxm.Pool(min(NPROC, len(tasks))) as pool:
            for r in pool.imap_unordered(_task, tasks, chunksize=1):
                results.append(r)

    per_check = {}
    nontrivial = set()
    for r in sorted(results, key=lambda r: (r["check"], r["shard"])):
        if "harness_error" in r:
            harness_errors.append(f"{r['check']}[{r['shard']}]: {r['harness_error']}")
            continue
        pc = per_check.setdefault(r["check"], {"evaluations": 0, "labels": {}, "nontrivial": set(), "samples": [],
                                               "excluded_known": {}, "inconclusive": 0, "violations": 0})
        pc["evaluations"] += r["evaluations"]
        for k, v in r["labels"].items():
            pc["labels"][k] = pc["labels"].get(k, 0) + v
        pc["nontrivial"].update(r["nontrivial"])
        nontrivial.update(r["nontrivial"])
        if len(pc["samples"]) < 3:
            pc["samples"].extend(r["samples"][:3 - len(pc["samples"])])
        for k, v in r["known"].items():
            pc["excluded_known"][k] = pc["excluded_known"].get(k, 0) + v
        pc["inconclusive"] += r["inconclusive"]
        for v in r["violations"]:
            pc["violations"] += 1
            violations.append(v)

    # one replay file per (check, tag) bucket, smallest case first
    buckets = {}
    for v in violations:
        key = (v["check"], v.get("tag", ""))
        if key not in buckets or len(canon(v["case"])) < len(canon(buckets[key]["case"])):
            buckets[key] = v
    replay_paths = []
    for key in sorted(buckets):
        replay_paths.append((buckets[key], write_replay(prop, buckets[key])))

    wall = time.perf_counter() - t0
    samples = []
    for c in checks:
        pc = per_check.get(c.name)
        if pc:
            for s in pc["samples"][:2]:
                samples.append({"check": c.name, "case": s})
    cov = {
        "evaluations": sum(pc["evaluations"] for pc in per_check.values()),
        "distinct_nontrivial": len(nontrivial),
        "rule": getattr(mod, "RULE", ""),
        "samples": samples[:40],
        "exhaustive": False,
        "exhaustive_subspaces": [c.name for c in checks if c.exhaustive],
        "per_check": {
            name: {
                "evaluations": pc["evaluations"],
                "distinct_nontrivial": len(pc["nontrivial"]),
                "rule": next((c.rule for c in checks if c.name == name), ""),
                "labels": dict(sorted(pc["labels"].items())),
                "excluded_known": pc["excluded_known"],
                "inconclusive": pc["inconclusive"],
                "violations": pc["violations"],
            } for name, pc in sorted(per_check.items())
        },
        "known_findings_reproduced": known_lines,
        "violation_replays": [p for _, p in replay_paths],
        "harness_errors": len(harness_errors),
    }
    ev = {
        "property_id": prop,
        "tier": a.tier,
        "seed": int(seed),
        "level": getattr(mod, "LEVEL", "exploration"),
        "coverage": cov,
        "assumptions": list(getattr(mod, "ASSUMPTIONS", [])),
        "wall_s": round(wall, 2),
        "violations": len(replay_paths),
    }
    if not a.no_evidence and not a.only:
        os.makedirs(os.path.join(HERE, "evidence"), exist_ok=True)
        tmp = os.path.join(HERE, "evidence", f"{prop}.json.tmp")
        with open(tmp, "w") as f:
            json.dump(ev, f, indent=1, sort_keys=True)
        os.replace(tmp, os.path.join(HERE, "evidence", f"{prop}.json"))

    for name, pc in sorted(per_check.items()):
        print(f"  {name}: evals={pc['evaluations']} nontrivial={len(pc['nontrivial'])} "
              f"known={sum(pc['excluded_known'].values())} inconclusive={pc['inconclusive']} "
              f"violations={pc['violations']}")
    print(f"{prop} tier={a.tier} seed={seed} evaluations={cov['evaluations']} "
          f"distinct_nontrivial={cov['distinct_nontrivial']} wall={wall:.1f}s")
    for line in known_lines:
        print(line)
    if harness_errors:
        for h in harness_errors[:5]:
            print("HARNESS-ERROR", h)
        print(f"HARNESS-ERROR property={prop} count={len(harness_errors)}")
    for v, path in replay_paths:
        print(f"  violation in {v['check']}: {v['message'][:500]}")
        print(f"VIOLATION property={prop} replay={path}")
    if replay_paths:
        return 1
    if harness_errors:
        return 2
    return 0


if __name__ == "__main__":
    sys.exit(main())
