"""C15 - characterisation results do not depend on the units the isotherm is stored in; results reported in the
isotherm's own units change by exactly the unit factors; scaling the loadings scales the extensive results."""
import math
import os

import numpy as np
from hypothesis import strategies as st

import pygaps
import pygaps.parsing as pgp
from pygaps.characterisation.alphas_plots import alpha_s
from pygaps.characterisation.area_bet import area_BET
from pygaps.characterisation.area_lang import area_langmuir
from pygaps.characterisation.dr_da_plots import da_plot, dr_plot
from pygaps.characterisation.initial_henry import initial_henry_slope, initial_henry_virial
from pygaps.characterisation.isosteric_enth import isosteric_enthalpy
from pygaps.characterisation.models_thickness import get_thickness_model
from pygaps.characterisation.psd_kernel import psd_dft
from pygaps.characterisation.psd_meso import psd_mesoporous
from pygaps.characterisation.psd_micro import psd_microporous
from pygaps.characterisation.t_plots import t_plot
from pygaps.core.material import Material
from pygaps.utilities.exceptions import CalculationError

from pbt import case as K
from pbt import ref_units as ru
from pbt.core import Check, HarnessError, Inconclusive, Violation

LEVEL = "exploration"
RULE = (
    "Cases = hypothesis-drawn (isotherm, entry-point arguments, target representation, optional loading scale factor). "
    "Isotherms: the shipped JSON samples (5 N2 77 K characterisation samples, carbon_x1_n2, the 3 n-butane isosteric "
    "samples, the MOF-5 ethane / methane samples) as stored, and synthetic point isotherms of four families (BET type II, "
    "Langmuir type I, stepwise mesoporous with a hysteresis loop, Dubinin-Astakhov microporous down to p/p0 = 1e-7) for "
    "N2 77.355 K, Ar 87.3 K, O2 90.2 K, Kr 120 K, CO2 273.15 K, on 8-40 point grids built from positive increments "
    "(ratio <= 20:1, linear or logarithmic spacing), optionally with a desorption branch, stored in a drawn source "
    "representation. Transformation: a clone is converted with convert_pressure / convert_loading / "
    "convert_temperature (the three steps in a drawn order) to a target from P(10) x non-fractional L(25) x T(2) and "
    "optionally exported to JSON and re-imported; the material representation is untouched. For alpha-s the reference "
    "isotherm and for the isosteric enthalpy every sibling isotherm is converted independently (siblings share the "
    "loading basis, which the routine requires). Oracle: result(original) == result(converted clone) field by field; "
    "initial Henry constants and the isosteric loading axis, which are reported in the isotherm's own units, change by "
    "the factor of the independent ref_units model; with a scale factor c in [1e-3, 1e3] applied to all loadings (a third "
    "of the cases) "
    "extensive fields are multiplied by c (BET/Langmuir plot slope and intercept by 1/c, the Dubinin intercept shifts "
    "by ln c) and intensive fields are unchanged. Manual pressure / thickness limits are placed strictly between "
    "neighbouring data points; a case whose automatic limit falls within rel 1e-9 of a data point is skipped "
    "(labelled). Non-trivial = the result was computed and the conversion changes the pressure mode or the loading "
    "basis of at least one isotherm involved; distinct by (check, isotherm, entry arguments, targets)."
)
ASSUMPTIONS = [
    "material-unit conversions are not part of the invariance claim (results are reported per stored material unit); "
    "fraction / percent loading targets are outside the quantifier",
    "conversions are the metamorphic transformation (their correctness is C02): the library converts the stored data "
    "and the routine converts it back with the same constants, so results agree to a few ulp per value; observed "
    "worst relative deviation on the unchanged tree 2e-13 (regressions), 7e-14 (mesopore widths), 7.5e-8 nm (HK widths)",
    "regression / closed-form outputs: rel 1e-9 times the conditioning factor of the derived quantity (e.g. C = 1 + "
    "slope/intercept is compared with rel 1e-9 * (|slope|*p_max + |intercept|) / |intercept|; an intercept with an "
    "absolute floor of 1e-9 * (|slope|*x_max + |intercept|)); arrays additionally with an absolute floor of 1e-11 * "
    "max|array|; classical mesopore recurrences rel 1e-8 with a floor of 1e-10 of the largest volume in play",
    "Horvath-Kawazoe widths come from scipy's bounded Brent minimiser (xatol 1e-5 nm): mid-point widths are compared with "
    "abs 5e-5 nm, the cumulative volume with rel 1e-9, and each pore_distribution value (a quotient dV/dw) with rel "
    "1e-9 + 4e-5 nm / |dw| where dw = dV / distribution is the width difference the library divided by",
    "DA with the exponent left free: minimize_scalar 'bounded' (xatol 1e-5): exponent abs 2e-5, the outputs that depend on "
    "the exponent rel 2e-4 (observed 1.5e-10 / 1e-9)",
    "psd_dft (non-negative least squares, exact active-set solver): fitted kernel_loading rel 1e-9, distribution and "
    "cumulative volume rel 1e-8 with a floor of 1e-9 of their maximum (the contributions solve an ill-conditioned linear "
    "system; observed worst deviation 1e-12); psd_dft is not in the property's list of entry points but produces one "
    "of the 'pore-size distributions' of its statement",
    "initial_henry_slope / initial_henry_virial run scipy least_squares with default tolerances (1e-8): the converted "
    "constant must equal factor x original within 1e-5 (slope) / 1e-4 (virial) plus the documented inaccuracy of "
    "rounded unit constants (ref_units.UNIT_INACCURACY: cm3(STP) 1.2e-4, torr/mmHg 1e-5, amu 2e-6), because the expected "
    "factor comes from the independent ref_units model",
    "CoolProp PropsSI (high level) is the source of p_sat, molar mass and saturated densities for the expected unit "
    "factors of results reported in the isotherm's own units",
    "alpha-s: the sample's pressure range lies strictly inside the reference's (documented precondition of the "
    "interpolation; a unit round trip may move an end point by one ulp); reference_area is 'BET', 'langmuir' or a number; "
    "references are point isotherms (a ModelIsotherm cannot be converted)",
    "isosteric enthalpy: sibling isotherms keep one common loading basis and the stored material basis (otherwise the "
    "routine refuses by design); loading points are the routine's default grid, which needs a common loading range "
    "(cases without one are skipped and labelled); with two isotherms correlation and standard error (0/0) are not compared",
    "automatic windows: a case whose automatic limit (Rouquerol 10 % mark or a tie in n(1-p), Langmuir 5 % / 90 % marks, "
    "the PSD defaults 0.1 / 0.99 / 0.2) lies within rel 1e-9 of a data point is skipped: the property is silent about "
    "points on a limit and a conversion moves them by an ulp",
    "HK on gases other than N2 passes an adsorbate_model dictionary (the registry only carries the HK parameters of "
    "nitrogen); liquid density and molar mass in it come from CoolProp",
    "sample data are read from $VERIF_REPO/docs/examples/data, falling back to /repo/docs/examples/data when a scratch "
    "copy holds only src/",
]

REG = 1e-9  # regression / closed-form outputs
FLOOR = 1e-11  # absolute floor for arrays, relative to the largest magnitude of the array
R_GAS = 8.31446261815324

# ---------------------------------------------------------------------------------------------------------------------
# optional deviation statistics (development aid: VERIF_C15_STATS=1 makes check functions record dev/tol maxima)
# ---------------------------------------------------------------------------------------------------------------------
STATS = {} if os.environ.get("VERIF_C15_STATS") else None


def _observe(key, dev, tol):
    if STATS is not None and tol > 0 and math.isfinite(dev):
        r = dev / tol
        if r > STATS.get(key, (0.0, 0.0))[0]:
            STATS[key] = (r, dev)


def worker_init():
    K.reset_registries()


# =====================================================================================================================
# isotherm sources
# =====================================================================================================================
SAMPLES = {
    "MCM-41": "characterisation/MCM-41 N2 77.355.json",
    "NaY": "characterisation/NaY N2 77.355.json",
    "SiO2": "characterisation/SiO2 N2 77.355.json",
    "Takeda 5A": "characterisation/Takeda 5A N2 77.355.json",
    "UiO-66(Zr)": "characterisation/UiO-66(Zr) N2 77.355.json",
    "Carbon X1": "carbon_x1_n2.json",
    "BAX-298": "isosteric/BAX 1500 - Isosteric Heat - 298.json",
    "BAX-323": "isosteric/BAX 1500 - Isosteric Heat - 323.json",
    "BAX-348": "isosteric/BAX 1500 - Isosteric Heat - 348.json",
    "MOF-5 C2H6": "iast/MOF-5(Zn) - IAST - C2H6.json",
    "MOF-5 CH4": "iast/MOF-5(Zn) - IAST - CH4.json",
}
# (the first entry of a list is what hypothesis' first, minimal example of every shard uses: a bar-stored sample)
N2_SAMPLES = ["NaY", "MCM-41", "SiO2", "Takeda 5A", "UiO-66(Zr)", "Carbon X1"]
SUPERCRITICAL = {"MOF-5 CH4"}  # no relative pressure, no volume bases
_SAMPLE_TEXT = {}


def _data_dir():
    for root in (os.environ.get("VERIF_REPO", "/repo"), "/repo"):
        d = os.path.join(root, "docs", "examples", "data")
        if os.path.isdir(os.path.join(d, "characterisation")):
            return d
    raise HarnessError("sample isotherm directory docs/examples/data not found")


def load_sample(name):
    if name not in _SAMPLE_TEXT:
        with open(os.path.join(_data_dir(), SAMPLES[name]), encoding="utf8") as f:
            _SAMPLE_TEXT[name] = f.read()
    return pgp.isotherm_from_json(_SAMPLE_TEXT[name])


# (registry name, CoolProp fluid, temperature K)
GASES = {
    "N2": ("nitrogen", "NITROGEN", 77.355),
    "Ar": ("argon", "ARGON", 87.3),
    "O2": ("oxygen", "OXYGEN", 90.2),
    "Kr": ("krypton", "KRYPTON", 120.0),
    "CO2": ("carbon dioxide", "CARBONDIOXIDE", 273.15),
}
REL = ("relative", None)
MMOL = ("molar", "mmol")

#: an adsorbate WITHOUT thermodynamic backend, described by user-supplied constants (the library's documented fallback)
USER_GAS_NAME = "verif-user-vapour"
USER_FLUID = ru.UserFluid(p_sat=9.5e4, molar_mass=40.0, rho_liq_molar=0.03, rho_vap_molar=1.2e-4)
GASES["USER"] = (USER_GAS_NAME, USER_FLUID, 90.0)
_WITH_USER_GAS = ("N2", "N2", "Ar", "O2", "Kr", "CO2", "USER", "USER")


def ensure_user_gas():
    """(Re-)register the user-defined adsorbate (reset_registries() removes it)."""
    from pygaps.core.adsorbate import Adsorbate
    from pygaps.data import ADSORBATE_LIST
    if not any(a.name == USER_GAS_NAME for a in ADSORBATE_LIST):
        Adsorbate(USER_GAS_NAME, store=True, cross_sectional_area=0.2, **ru.user_fluid_properties(USER_FLUID))


def _positions(inc):
    c = np.concatenate([[0.0], np.cumsum(np.asarray(inc, dtype=float))])
    return c / c[-1]


def _grid(lo, hi, inc, spacing):
    u = _positions(inc)
    if spacing == "log":
        p = np.exp(math.log(lo) + u * (math.log(hi) - math.log(lo)))
    else:
        p = lo + u * (hi - lo)
    p[0], p[-1] = lo, hi
    if not np.all(np.diff(p) > 0):
        raise HarnessError("pressure grid not strictly increasing")
    return p


def _curve(d, p, T, desorption=False):
    """Canonical loading [mmol per material unit] of the synthetic family at relative pressures p."""
    fam, a, b, nm = d["family"], d["a"], d["b"], d["nm"]
    p = np.asarray(p, dtype=float)
    if desorption and fam != "meso":
        p = p ** 0.9  # an upper curve that meets the adsorption curve at p -> 1
    if fam == "bet":  # a = C
        return nm * a * p / ((1.0 - p) * (1.0 - p + a * p))
    if fam == "lang":  # a = K, b = slope of a small multilayer term
        return nm * a * p / (1.0 + a * p) + 0.02 * b * nm * p
    if fam == "meso":  # monolayer-multilayer part + condensation step at pc (a) of relative width b
        pc = a * (0.8 if desorption else 1.0)
        base = nm * 50.0 * p / (1.0 + 49.0 * p) / (1.0 - 0.7 * p)
        return base + d["step"] * nm / (1.0 + np.exp(-(p - pc) / (b * pc)))
    if fam == "micro":  # Dubinin-Astakhov: a = E [kJ/mol], b = exponent
        A = R_GAS * T * np.log(1.0 / p) / 1000.0
        return nm * np.exp(-(A / a) ** b) + 0.05 * nm * p
    raise HarnessError(f"family {fam}")


def build_synthetic(d):
    name, fluid, T = GASES[d["gas"]]
    if d["gas"] == "USER":
        ensure_user_gas()
    p = _grid(d["p_lo"], d["p_hi"], d["inc"], d["spacing"])
    q = _curve(d, p, T)
    branch = [False] * len(p)
    if d.get("des"):
        fr = np.asarray(d["des"], dtype=float)  # strictly decreasing fractions of the highest pressure
        pd_ = p[-1] * fr
        pd_ = pd_[pd_ > d["p_lo"]]
        qd = _curve(d, pd_, T, desorption=True)
        p = np.concatenate([p, pd_])
        q = np.concatenate([q, qd])
        branch += [True] * len(pd_)
    if not np.all(q > 0):
        raise HarnessError("synthetic loading not positive")
    u = d["units"]
    prep, lrep, mrep = tuple(u["p"]), tuple(u["l"]), tuple(u["m"])
    P = [float(ru.conv_pressure(float(v), REL, prep, fluid, T)) for v in p]
    Q = [float(ru.conv_loading(float(v), MMOL, lrep, fluid, T)) for v in q]
    Tst = T if u["t"] == "K" else T - 273.15
    if d.get("origin"):
        # the origin recorded as the first measured point (supported by the initial-slope routines)
        P, Q, branch = [0.0] + P, [0.0] + Q, [False] + list(branch)
    return pygaps.PointIsotherm(
        pressure=P, loading=Q, branch=branch, material=Material("m-syn", density=1.7, molar_mass=420.0),
        adsorbate=name, temperature=Tst,
        **K.units_dict(prep, lrep, mrep, u["t"]))


def build_iso(d):
    if d["kind"] == "sample":
        return load_sample(d["name"])
    return build_synthetic(d)


def iso_key(d):
    if d["kind"] == "sample":
        return d["name"]
    return [d["family"], d["gas"], len(d["inc"]), round(d["nm"], 6), round(d["a"], 6), round(d["b"], 6),
            d["units"]["p"], d["units"]["l"], bool(d.get("des"))]


def fluid_T(iso):
    """(CoolProp fluid, temperature in K) of an isotherm, for the reference unit factors."""
    name = str(iso.adsorbate)
    if name == USER_GAS_NAME:
        return USER_FLUID, (float(iso._temperature) if iso.temperature_unit == "K" else float(iso._temperature) + 273.15)
    e = next((t for t in K.backend_table() if t[0] == name), None)
    if e is None:
        raise HarnessError(f"no backend entry for {name}")
    T = float(iso._temperature) if iso.temperature_unit == "K" else float(iso._temperature) + 273.15
    return e[1], T


def reps(iso):
    return ((iso.pressure_mode, iso.pressure_unit if iso.pressure_mode == "absolute" else None),
            (iso.loading_basis, iso.loading_unit))


# =====================================================================================================================
# the metamorphic transformations
# =====================================================================================================================
_ORDERS = [("p", "l", "t"), ("p", "t", "l"), ("l", "p", "t"), ("l", "t", "p"), ("t", "p", "l"), ("t", "l", "p")]


def convert_clone(iso, tgt, inplace=False):
    """A clone of `iso` converted to the target representation (and optionally through JSON). With inplace=True the
    object itself - which may already have been analysed, so its caches are filled - is converted."""
    c = iso if inplace else K.clone_point(iso)
    for step in _ORDERS[tgt.get("order", 0) % 6]:
        if step == "p":
            c.convert_pressure(mode_to=tgt["p"][0], unit_to=tgt["p"][1])
        elif step == "l":
            c.convert_loading(basis_to=tgt["l"][0], unit_to=tgt["l"][1])
        else:
            c.convert_temperature(unit_to=tgt["t"])
    got = reps(c) + (c.temperature_unit,)
    want = (tuple(tgt["p"]), tuple(tgt["l"]), tgt["t"])
    if got != want:
        raise Violation(f"after conversion to {want} the isotherm reports {got}", tag="conversion_labels")
    if tgt.get("json"):
        via = tgt.get("via") or "json"
        if via == "json":
            c = pgp.isotherm_from_json(pgp.isotherm_to_json(c))
        else:
            c = _reimport(c, via)
    return c


_DB_TEMPLATE = {}


def _ensure_db_template():
    """One empty store per run, created by the PARENT (self_validate runs before the worker pool is forked, so the workers
    inherit the path and the parent's atexit removes the directory; pool workers leave through os._exit and would never
    clean up a directory of their own). A process that did not inherit one (replay mode) makes its own."""
    if _DB_TEMPLATE.get("path") and os.path.exists(_DB_TEMPLATE["path"]):
        return
    import shutil
    import tempfile
    from pygaps.utilities.sqlite_db_creator import db_create
    tdir = tempfile.mkdtemp(prefix="c15_tpl_", dir="/dev/shm" if os.path.isdir("/dev/shm") else None)
    db_create(os.path.join(tdir, "template.db"))
    K.reset_registries()
    import atexit
    atexit.register(shutil.rmtree, tdir, True)
    _DB_TEMPLATE.update(pid=os.getpid(), path=os.path.join(tdir, "template.db"))


def _reimport(iso, via):
    """Export and re-import through CSV or a SQLite database file (a format that refuses the isotherm makes no claim)."""
    import os
    import shutil
    import tempfile
    from pygaps.utilities.exceptions import pgError
    tmp = tempfile.mkdtemp(prefix="c15_", dir="/dev/shm" if os.path.isdir("/dev/shm") else None)
    try:
        try:
            if via == "csv":
                return pgp.isotherm_from_csv(pgp.isotherm_to_csv(iso))
            if via == "xl":  # the Excel writer stores full doubles (no rounding)
                xp = os.path.join(tmp, "iso.xls")
                pgp.isotherm_to_xl(iso, xp)
                return pgp.isotherm_from_xl(xp)
            _ensure_db_template()
            path = os.path.join(tmp, "iso.db")
            shutil.copy(_DB_TEMPLATE["path"], path)
            from pygaps.parsing import sqlite as pgsql
            pgsql.isotherm_to_db(iso, db_path=path)
            got = pgsql.isotherms_from_db(db_path=path)
            if len(got) != 1:
                raise Violation(f"one isotherm uploaded to a fresh database, {len(got)} retrieved", tag="reimport:db_count")
            return got[0]
        except pgError:
            raise Inconclusive()
    finally:
        shutil.rmtree(tmp, ignore_errors=True)
        K.reset_registries()
        if str(iso.adsorbate) == USER_GAS_NAME:
            ensure_user_gas()


def scaled_clone(iso, c):
    """A copy of `iso` whose loadings are all multiplied by c."""
    d = iso.to_dict()
    d["material"] = Material(iso.material.name, **dict(iso.material.properties))
    d["adsorbate"] = str(iso.adsorbate)
    data = iso.data_raw.copy(deep=True)
    data[iso.loading_key] = data[iso.loading_key] * c
    return pygaps.PointIsotherm(isotherm_data=data, pressure_key=iso.pressure_key, loading_key=iso.loading_key, **d)


def changes_mode_or_basis(iso, tgt):
    return iso.pressure_mode != tgt["p"][0] or iso.loading_basis != tgt["l"][0]


# =====================================================================================================================
# comparison machinery: a result is normalised to {field: (value, power, rel, abs)}; power = exponent of the scale
# factor (1 extensive, 0 intensive, -1 inverse), "log" = shifts by ln c, "idx" = exact
# =====================================================================================================================
def _fmt(v):
    a = np.asarray(v)
    if a.ndim == 0:
        return repr(float(a)) if a.dtype.kind == "f" else repr(a.tolist())
    return f"[{', '.join(f'{x:.10g}' for x in a.ravel()[:4])}{', ...' if a.size > 4 else ''}] (n={a.size})"


def compare(what, entry, base, other, c=1.0, clause="units"):
    """Every field of `other` equals the field of `base` (multiplied by c**power in the scaling clause)."""
    for key in base:
        v0, power, rel, abs_ = base[key]
        tag = f"{entry}:{clause}:{key}"
        if key not in other:
            raise Violation(f"{what}: result has no {key} (fields {sorted(other)})", tag=tag + ":missing")
        v1 = other[key][0]
        if power == "idx":
            a0, a1 = np.asarray(v0), np.asarray(v1)
            if a0.shape != a1.shape or not np.array_equal(a0, a1):
                raise Violation(f"{what}: {key} = {_fmt(v1)}, expected {_fmt(v0)} (index windows / sections must be "
                                f"equal)", tag=tag)
            continue
        a0 = np.asarray(v0, dtype=float)
        a1 = np.asarray(v1, dtype=float)
        if a0.shape != a1.shape:
            raise Violation(f"{what}: {key} has shape {a1.shape}, expected {a0.shape}", tag=tag + ":shape")
        if power == "log":
            want, atol = a0 + math.log(c), np.asarray(abs_, dtype=float)
        else:
            want, atol = a0 * (c ** power), np.asarray(abs_, dtype=float) * (c ** power)
        rel_a = np.asarray(rel, dtype=float)
        if a0.size == 0:
            continue
        with np.errstate(invalid="ignore"):
            dev = np.abs(a1 - want)
            tol = np.maximum(rel_a * np.maximum(np.abs(a1), np.abs(want)), atol)
            ok = (dev <= tol) | (np.isnan(a1) & np.isnan(want)) | (a1 == want)
        if STATS is not None:
            with np.errstate(invalid="ignore", divide="ignore"):
                r = np.where(tol > 0, dev / tol, 0.0)
            if np.any(np.isfinite(r)):
                i = int(np.nanargmax(np.where(np.isfinite(r), r, -1)))
                _observe(f"{entry}:{clause}:{key}", float(np.ravel(dev)[i]) if dev.ndim else float(dev),
                         float(np.ravel(tol)[i]) if tol.ndim else float(tol))
        if not bool(np.all(ok)):
            if a0.ndim == 0:
                msg = f"{key} = {float(a1)!r}, expected {float(want)!r}"
            else:
                i = int(np.flatnonzero(~np.ravel(ok))[0])
                msg = (f"{key}[{i}] = {float(np.ravel(a1)[i])!r}, expected {float(np.ravel(want)[i])!r} "
                       f"({int(np.sum(~ok))} of {a0.size} values differ)")
            extra = f" = {c!r}**{power} x original" if clause == "scale" and power not in (0, "idx") else ""
            raise Violation(f"{what}: {msg}{extra} (rel tol {float(np.max(rel_a)):.3g})", tag=tag)
    extra_keys = [k for k in other if k not in base]
    if extra_keys:
        raise Violation(f"{what}: result has additional fields {extra_keys}", tag=f"{entry}:{clause}:{extra_keys[0]}:extra")


def afloor(*arrays):
    m = 0.0
    for a in arrays:
        a = np.asarray(a, dtype=float)
        if a.size:
            m = max(m, float(np.nanmax(np.abs(a))))
    return FLOOR * m


# =====================================================================================================================
# generators
# =====================================================================================================================
_P_ABS = [r for r in ru.P_REPS if r[0] == "absolute"]
# relative modes ~ 40 % of the draws; first entry = first example of every shard
P_TARGETS = [["relative", None]] * 3 + [["relative%", None]] * 2 + [list(r) for r in _P_ABS]
L_TARGETS = [list(r) for r in ru.L_REPS if r[1] is not None]
assert len(L_TARGETS) == 25
L_TARGETS.sort(key=lambda r: r != ["volume_liquid", "cm3"])  # stable: a basis change first, then the table order
L_BY_BASIS = {b: [r for r in L_TARGETS if r[0] == b] for b in ("molar", "mass", "volume_gas", "volume_liquid")}
P_SOURCES = [["absolute", "bar"]] * 2 + [["relative", None]] * 2 + [["absolute", "kPa"], ["absolute", "torr"],
                                                                 ["relative%", None], ["absolute", "Pa"]]
L_SOURCES = [["molar", "mmol"]] * 3 + [["molar", "cm3(STP)"], ["mass", "mg"], ["volume_liquid", "cm3"],
                                       ["volume_gas", "L"], ["molar", "mol"]]
M_SOURCES = [["mass", "g"]] * 2 + [["mass", "kg"], ["volume", "cm3"], ["molar", "mol"]]


@st.composite
def target(draw, abs_only=False, bases=None, json_share=4):
    p = draw(st.sampled_from([t for t in P_TARGETS if t[0] == "absolute"] if abs_only else P_TARGETS))
    pool = L_TARGETS if bases is None else [r for r in L_TARGETS if r[0] in bases]
    loading = draw(st.sampled_from(pool))
    return {"p": list(p), "l": list(loading), "t": draw(st.sampled_from(["K", "°C"])),
            "order": draw(st.integers(0, 5)), "json": draw(st.sampled_from([False] * (json_share - 1) + [True])),
            # when exported and re-imported: through JSON or a SQLite database file (CSV / AIF round data to 8 decimals: not a lossless route)
            "via": draw(st.sampled_from(["json", "json", "db", "xl"])),
            # analyse first, then convert THE SAME object in place and analyse again (caches filled by the first analysis)
            "inplace": draw(st.sampled_from([False, False, True]))}


def _log_uniform(lo, hi):
    return st.floats(math.log(lo), math.log(hi)).map(math.exp)


@st.composite
def scale_factor(draw, share=3):
    """None (no scaling clause) in (share-1)/share of the cases, else c in [1e-3, 1e3]."""
    if draw(st.sampled_from([True] + [False] * (share - 1))):
        if draw(st.sampled_from([False, False, False, True])):
            return draw(st.sampled_from([0.001, 2.0, 1000.0]))
        return draw(_log_uniform(1e-3, 1e3))
    return None


@st.composite
def synthetic(draw, families, gases=("N2", "N2", "Ar", "O2", "Kr", "CO2"), des_share=2, n_max=40):
    fam = draw(st.sampled_from(families))
    gas = draw(st.sampled_from(list(gases)))
    units = {"p": list(draw(st.sampled_from(P_SOURCES))), "l": list(draw(st.sampled_from(L_SOURCES))),
             "m": list(draw(st.sampled_from(M_SOURCES))), "t": draw(st.sampled_from(["K", "°C", "K"]))}
    want_des = fam == "meso" or draw(st.sampled_from([True] + [False] * (des_share - 1)))
    spacing = draw(st.sampled_from(["lin", "log"]))
    n = draw(st.one_of(st.integers(8, 16), st.integers(8, n_max)))
    d = {"kind": "syn", "family": fam, "gas": gas, "nm": draw(_log_uniform(0.1, 30.0)),
         "inc": draw(st.lists(st.floats(0.05, 1.0), min_size=n - 1, max_size=n - 1))}
    if fam == "bet":
        hi = draw(st.floats(0.3, 0.95))
        d.update(a=draw(_log_uniform(5.0, 500.0)), b=0.0, p_hi=hi, p_lo=hi * 10 ** -draw(st.floats(1.1, 3.0)),
                 spacing=spacing)
    elif fam == "lang":
        hi = draw(st.floats(0.3, 0.98))
        d.update(a=draw(_log_uniform(5.0, 5000.0)), b=draw(st.floats(0.0, 5.0)), p_hi=hi,
                 p_lo=hi * 10 ** -draw(st.floats(1.1, 4.0)), spacing=spacing)
    elif fam == "meso":
        d.update(a=draw(st.floats(0.3, 0.85)), b=draw(st.floats(0.01, 0.06)), step=draw(st.floats(0.5, 5.0)),
                 p_hi=draw(st.floats(0.9, 0.985)), p_lo=draw(st.floats(0.005, 0.08)), spacing="lin")
    else:
        d.update(a=draw(st.floats(4.0, 25.0)), b=draw(st.floats(1.2, 3.0)), p_hi=draw(st.floats(0.3, 0.95)),
                 p_lo=10 ** -draw(st.floats(4.0, 7.0)), spacing="log")
    if want_des:
        m = draw(st.integers(5, 14))
        incs = draw(st.lists(st.floats(0.05, 1.0), min_size=m, max_size=m))
        pos = np.cumsum(incs) / (sum(incs) + 0.3)  # in (0, 1)
        lo_f = d["p_lo"] / d["p_hi"]
        if d["spacing"] == "log":
            fr = np.exp(pos * math.log(lo_f))
        else:
            fr = 1.0 - pos * (1.0 - lo_f)
        d["des"] = [float(v) for v in fr]
    d["units"] = units
    return d


def sample(names):
    return st.sampled_from(list(names)).map(lambda n: {"kind": "sample", "name": n})


@st.composite
def iso_source(draw, names, families, sample_share=2, **kw):
    """Shipped sample in 1/sample_share of the draws, synthetic otherwise."""
    if draw(st.sampled_from([True] + [False] * (sample_share - 1))):
        return draw(sample(names))
    return draw(synthetic(families, **kw))


@st.composite
def limits(draw, auto_share=3):
    """None (the routine's default limits) or positional limits {"lo": None|[k, f], "hi": None|[k, f]}: k counts
    distinct data values from the respective end towards the middle as a fraction of the available span."""
    if draw(st.sampled_from(["auto"] + ["manual"] * (auto_share - 1))) == "auto":
        return None
    lo = draw(st.one_of(st.none(), st.tuples(st.floats(0.0, 0.45), st.floats(0.1, 0.9)).map(list)))
    hi = draw(st.one_of(st.none(), st.tuples(st.floats(0.0, 0.45), st.floats(0.1, 0.9)).map(list)))
    return {"lo": lo, "hi": hi}


def limit_values(x, lim, lo_default=None, hi_default=None):
    """Numeric limits strictly between neighbouring distinct values of x (sorted copy), at least 5 values inside."""
    if lim is None:
        return None
    xs = np.unique(np.asarray(x, dtype=float))
    xs = xs[np.isfinite(xs)]
    n = len(xs)
    out = []
    for side, default in (("lo", lo_default), ("hi", hi_default)):
        spec = lim[side]
        if spec is None or n < 8:
            out.append(default)
            continue
        k = 1 + int(spec[0] * (n - 6) / 0.9)  # 1 ... about half of the points may be cut on each side
        k = max(1, min(k, (n - 5) // 2))
        if side == "lo":
            a, b = xs[k - 1], xs[k]
        else:
            a, b = xs[n - k - 1], xs[n - k]
        v = float(a + spec[1] * (b - a))
        if not a < v < b:
            out.append(default)
            continue
        out.append(v)
    return out


def near_any(x, values, rel=1e-9):
    x = np.asarray(x, dtype=float)
    for v in values:
        if v is None or not v:
            continue
        if np.any(np.abs(x - v) <= rel * abs(v)):
            return True
    return False


def ordered(iso, branch):
    """Relative pressures of a branch in the order the characterisation routines use."""
    p = iso.pressure(branch=branch, pressure_mode="relative")
    if p is None:
        return None
    return p[::-1] if branch == "des" else p


def pick_branch(iso, d):
    b = d.get("branch", "ads")
    if b == "des" and not iso.has_branch("des"):
        return "ads"
    return b


# =====================================================================================================================
# the common driver
# =====================================================================================================================
def run_pair(ctx, desc, entry, what, iso, run, norm, label_extra=(), scale_ok=True, key_extra=None):
    """run(iso, role) -> raw result (or raises CalculationError), role in 'orig' | 'conv' | 'scaled';
    norm(raw, iso) -> fields."""
    tgt = desc["tgt"]
    inplace = bool(tgt.get("inplace")) and not tgt.get("json")
    outcomes = []
    if inplace:
        ctx.label("converted_in_place_after_analysis")
        analysed = iso
        iso = K.clone_point(analysed)  # an untouched copy in the original representation (labels for norm / scaling)
        try:
            outcomes.append(("ok", run(analysed, "orig")))
        except CalculationError as e:
            outcomes.append(("refused", str(e)[:120]))
        conv = convert_clone(analysed, tgt, inplace=True)
        try:
            outcomes.append(("ok", run(conv, "conv")))
        except CalculationError as e:
            outcomes.append(("refused", str(e)[:120]))
    else:
        conv = convert_clone(iso, tgt)
        for obj, role in ((iso, "orig"), (conv, "conv")):
            try:
                outcomes.append(("ok", run(obj, role)))
            except CalculationError as e:
                outcomes.append(("refused", str(e)[:120]))
    if outcomes[0][0] != outcomes[1][0]:
        raise Violation(f"{what}: original isotherm {outcomes[0][0]}, converted clone ({tgt['p']}, {tgt['l']}, "
                        f"{tgt['t']}) {outcomes[1][0]}: {[o[1] for o in outcomes if o[0] == 'refused'][0]}",
                        tag=f"{entry}:units:refusal_mismatch")
    if outcomes[0][0] == "refused":
        ctx.label("refused_both")
        raise Inconclusive()
    base = norm(outcomes[0][1], iso)
    other = norm(outcomes[1][1], conv)
    compare(f"{what} after conversion to ({tgt['p']}, {tgt['l']}, {tgt['t']}"
            f"{(', via ' + str(tgt.get('via') or 'json')) if tgt.get('json') else ''})", entry, base, other)
    c = desc.get("scale")
    if c is not None and scale_ok:
        sc = scaled_clone(iso, c)
        try:
            raw = run(sc, "scaled")
        except CalculationError as e:
            raise Violation(f"{what}: refused ({e}) after multiplying all loadings by {c!r}",
                            tag=f"{entry}:scale:refusal_mismatch")
        compare(f"{what} after multiplying all loadings by {c!r}", entry, base, norm(raw, sc), c=c, clause="scale")
        ctx.label("scaled")
    nt = changes_mode_or_basis(iso, tgt)
    ctx.label("src_" + ("sample" if desc["iso"]["kind"] == "sample" else desc["iso"]["family"]),
              f"p:{iso.pressure_mode}->{tgt['p'][0]}", f"l:{iso.loading_basis}->{tgt['l'][0]}",
              "T_unit_changed" if iso.temperature_unit != tgt["t"] else "T_unit_same",
              "via_json" if tgt.get("json") else "direct", "nontrivial" if nt else "same_mode_and_basis", *label_extra)
    if nt:
        ctx.nt([entry, iso_key(desc["iso"]), key_extra, tgt["p"], tgt["l"], tgt["t"], tgt.get("json")], desc)
    return base


# =====================================================================================================================
# BET / Langmuir
# =====================================================================================================================
def _line_fields(res, names, prel_window):
    """Fields of a linearised-plot fit (BET / Langmuir): slope, intercept (power -1), derived constants."""
    s, i = float(res[names["slope"]]), float(res[names["icpt"]])
    pmax = float(np.max(np.abs(prel_window))) if len(prel_window) else 1.0
    span = abs(s) * pmax + abs(i)
    amp_i = span / abs(i) if i != 0 else float("inf")
    amp_si = (abs(s) + abs(i)) / abs(s + i) if s + i != 0 else float("inf")
    return s, i, pmax, span, min(amp_i, 1e8), min(amp_si, 1e8)


def strat_bet():
    # categorical draws first, the isotherm (long lists) last: draws that follow long lists come out skewed
    return st.builds(lambda br, lim, tgt, sc, iso: {"iso": iso, "branch": br, "limits": lim, "tgt": tgt, "scale": sc},
                     st.sampled_from(["ads", "des", "ads"]), limits(), target(), scale_factor(),
                     iso_source(N2_SAMPLES, ["bet", "lang", "meso", "micro", "bet"], gases=_WITH_USER_GAS))


def check_bet(desc, ctx):
    iso = build_iso(desc["iso"])
    branch = pick_branch(iso, desc)
    prel = ordered(iso, branch)
    lims = limit_values(prel, desc["limits"])
    what = f"area_BET({iso_key(desc['iso'])}, branch={branch!r}, p_limits={lims})"
    if lims is None:
        # automatic (Rouquerol) window: skip data with a tie in n(1-p) or a point on the 10 % mark
        q = ordered_loading(iso, branch)
        roq = q * (1.0 - prel)
        with np.errstate(invalid="ignore", divide="ignore"):
            tie = np.any(np.abs(np.diff(roq)) <= 1e-9 * np.abs(roq[1:]))
        mx = len(prel) - 1
        for k in range(len(roq) - 1):
            if roq[k] > roq[k + 1]:
                mx = k + 1
                break
        if tie or near_any(prel, [0.1 * prel[mx]]):
            ctx.label("auto_edge_skipped:" + ("tie_in_n(1-p)" if tie else "point_on_10%_mark"))
            return
    elif near_any(prel, lims):
        ctx.label("limit_on_point_skipped")
        return

    def run(o, role=None):
        return area_BET(o, branch=branch, p_limits=lims)

    def norm(res, o):
        lo, hi = (int(v) for v in res["p_limit_indices"])
        s, i, pmax, span, amp_i, amp_si = _line_fields(res, {"slope": "bet_slope", "icpt": "bet_intercept"},
                                                       ordered(o, branch)[lo:hi + 1])
        return {
            "p_limit_indices": ((lo, hi), "idx", 0, 0),
            "bet_slope": (s, -1, REG * max(1.0, span / max(abs(s) * pmax, 1e-300)), 0.0),
            "bet_intercept": (i, -1, REG, REG * span),
            "corr_coef": (res["corr_coef"], 0, REG, REG),
            "n_monolayer": (res["n_monolayer"], 1, REG * amp_si, 0.0),
            "area": (res["area"], 1, REG * amp_si, 0.0),
            "c_const": (res["c_const"], 0, REG * amp_i, 0.0),
            "p_monolayer": (res["p_monolayer"], 0, REG * amp_i, 0.0),
        }

    run_pair(ctx, desc, "area_BET", what, iso, run, norm,
             label_extra=("branch_" + branch, "limits_auto" if lims is None else "limits_manual"),
             key_extra=[branch, lims])


def ordered_loading(iso, branch):
    q = iso.loading(branch=branch, loading_basis="molar", loading_unit="mol")
    return q[::-1] if branch == "des" else q


def strat_langmuir():
    return st.builds(lambda br, lim, tgt, sc, iso: {"iso": iso, "branch": br, "limits": lim, "tgt": tgt, "scale": sc},
                     st.sampled_from(["ads", "des", "ads"]), limits(), target(), scale_factor(),
                     iso_source(N2_SAMPLES, ["lang", "bet", "micro", "meso", "lang"], gases=_WITH_USER_GAS))


def check_langmuir(desc, ctx):
    iso = build_iso(desc["iso"])
    branch = pick_branch(iso, desc)
    prel = ordered(iso, branch)
    lims = limit_values(prel, desc["limits"])
    what = f"area_langmuir({iso_key(desc['iso'])}, branch={branch!r}, p_limits={lims})"
    edge = [0.05 * prel[-1], 0.9 * prel[-1]] if lims is None else lims  # documented default window
    if near_any(prel, edge):
        ctx.label("limit_on_point_skipped")
        return

    def run(o, role=None):
        return area_langmuir(o, branch=branch, p_limits=lims)

    def norm(res, o):
        lo, hi = (int(v) for v in res["p_limit_indices"])
        s, i, pmax, span, amp_i, amp_si = _line_fields(res, {"slope": "langmuir_slope", "icpt": "langmuir_intercept"},
                                                       ordered(o, branch)[lo:hi + 1])
        amp_s = min(span / max(abs(s) * pmax, 1e-300), 1e8)
        return {
            "p_limit_indices": ((lo, hi), "idx", 0, 0),
            "langmuir_slope": (s, -1, REG * amp_s, 0.0),
            "langmuir_intercept": (i, -1, REG, REG * span),
            "corr_coef": (res["corr_coef"], 0, REG, REG),
            "n_monolayer": (res["n_monolayer"], 1, REG * amp_s, 0.0),
            "area": (res["area"], 1, REG * amp_s, 0.0),
            "langmuir_const": (res["langmuir_const"], 0, REG * max(amp_i, amp_s), 0.0),
        }

    run_pair(ctx, desc, "area_langmuir", what, iso, run, norm,
             label_extra=("branch_" + branch, "limits_auto" if lims is None else "limits_manual"),
             key_extra=[branch, lims])


# =====================================================================================================================
# t-plot / alpha-s
# =====================================================================================================================
THICKNESS = ["Harkins/Jura", "Halsey", "SiO2 Jaroniec/Kruk/Olivier", "carbon black Kruk/Jaroniec/Gadkaree"]


def _tp_fields(results, curve, key_curve):
    """Fields of a t-plot / alpha-s result: the curve and, per straight section, the fit."""
    out = {key_curve: (curve, 0, REG, afloor(curve)), "n_sections": (len(results), "idx", 0, 0)}
    cmax = float(np.max(np.abs(curve)))
    for k, r in enumerate(results):
        s, i = float(r["slope"]), float(r["intercept"])
        span = abs(s) * cmax + abs(i)
        out[f"section[{k}]"] = (np.asarray(r["section"]), "idx", 0, 0)
        out[f"slope[{k}]"] = (s, 1, REG, REG * span / cmax)
        out[f"area[{k}]"] = (r["area"], 1, REG, REG * abs(float(r["area"])) * span / max(abs(s) * cmax, 1e-300))
        out[f"intercept[{k}]"] = (i, 1, REG, REG * span)
        out[f"adsorbed_volume[{k}]"] = (r["adsorbed_volume"], 1, REG,
                                        REG * abs(float(r["adsorbed_volume"])) * span / max(abs(i), 1e-300)
                                        if i != 0 else 0.0)
        out[f"corr_coef[{k}]"] = (r["corr_coef"], 0, REG, REG)
    return out


def strat_tplot():
    return st.builds(lambda br, model, lim, tgt, sc, iso: {"iso": iso, "branch": br, "model": model, "limits": lim,
                                                          "tgt": tgt, "scale": sc},
                     st.sampled_from(["ads", "des", "ads"]), st.sampled_from(THICKNESS), limits(), target(),
                     scale_factor(), iso_source(N2_SAMPLES, ["bet", "meso", "lang", "micro"], gases=_WITH_USER_GAS))


def check_tplot(desc, ctx):
    iso = build_iso(desc["iso"])
    branch = pick_branch(iso, desc)
    prel = ordered(iso, branch)
    model = desc["model"]
    if model not in ("Harkins/Jura", "Halsey"):
        # the two standard-isotherm curves are interpolation tables with a limited pressure range
        tab_lo, tab_hi = (1e-6, 0.99)
        if not (np.min(prel) > tab_lo and np.max(prel) < tab_hi):
            model = "Harkins/Jura"
    with np.errstate(all="ignore"):
        t0 = np.asarray(get_thickness_model(model)(np.asarray(prel, dtype=float)), dtype=float)
    lims = limit_values(t0, desc["limits"], lo_default=0.0, hi_default=float("inf")) if desc["limits"] else None
    if lims is not None and near_any(t0, [v for v in lims if v and math.isfinite(v)]):
        ctx.label("limit_on_point_skipped")
        return
    what = f"t_plot({iso_key(desc['iso'])}, {model!r}, branch={branch!r}, t_limits={lims})"

    def run(o, role=None):
        return t_plot(o, thickness_model=model, branch=branch, t_limits=None if lims is None else tuple(lims))

    def norm(res, o):
        return _tp_fields(res["results"], np.asarray(res["t_curve"], dtype=float), "t_curve")

    base = run_pair(ctx, desc, "t_plot", what, iso, run, norm,
                    label_extra=("branch_" + branch, "limits_auto" if lims is None else "limits_manual", "model_" + model),
                    key_extra=[branch, model, lims])
    if base is not None:
        ctx.label(f"sections_{min(int(base['n_sections'][0]), 3)}")


# (sample, branch, reference, reference branch) of shipped isotherms whose relative pressure ranges nest strictly
# (checked at start-up)
ALPHAS_PAIRS = [("SiO2", "ads", "NaY", "ads"), ("SiO2", "ads", "MCM-41", "ads"), ("SiO2", "ads", "Takeda 5A", "ads"),
                ("SiO2", "ads", "UiO-66(Zr)", "ads"), ("NaY", "des", "SiO2", "ads"), ("Takeda 5A", "des", "SiO2", "ads"),
                ("UiO-66(Zr)", "des", "SiO2", "ads"), ("MCM-41", "des", "MCM-41", "ads"), ("SiO2", "des", "NaY", "des"),
                ("NaY", "des", "MCM-41", "ads"), ("SiO2", "des", "Takeda 5A", "des")]
# the reference target: relative mode / molar basis in most draws (outside them the known findings apply)
REF_P_TARGETS = [["relative", None]] * 7 + [["relative%", None], ["absolute", "bar"], ["absolute", "kPa"],
                                            ["absolute", "torr"]]
REF_L_TARGETS = L_TARGETS


@st.composite
def strat_alphas(draw):
    # categorical choices first (draws that follow long lists come out skewed)
    kind = draw(st.sampled_from(["sample", "syn", "syn"]))
    d = {"area": draw(st.sampled_from(["BET", "langmuir", 312.5, "BET", "langmuir", 1])),
         "reducing": draw(st.sampled_from([None, 0.3, None, 0.5])),
         "branch": draw(st.sampled_from(["ads", "ads", "ads", "des"])),
         "branch_ref": draw(st.sampled_from(["ads", "ads", "ads", "des"])),
         "limits": draw(limits()), "scale": draw(scale_factor()), "tgt": draw(target())}
    rt = draw(target())
    rt["p"] = list(draw(st.sampled_from(REF_P_TARGETS)))
    rt["l"] = list(draw(st.sampled_from(REF_L_TARGETS)))
    d["ref_tgt"] = rt
    if kind == "sample":
        # references stored in relative pressure (MCM-41) twice as often: only they escape the known finding
        pairs = ALPHAS_PAIRS + [q for q in ALPHAS_PAIRS if q[2] == "MCM-41"] * 2
        a, ba, b, bb = draw(st.sampled_from(pairs))
        d["iso"] = {"kind": "sample", "name": a}
        d["ref"] = {"kind": "sample", "name": b}
        d["pair_branches"] = [ba, bb]
        return d
    ref_p = list(draw(st.sampled_from([["relative", None]] * 6 + [["absolute", "bar"], ["relative%", None],
                                                                 ["absolute", "kPa"]])))
    ref_l = list(draw(st.sampled_from(L_SOURCES)))
    fam = draw(st.sampled_from(["bet", "lang", "meso"]))
    src_p = list(draw(st.sampled_from(P_SOURCES)))
    src_l = list(draw(st.sampled_from(L_SOURCES)))
    src_t = draw(st.sampled_from(["K", "°C"]))
    ref = draw(synthetic(["bet", "bet", "lang"], des_share=3))
    ref["units"]["p"], ref["units"]["l"] = ref_p, ref_l
    ref["p_lo"] = min(ref["p_lo"], 0.02)
    ref["p_hi"] = max(ref["p_hi"], 0.6)
    d["ref"] = ref
    # the sample: its own curve on a sub-range of the reference's pressures
    n = draw(st.integers(8, 30))
    sub = sorted([draw(st.floats(0.02, 0.3)), draw(st.floats(0.7, 0.98))])
    d["iso"] = {"kind": "syn", "family": fam, "gas": ref["gas"],
                "nm": draw(_log_uniform(0.1, 30.0)),
                "a": draw(st.floats(0.3, 0.85)) if fam == "meso" else draw(_log_uniform(5.0, 500.0)), "b": 0.03,
                "step": 1.0, "inc": draw(st.lists(st.floats(0.05, 1.0), min_size=n - 1, max_size=n - 1)),
                "sub": sub, "spacing": "lin",
                "units": {"p": src_p, "l": src_l, "m": ref["units"]["m"], "t": src_t}}
    return d


def _alphas_isotherms(desc):
    ref = build_iso(desc["ref"])
    if desc["iso"]["kind"] == "sample":
        return build_iso(desc["iso"]), ref
    d = dict(desc["iso"])
    rp = ordered(ref, "ads")
    lo, hi = float(rp[0]), float(rp[-1])
    if ref.has_branch("des"):
        rd = ordered(ref, "des")
        lo, hi = max(lo, float(rd[0])), min(hi, float(rd[-1]))
    a, b = d["sub"]
    d["p_lo"], d["p_hi"] = lo + a * (hi - lo), lo + b * (hi - lo)
    return build_synthetic(d), ref


def check_alphas(desc, ctx):
    iso, ref = _alphas_isotherms(desc)
    if desc.get("pair_branches"):
        branch, branch_ref = desc["pair_branches"]
    else:
        branch = pick_branch(iso, desc)
        branch_ref = desc["branch_ref"] if ref.has_branch("des") else "ads"
    reducing = desc["reducing"]
    prel = ordered(iso, branch)
    pref = ordered(ref, branch_ref)
    rp = 0.4 if reducing is None else reducing
    # documented precondition: the reference covers the sample's pressures and the reducing pressure
    if not (pref[0] * (1 + 1e-9) < min(np.min(prel), rp) and max(np.max(prel), rp) < pref[-1] * (1 - 1e-9)):
        ctx.label("reference_range_too_small_skipped")
        return
    kwargs = dict(reference_area=desc["area"], branch=branch, branch_ref=branch_ref)
    if reducing is not None:
        kwargs["reducing_pressure"] = reducing
    what = (f"alpha_s({iso_key(desc['iso'])} stored {reps(iso)}, reference {iso_key(desc['ref'])} stored {reps(ref)}, "
            f"{kwargs}")
    # limits are positions on the alpha curve of the unconverted pair, taken from the library itself
    lims = None
    rt = desc["ref_tgt"]

    def run_with(o, r, lim):
        return alpha_s(o, r, t_limits=None if lim is None else tuple(lim), **kwargs)

    if desc["limits"] is not None:
        try:
            c0 = np.asarray(run_with(iso, ref, None)["alpha_curve"], dtype=float)
        except CalculationError:
            raise Inconclusive()
        lims = limit_values(c0, desc["limits"], lo_default=0.0, hi_default=float("inf"))
        if near_any(c0, [v for v in lims if v and math.isfinite(v)]):
            ctx.label("limit_on_point_skipped")
            return
    what += f", t_limits={lims})"
    ref_conv = convert_clone(ref, rt)

    def run(o, role):
        # original sample with the original reference, converted clone with the converted reference; the scaled
        # sample is analysed against the original reference
        return run_with(o, ref_conv if role == "conv" else ref, lims)

    def norm(res, o):
        return _tp_fields(res["results"], np.asarray(res["alpha_curve"], dtype=float), "alpha_curve")

    base = run_pair(
        ctx, desc, "alpha_s", what + f" with the reference converted to ({rt['p']}, {rt['l']}, {rt['t']})", iso, run,
        norm, label_extra=("branch_" + branch, "branch_ref_" + branch_ref,
                           "limits_auto" if lims is None else "limits_manual", "area_" + str(desc["area"]),
                           f"ref_p:{ref.pressure_mode}->{rt['p'][0]}", f"ref_l:{ref.loading_basis}->{rt['l'][0]}",
                           "ref_changes_mode_or_basis" if changes_mode_or_basis(ref, rt) else "ref_same_mode_and_basis"),
        key_extra=[iso_key(desc["ref"]), branch, branch_ref, desc["area"], reducing, lims, rt["p"], rt["l"]])
    if base is not None:
        ctx.label(f"sections_{min(int(base['n_sections'][0]), 3)}")
        if changes_mode_or_basis(ref, rt):
            ctx.nt(["alpha_s_ref", iso_key(desc["iso"]), iso_key(desc["ref"]), rt["p"], rt["l"], desc["tgt"]["p"]], desc)


# =====================================================================================================================
# Dubinin-Radushkevich / Dubinin-Astakhov
# =====================================================================================================================
def strat_dubinin(kind):
    exp = st.just(None) if kind == "dr" else st.sampled_from([None, None, 1.5, 2.0, 2.7])
    return st.builds(lambda br, e, lim, tgt, sc, iso: {"iso": iso, "branch": br, "exp": e, "limits": lim, "tgt": tgt,
                                                      "scale": sc},
                     st.sampled_from(["ads", "des", "ads"]), exp, limits(), target(), scale_factor(),
                     iso_source(["Takeda 5A", "UiO-66(Zr)", "Carbon X1", "NaY"], ["micro", "lang", "micro"], gases=_WITH_USER_GAS))


def _check_dubinin(desc, ctx, kind):
    iso = build_iso(desc["iso"])
    branch = pick_branch(iso, desc)
    prel = ordered(iso, branch)
    lims = limit_values(prel, desc["limits"])
    if lims is not None and near_any(prel, lims):
        ctx.label("limit_on_point_skipped")
        return
    exp = desc["exp"]
    name = "dr_plot" if kind == "dr" else "da_plot"
    what = f"{name}({iso_key(desc['iso'])}, branch={branch!r}, p_limits={lims}" + ("" if kind == "dr" else f", exp={exp}") + ")"
    free = kind == "da" and exp is None

    def run(o, role=None):
        if kind == "dr":
            return dr_plot(o, branch=branch, p_limits=lims)
        return da_plot(o, exp=exp, branch=branch, p_limits=lims)

    def norm(res, o):
        rel = 2e-4 if free else REG
        s, i = float(res["slope"]), float(res["intercept"])
        out = {
            "p_limits": (tuple(int(v) for v in res["p_limits"]), "idx", 0, 0),
            "slope": (s, 0, rel, 0.0),
            "intercept": (i, "log", rel, rel * max(abs(i), 1.0)),
            "pore_volume": (res["pore_volume"], 1, rel * max(1.0, abs(i)), 0.0),
            "adsorption_potential": (res["adsorption_potential"], 0, rel, 0.0),
            "corr_coef": (res["corr_coef"], 0, rel, rel),
        }
        if "exponent" in res:
            out["exponent"] = (res["exponent"], 0, 0.0, 2e-5)
        return out

    run_pair(ctx, desc, name, what, iso, run, norm,
             label_extra=("branch_" + branch, "limits_auto" if lims is None else "limits_manual",
                          "exp_free" if free else "exp_given"),
             key_extra=[branch, lims, exp])


def check_dr(desc, ctx):
    _check_dubinin(desc, ctx, "dr")


def check_da(desc, ctx):
    _check_dubinin(desc, ctx, "da")


# =====================================================================================================================
# mesopore PSD (pygaps-DH, BJH, DH)
# =====================================================================================================================
MESO_VARIANTS = [("pygaps-DH", "cylinder"), ("BJH", "cylinder"), ("DH", "cylinder"), ("pygaps-DH", "slit"),
                 ("BJH", "cylinder"), ("DH", "cylinder"), ("pygaps-DH", "sphere"), ("BJH", "cylinder"), ("DH", "cylinder")]


def strat_meso():
    return st.builds(
        lambda v, br, th, kel, lim, tgt, sc, iso: {"iso": iso, "model": v[0], "geometry": v[1], "branch": br,
                                                    "thickness": th, "kelvin": kel, "limits": lim, "tgt": tgt, "scale": sc},
        st.sampled_from(MESO_VARIANTS), st.sampled_from(["des", "ads"]),
        st.sampled_from(["Harkins/Jura", "Halsey", "Harkins/Jura"]), st.sampled_from(["Kelvin", "Kelvin-KJS", "Kelvin"]),
        limits(), target(), scale_factor(), iso_source(["SiO2", "MCM-41", "NaY", "UiO-66(Zr)"], ["meso", "bet", "meso"]))


def check_meso(desc, ctx):
    iso = build_iso(desc["iso"])
    branch = pick_branch(iso, desc)
    prel = ordered(iso, branch)
    lims = limit_values(prel, desc["limits"])
    if near_any(prel, [0.1, 0.99] if lims is None else lims):
        ctx.label("limit_on_point_skipped")
        return
    kelvin = desc["kelvin"]
    if kelvin == "Kelvin-KJS" and not (desc["geometry"] == "cylinder" and branch == "ads"):
        kelvin = "Kelvin"  # the KJS correction is defined for cylindrical menisci only
    args = dict(psd_model=desc["model"], pore_geometry=desc["geometry"], branch=branch,
                thickness_model=desc["thickness"], kelvin_model=kelvin, p_limits=lims)
    what = f"psd_mesoporous({iso_key(desc['iso'])}, {args})"

    def run(o, role=None):
        return psd_mesoporous(o, **args)

    def norm(res, o):
        pv = np.asarray(res["pore_volumes"], dtype=float)
        cum = np.asarray(res["pore_volume_cumulative"], dtype=float)
        # the recurrences subtract accumulated corrections from loading differences: absolute floor relative to the
        # largest volume in play
        vmax = max(float(np.max(np.abs(cum))), float(np.max(np.abs(pv))))
        pd_ = np.asarray(res["pore_distribution"], dtype=float)
        pa = np.asarray(res["pore_areas"], dtype=float)
        with np.errstate(invalid="ignore", divide="ignore"):
            # value = volume / width difference: floor of the volume carried over
            dist_floor = np.where(pv != 0, np.abs(pd_ / pv), 0.0) * (1e-10 * vmax)
            area_floor = np.where(pv != 0, np.abs(pa / pv), 0.0) * (1e-10 * vmax)
        return {
            "limits": (tuple(int(v) for v in res["limits"]), "idx", 0, 0),
            "pore_widths": (res["pore_widths"], 0, REG, 0.0),
            "pore_volumes": (pv, 1, 1e-8, 1e-10 * vmax),
            "pore_volume_cumulative": (cum, 1, 1e-8, 1e-10 * vmax),
            "pore_distribution": (pd_, 1, 1e-8, dist_floor),
            "pore_areas": (pa, 1, 1e-8, area_floor),
            "pore_area_total": (res["pore_area_total"], 1, 1e-8, float(np.sum(area_floor))),
        }

    run_pair(ctx, desc, "psd_mesoporous", what, iso, run, norm,
             label_extra=("branch_" + branch, "limits_default" if lims is None else "limits_manual",
                          f"{desc['model']}/{desc['geometry']}", "kelvin_" + kelvin),
             key_extra=[branch, lims, desc["model"], desc["geometry"], desc["thickness"], kelvin])


# =====================================================================================================================
# micropore PSD (HK, HK-CY, RY, RY-CY)
# =====================================================================================================================
MICRO_MODELS = ["HK", "HK-CY", "RY", "RY-CY"]
# all 12 combinations; the slit geometry (the default) twice
MICRO_VARIANTS = [(m, g) for g in ("slit", "cylinder", "sphere", "slit") for m in MICRO_MODELS]
# adsorbate parameter sets for gases whose registry entry lacks them (values of the HK literature; any positive set
# is a valid input of the routine)
HK_ADSORBATE = {
    "Ar": {"molecular_diameter": 0.34, "polarizability": 1.63e-3, "magnetic_susceptibility": 3.25e-8,
           "surface_density": 8.52e18},
    "O2": {"molecular_diameter": 0.346, "polarizability": 1.58e-3, "magnetic_susceptibility": 5.7e-8,
           "surface_density": 8.0e18},
    "Kr": {"molecular_diameter": 0.36, "polarizability": 2.48e-3, "magnetic_susceptibility": 4.7e-8,
           "surface_density": 7.0e18},
    "CO2": {"molecular_diameter": 0.323, "polarizability": 2.7e-3, "magnetic_susceptibility": 5.0e-8,
            "surface_density": 7.7e18},
}


def strat_micro():
    return st.builds(
        lambda v, mat, br, lim, tgt, sc, iso: {"iso": iso, "model": v[0], "geometry": v[1], "material": mat,
                                                "branch": br, "limits": lim, "tgt": tgt, "scale": sc},
        st.sampled_from(MICRO_VARIANTS),
        st.sampled_from(["Carbon(HK)", "AlSiOxideIon", "AlPhOxideIon", "Carbon(HK)"]),
        st.sampled_from(["ads", "ads", "des", "ads"]), limits(auto_share=2), target(), scale_factor(4),
        iso_source(["Takeda 5A", "UiO-66(Zr)", "Carbon X1"], ["micro", "lang", "micro"], n_max=24,
                   gases=("N2", "Ar", "N2", "O2", "Kr", "N2", "CO2")))


def check_micro(desc, ctx):
    iso = build_iso(desc["iso"])
    branch = pick_branch(iso, desc)
    prel = ordered(iso, branch)
    # every point costs one bounded minimisation (0.2 ms slit ... 10 ms Rege-Yang cylinder): cap the window
    slow = desc["model"].startswith("RY") and desc["geometry"] == "cylinder"
    cap = 12 if slow else 30
    if desc["limits"] is None and not slow and int(np.sum(prel < 0.2)) <= 70:
        lims = None  # the documented default window (None, 0.2)
    else:
        lims = limit_values(prel[prel < 0.2], desc["limits"] or {"lo": None, "hi": None}, None, 0.2)
        inside = np.unique(prel[(prel > (lims[0] or 0)) & (prel < lims[1])])
        if len(inside) > cap:
            lims[0] = float(0.5 * (inside[-cap - 1] + inside[-cap]))
    if near_any(prel, [0.2] if lims is None else lims):
        ctx.label("limit_on_point_skipped")
        return
    args = dict(psd_model=desc["model"], pore_geometry=desc["geometry"], branch=branch,
                material_model=desc["material"], p_limits=None if lims is None else tuple(lims))
    gas = desc["iso"].get("gas", "N2")
    if gas != "N2":
        _, fluid, T = GASES[gas]
        M = ru.molar_mass(fluid)
        args["adsorbate_model"] = dict(HK_ADSORBATE[gas], liquid_density=ru.rho_liq_molar(fluid, T) * M,
                                       adsorbate_molar_mass=M)
    what = f"psd_microporous({iso_key(desc['iso'])}, {args})"

    def run(o, role=None):
        return psd_microporous(o, **args)

    def norm(res, o):
        w = np.asarray(res["pore_widths"], dtype=float)
        cum = np.asarray(res["pore_volume_cumulative"], dtype=float)
        dist = np.asarray(res["pore_distribution"], dtype=float)
        vmax = float(np.max(np.abs(cum))) if cum.size else 0.0
        # distribution_i = dV_i / dw_i with dV_i = cum_i - cum_(i-1): recover |dw_i| for the quotient's tolerance
        dV = np.diff(cum)
        with np.errstate(invalid="ignore", divide="ignore"):
            dw = np.abs(dV / dist[1:])
            rel_d = np.where(np.isfinite(dw) & (dw > 0), REG + 4e-5 / dw, np.inf)
        rel_d = np.concatenate([[np.inf], rel_d])  # the first quotient's dV is not part of the result
        return {
            "limits": (tuple(int(v) for v in res["limits"]), "idx", 0, 0),
            "pore_widths": (w, 0, 0.0, 5e-5),
            "pore_volume_cumulative": (cum, 1, REG, 1e-11 * vmax),
            "pore_distribution": (dist, 1, rel_d, 0.0),
        }

    run_pair(ctx, desc, "psd_microporous", what, iso, run, norm,
             label_extra=("branch_" + branch, "limits_default" if lims is None else "limits_manual",
                          f"{desc['model']}/{desc['geometry']}", "adsorbate_registry" if gas == "N2" else "adsorbate_dict"),
             key_extra=[branch, lims, desc["model"], desc["geometry"], desc["material"]])


# =====================================================================================================================
# DFT kernel fitting
# =====================================================================================================================
def strat_dft():
    return st.builds(
        lambda lim, order, tgt, sc, iso: {"iso": iso, "limits": lim, "bspline": order, "tgt": tgt, "scale": sc},
        limits(), st.sampled_from([2, 0, 2, 3]), target(), scale_factor(),
        iso_source(["Takeda 5A", "UiO-66(Zr)", "Carbon X1", "MCM-41"], ["micro", "lang", "meso"], gases=("N2",),
                   des_share=4, n_max=30))


def check_dft(desc, ctx):
    iso = build_iso(desc["iso"])
    prel = ordered(iso, "ads")
    lims = limit_values(prel, desc["limits"])
    if lims is not None and near_any(prel, lims):
        ctx.label("limit_on_point_skipped")
        return
    args = dict(kernel="DFT-N2-77K-carbon-slit", branch="ads", p_limits=lims, bspline_order=desc["bspline"])
    what = f"psd_dft({iso_key(desc['iso'])}, {args})"

    def run(o, role=None):
        return psd_dft(o, **args)

    def norm(res, o):
        kl = np.asarray(res["kernel_loading"], dtype=float)
        cum = np.asarray(res["pore_volume_cumulative"], dtype=float)
        dist = np.asarray(res["pore_distribution"], dtype=float)
        # non-negative least squares (active-set, exact): the fitted loading is well conditioned; the contributions of
        # individual widths are the solution of an ill-conditioned linear system (kernel columns are nearly collinear)
        vmax = float(np.max(np.abs(cum)))
        return {
            "limits": (tuple(int(v) for v in res["limits"]), "idx", 0, 0),
            "pore_widths": (res["pore_widths"], 0, REG, 0.0),
            "kernel_loading": (kl, 1, REG, 1e-10 * float(np.max(np.abs(kl)))),
            # (thorough tier: a 13-point fit moved one width's contribution by 8e-8 relative after a unit round trip)
            "pore_volume_cumulative": (cum, 1, 1e-6, 1e-7 * vmax),
            "pore_distribution": (dist, 1, 1e-6, 1e-7 * float(np.max(np.abs(dist)))),
        }

    run_pair(ctx, desc, "psd_dft", what, iso, run, norm,
             label_extra=("limits_none" if lims is None else "limits_manual", f"bspline_{desc['bspline']}"),
             key_extra=[lims, desc["bspline"]])


# =====================================================================================================================
# initial Henry constants: reported in the isotherm's own units
# =====================================================================================================================
HENRY_SAMPLES = ["SiO2", "MCM-41", "NaY", "BAX-298", "BAX-323", "BAX-348", "MOF-5 C2H6", "MOF-5 CH4"]


@st.composite
def strat_henry(draw, method):
    d = {"method": method, "scale": draw(scale_factor())}
    if method == "slope":
        d["branch"] = draw(st.sampled_from(["ads", "des", "ads"]))
        d["max_adjrms"] = draw(st.sampled_from([0.02, 0.005, 0.02, 0.1]))
        d["limits"] = draw(st.sampled_from([None, "p", None, "l"]))
        d["limit_pos"] = [draw(st.floats(0.3, 0.95)), draw(st.floats(0.1, 0.9))]
    tgt_any, tgt_sup = draw(target()), draw(target(abs_only=True, bases=("molar", "mass")))
    iso = draw(iso_source(HENRY_SAMPLES, ["lang", "bet", "micro", "lang"], sample_share=2, gases=_WITH_USER_GAS))
    sup = iso["kind"] == "sample" and iso["name"] in SUPERCRITICAL
    if iso["kind"] != "sample" and method == "slope" and draw(st.sampled_from([False, False, True])):
        iso = dict(iso, origin=True)
    d["iso"], d["tgt"] = iso, (tgt_sup if sup else tgt_any)
    return d


def henry_factor(iso, conv):
    """Expected K(converted) / K(original): K = loading / pressure in the isotherm's own units."""
    fluid, T = fluid_T(iso)
    (p0, l0), (p1, l1) = reps(iso), reps(conv)
    fl = ru.conv_loading(1.0, l0, l1, fluid, T)
    fp = ru.conv_pressure(1.0, p0, p1, fluid, T)
    tol = ru.pressure_tol(p0, p1, base=0.0)
    if l0 != l1:
        tol += ru.tol_for(l0, l1, base=0.0)
    return fl / fp, tol


def _own_limit(o, branch, which, pos):
    """A limit in the isotherm's OWN units at the same position between the same two data values."""
    x = o.pressure(branch=branch) if which == "p" else o.loading(branch=branch)
    xs = np.unique(np.asarray(x, dtype=float))
    if len(xs) < 6:
        return None
    k = min(len(xs) - 1, max(4, int(pos[0] * (len(xs) - 1))))
    return float(xs[k - 1] + pos[1] * (xs[k] - xs[k - 1]))


HENRY_SOLVER_TOL = {"slope": 1e-5, "virial": 1e-4}


def _henry_slope_kwargs(o, desc, branch):
    kw = {}
    if desc["limits"]:
        lim = _own_limit(o, branch, desc["limits"], desc["limit_pos"])
        if lim is not None:
            kw["p_limits" if desc["limits"] == "p" else "l_limits"] = [0, lim]
    return kw


def _henry_run(o, desc, branch):
    if desc["method"] == "virial":
        return float(initial_henry_virial(o))
    return float(initial_henry_slope(o, branch=branch, max_adjrms=desc["max_adjrms"],
                                     **_henry_slope_kwargs(o, desc, branch)))


def check_henry(desc, ctx):
    iso = build_iso(desc["iso"])
    method = desc["method"]
    tgt = desc["tgt"]
    entry = "initial_henry_" + method
    conv = convert_clone(iso, tgt)
    factor, unit_tol = henry_factor(iso, conv)
    branch = pick_branch(iso, desc) if method == "slope" else "ads"

    def run(o, role=None):
        return _henry_run(o, desc, branch)

    what = f"{entry}({iso_key(desc['iso'])} stored {reps(iso)}" + (
        f", branch={branch!r}, max_adjrms={desc['max_adjrms']}, limits={desc['limits']}" if method == "slope" else "") + ")"
    outcomes = []
    for o in (iso, conv):
        try:
            outcomes.append(("ok", run(o)))
        except CalculationError as e:
            outcomes.append(("refused", str(e).strip()[:100]))
    if outcomes[0][0] != outcomes[1][0]:
        raise Violation(f"{what}: original {outcomes[0]}, converted to ({tgt['p']}, {tgt['l']}) {outcomes[1]}",
                        tag=f"{entry}:units:refusal_mismatch")
    if outcomes[0][0] == "refused":
        ctx.label("refused_both")
        raise Inconclusive()
    k0, k1 = outcomes[0][1], outcomes[1][1]
    solver = HENRY_SOLVER_TOL[method]
    tol = solver + unit_tol
    want = k0 * factor
    _observe(f"{entry}:units:K", abs(k1 - want), tol * abs(want))
    if not abs(k1 - want) <= tol * max(abs(k1), abs(want)):
        raise Violation(f"{what}: K = {k0!r}; after conversion to ({tgt['p']}, {tgt['l']}, {tgt['t']}) K = {k1!r}, expected "
                        f"{want!r} = K x {factor!r} (loading factor / pressure factor; rel tol {tol:.3g})",
                        tag=f"{entry}:units:K")
    c = desc.get("scale")
    if c is not None:
        sc = scaled_clone(iso, c)
        try:
            k2 = run(sc)
        except CalculationError as e:
            raise Violation(f"{what}: refused ({e}) after multiplying all loadings by {c!r}",
                            tag=f"{entry}:scale:refusal_mismatch")
        _observe(f"{entry}:scale:K", abs(k2 - c * k0), solver * abs(c * k0))
        if not abs(k2 - c * k0) <= solver * max(abs(k2), abs(c * k0)):
            raise Violation(f"{what}: K = {k0!r}; after multiplying all loadings by {c!r} K = {k2!r}, expected {c * k0!r}",
                            tag=f"{entry}:scale:K")
        ctx.label("scaled")
    nt = changes_mode_or_basis(iso, tgt)
    ctx.label("src_" + ("sample" if desc["iso"]["kind"] == "sample" else desc["iso"]["family"]),
              f"p:{iso.pressure_mode}->{tgt['p'][0]}", f"l:{iso.loading_basis}->{tgt['l'][0]}",
              "via_json" if tgt.get("json") else "direct", "nontrivial" if nt else "same_mode_and_basis")
    if method == "slope":
        ctx.label("branch_" + branch, f"limits_{desc['limits']}")
    if nt:
        ctx.nt([entry, iso_key(desc["iso"]), tgt["p"], tgt["l"], tgt["t"], desc.get("branch"), desc.get("limits")], desc)


# =====================================================================================================================
# isosteric enthalpy
# =====================================================================================================================
# (registry name, range of the lowest temperature [K]); the highest is at most 60 K above and stays below 0.97 Tc
ISOSTERIC_GASES = [("n-butane", 280.0, 330.0), ("propane", 230.0, 280.0), ("ethane", 200.0, 230.0),
                   ("carbon dioxide", 220.0, 235.0)]


@st.composite
def strat_isosteric(draw):
    d = {"kind": draw(st.sampled_from(["sample", "syn", "syn"]))}
    if d["kind"] == "sample":
        d["members"] = draw(st.sampled_from([[0, 1, 2], [0, 1, 2], [0, 1], [1, 2], [0, 2], [2, 0, 1]]))
        n = len(d["members"])
    else:
        n = draw(st.sampled_from([2, 3, 3, 4]))
        d["gas"], t_lo, t_hi = draw(st.sampled_from(ISOSTERIC_GASES))
        d["T0"] = draw(st.floats(t_lo, t_hi))
        d["dT"] = [draw(st.floats(8.0, 20.0)) for _ in range(n - 1)]
        d["dH"] = draw(st.floats(10.0, 45.0))  # kJ/mol
        d["nm"] = draw(_log_uniform(0.5, 20.0))
        d["K0"] = draw(_log_uniform(0.05, 50.0))  # 1/bar at T0
        d["t_exp"] = draw(st.sampled_from([1.0, 1.0, 0.6]))  # Toth-like heterogeneity
        m = draw(st.integers(10, 30))
        d["inc"] = draw(st.lists(st.floats(0.05, 1.0), min_size=m - 1, max_size=m - 1))
        d["p_hi"] = draw(st.floats(0.5, 5.0))  # bar
        d["src_l"] = list(draw(st.sampled_from([["molar", "mmol"]] * 3 + [["mass", "mg"], ["molar", "cm3(STP)"]])))
        d["src_p"] = [list(draw(st.sampled_from(P_SOURCES))) for _ in range(n)]
    # one common target loading basis (the routine refuses mixed bases), units drawn per sibling
    basis = draw(st.sampled_from(["molar"] * 4 + ["mass"] * 3 + ["volume_liquid", "volume_gas"]))
    tg = []
    for _ in range(n):
        t = draw(target())
        t["l"] = list(draw(st.sampled_from(L_BY_BASIS[basis])))
        tg.append(t)
    d["tgts"] = tg
    d["scale"] = draw(scale_factor())
    return d


def _isosteric_isotherms(d):
    if d["kind"] == "sample":
        names = ["BAX-298", "BAX-323", "BAX-348"]
        return [load_sample(names[k]) for k in d["members"]]
    entry = next(e for e in K.backend_table() if e[0] == d["gas"])
    fluid = entry[1]
    Ts = [d["T0"]]
    for x in d["dT"]:
        Ts.append(Ts[-1] + x)
    out = []
    for j, T in enumerate(Ts):
        if not (entry[2] < T < 0.97 * entry[3]):
            raise Inconclusive()
        Kt = d["K0"] * math.exp(d["dH"] * 1000.0 / R_GAS * (1.0 / T - 1.0 / d["T0"]))
        p_bar = _grid(d["p_hi"] * 1e-3, d["p_hi"], d["inc"], "log")
        p_bar = p_bar[p_bar * 1e5 < 0.9 * ru.p_sat(fluid, T)]
        if len(p_bar) < 6:
            raise Inconclusive()
        q = d["nm"] * Kt * p_bar / (1.0 + (Kt * p_bar) ** d["t_exp"]) ** (1.0 / d["t_exp"])
        prep, lrep = tuple(d["src_p"][j]), tuple(d["src_l"])
        P = [float(ru.conv_pressure(float(v), ("absolute", "bar"), prep, fluid, T)) for v in p_bar]
        Q = [float(ru.conv_loading(float(v), MMOL, lrep, fluid, T)) for v in q]
        out.append(pygaps.PointIsotherm(pressure=P, loading=Q, branch="ads", material=Material("m-iso"),
                                        adsorbate=d["gas"], temperature=T, **K.units_dict(prep, lrep, ("mass", "g"))))
    return out


def check_isosteric(desc, ctx):
    isos = _isosteric_isotherms(desc)
    tgts = desc["tgts"]
    # precondition of the default loading grid: the isotherms share a loading range
    mins = [float(np.min(i.loading(branch="ads", loading_basis="molar", loading_unit="mmol"))) for i in isos]
    maxs = [float(np.max(i.loading(branch="ads", loading_basis="molar", loading_unit="mmol"))) for i in isos]
    if not 1.05 * max(mins) < 0.95 * min(maxs):
        ctx.label("no_common_loading_range_skipped")
        return
    inplace = bool(tgts[0].get("inplace")) and not any(t.get("json") for t in tgts)
    labels_of = [K.clone_point(i) for i in isos] if inplace else isos
    convs = None if inplace else [convert_clone(i, t) for i, t in zip(isos, tgts)]
    what = (f"isosteric_enthalpy({'BAX 1500 samples ' + str(desc['members']) if desc['kind'] == 'sample' else desc['gas']}"
            f" stored {[reps(i) for i in isos]})")

    def run(group):
        return isosteric_enthalpy(group)

    outcomes = []
    for k in (0, 1):
        if k == 1 and inplace:
            # the same, already analysed objects are converted in place
            ctx.label("converted_in_place_after_analysis")
            convs = [convert_clone(i, t, inplace=True) for i, t in zip(isos, tgts)]
            isos = labels_of
        g = isos if k == 0 else convs
        try:
            outcomes.append(("ok", run(g)))
        except CalculationError as e:
            outcomes.append(("refused", str(e)[:100]))
    if outcomes[0][0] != outcomes[1][0]:
        raise Violation(f"{what}: original {outcomes[0][0]}, converted {outcomes[1][0]}", tag="isosteric:units:refusal_mismatch")
    if outcomes[0][0] == "refused":
        raise Inconclusive()
    fluid, T0 = fluid_T(isos[0])
    l0, l1 = reps(isos[0])[1], reps(convs[0])[1]
    fl = ru.conv_loading(1.0, l0, l1, fluid, T0)
    ltol = ru.tol_for(l0, l1, base=REG) if l0 != l1 else REG

    def norm(res, factor=1.0):
        h = np.asarray(res["isosteric_enthalpy"], dtype=float)
        sl = np.asarray(res["slopes"], dtype=float)
        out = {
            "isosteric_enthalpy": (h, 0, 1e-7, 1e-7 * float(np.max(np.abs(h)))),
            "slopes": (sl, 0, 1e-7, 1e-7 * float(np.max(np.abs(sl)))),
            "loading": (np.asarray(res["loading"], dtype=float) * factor, 1, ltol if factor != 1.0 else REG, 0.0),
        }
        if len(isos) > 2:  # a line through two points: correlation +-1 and a 0/0 standard error
            out["correlation"] = (res["correlation"], 0, 1e-6, 1e-6)
            out["std_errs"] = (res["std_errs"], 0, 1e-4, 1e-7 * float(np.max(np.abs(h))))
        return out

    base = norm(outcomes[0][1], fl)  # the loading axis is reported in the first isotherm's own units
    other = norm(outcomes[1][1])
    compare(f"{what} after converting the isotherms to {[(t['p'], t['l'], t['t']) for t in tgts]}", "isosteric", base, other)
    c = desc.get("scale")
    if c is not None:
        sc = [scaled_clone(i, c) for i in isos]
        try:
            raw = run(sc)
        except CalculationError as e:
            raise Violation(f"{what}: refused ({e}) after multiplying all loadings by {c!r}",
                            tag="isosteric:scale:refusal_mismatch")
        compare(f"{what} after multiplying all loadings by {c!r}", "isosteric", norm(outcomes[0][1]), norm(raw), c=c,
                clause="scale")
        ctx.label("scaled")
    nt = any(changes_mode_or_basis(i, t) for i, t in zip(isos, tgts))
    ctx.label("src_" + desc["kind"], f"n_isotherms_{len(isos)}", "l_basis:" + l0[0] + "->" + l1[0],
              "p_modes_mixed" if len({t["p"][0] for t in tgts}) > 1 else "p_modes_equal:" + tgts[0]["p"][0],
              "nontrivial" if nt else "same_mode_and_basis")
    if nt:
        ctx.nt(["isosteric", desc["kind"], desc.get("members"), desc.get("gas"), len(isos),
                [(t["p"], t["l"], t["t"]) for t in tgts]], desc)


# =====================================================================================================================
# class predicates of the open known findings (findings/pending/C15.json)
# =====================================================================================================================
def _ref_stored(desc):
    """(pressure mode, loading basis) the alpha-s reference isotherm is stored in."""
    r = desc["ref"]
    if r["kind"] == "sample":
        return ("relative" if r["name"] == "MCM-41" else "absolute"), "molar"
    return r["units"]["p"][0], r["units"]["l"][0]


def kf_alphas_reference_pressure_mode(check_name, desc, viol):
    """alpha_s hands the sample's RELATIVE pressures to reference.loading_at(pressure_unit=<sample unit>) without a
    pressure mode: a reference stored (before or after its conversion) in absolute or relative% mode is looked up at
    the wrong pressures (wrong alpha curve, or ValueError when they fall outside its range)."""
    if check_name != "alpha_s":
        return False
    modes = {_ref_stored(desc)[0], desc["ref_tgt"]["p"][0]}
    return modes != {"relative"} and (
        viol.tag in ("alpha_s:units:alpha_curve", "alpha_s:units:n_sections")
        or viol.tag.startswith("crash:ValueError:src/pygaps/utilities/isotherm_interpolator.py"))


def kf_isosteric_tdep_loading(check_name, desc, viol):
    """isosteric_enthalpy holds the stored loading NUMBER constant across the isotherms; in a gas / liquid volume
    representation the same number is a different amount at each temperature."""
    if check_name != "isosteric":
        return False
    bases = {t["l"][0] for t in desc["tgts"]}
    if desc["kind"] == "syn":
        bases.add(desc["src_l"][0])
    return bool(bases & {"volume_gas", "volume_liquid"}) and viol.tag in (
        "isosteric:units:loading", "isosteric:units:isosteric_enthalpy", "isosteric:units:slopes",
        "isosteric:units:correlation", "isosteric:units:std_errs")


def _henry_data(o, desc, branch):
    """The rows initial_henry_slope works on, in the isotherm's own units (same selection rules)."""
    kw = _henry_slope_kwargs(o, desc, branch)
    if kw:
        p = o.pressure(branch=branch, indexed=True, limits=kw.get("p_limits") or [-np.inf, np.inf])
        q = o.loading(branch=branch, indexed=True, limits=kw.get("l_limits") or [-np.inf, np.inf])
        p, q = p.align(q, join="inner")
        p, q = p.values.astype(float), q.values.astype(float)
    else:
        p, q = np.asarray(o.pressure(branch=branch), dtype=float), np.asarray(o.loading(branch=branch), dtype=float)
    if p[0] != 0 and q[0] != 0:
        p, q = np.hstack(([0.0], p)), np.hstack(([0.0], q))
    return p, q


def _henry_loop(p, q, max_adjrms, fit):
    """The row-dropping rule of initial_henry_slope around a fit(p, q) -> (K, rmse relative to the loading range)."""
    rows = len(p)
    while True:
        k, rmse = fit(p[:rows], q[:rows])
        if rmse > max_adjrms and rows > 2:
            rows -= 1
            continue
        return k


def _henry_model_not_converged(o, desc, branch):
    """Does the library's Henry MODEL fit (scipy least_squares on the raw numbers), driven through the row-dropping
    rule on this isotherm's own-unit data, miss the closed-form least-squares constant K = sum(p n) / sum(p^2)?"""
    from pygaps.modelling import get_isotherm_model
    p, q = _henry_data(o, desc, branch)
    rng = float(np.max(q) - np.min(q))

    def exact(pp, qq):
        k = float(np.sum(pp * qq) / np.sum(pp ** 2))
        return k, math.sqrt(float(np.sum((k * pp - qq) ** 2)) / len(pp)) / rng

    henry = get_isotherm_model("Henry")
    henry.pressure_range = [min(p), max(p)]
    henry.loading_range = [min(q), max(q)]

    def lib(pp, qq):
        henry.fit(pp, qq, henry.initial_guess(pp, qq))
        return float(henry.params["K"]), float(henry.rmse)

    k_ls = _henry_loop(p, q, desc["max_adjrms"], exact)
    k_lib = _henry_loop(p, q, desc["max_adjrms"], lib)
    return abs(k_lib - k_ls) > 0.25 * HENRY_SOLVER_TOL["slope"] * abs(k_ls)


def _virial_model_not_converged(o):
    """Does the library's Virial MODEL fit on this isotherm's own-unit data miss the K of the least-squares cubic
    ln(p/n) = -ln K + A n + B n^2 + C n^3 (solved here by QR on scaled loadings)?"""
    p, q = np.asarray(o.pressure(branch="ads"), dtype=float), np.asarray(o.loading(branch="ads"), dtype=float)
    m = (p > 0) & (q > 0)
    p, q = p[m], q[m]
    x = q / np.max(q)
    A = np.column_stack([np.ones_like(x), x, x ** 2, x ** 3])
    coef, *_ = np.linalg.lstsq(A, np.log(p / q), rcond=None)
    k_ls = math.exp(-float(coef[0]))
    k_lib = float(pygaps.ModelIsotherm.from_pointisotherm(o, model="Virial").model.params["K"])
    return abs(k_lib - k_ls) > 0.25 * HENRY_SOLVER_TOL["virial"] * abs(k_ls)


def _henry_fit_not_converged(check_name, desc, viol, method):
    """True when, on one of the two isotherms the violated clause compares, the library's model fit does not reach
    the least-squares minimum of that isotherm's own data (beyond a quarter of the check's solver tolerance)."""
    if check_name != "henry_" + method:
        return False
    entry = "initial_henry_" + method
    if viol.tag not in (entry + ":units:K", entry + ":scale:K"):
        return False
    iso = build_iso(desc["iso"])
    other = scaled_clone(iso, desc["scale"]) if viol.tag.endswith(":scale:K") else convert_clone(iso, desc["tgt"])
    branch = pick_branch(iso, desc) if method == "slope" else "ads"
    for o in (iso, other):
        if (_henry_model_not_converged(o, desc, branch) if method == "slope" else _virial_model_not_converged(o)):
            return True
    return False


def kf_henry_slope_small_numbers(check_name, desc, viol):
    """initial_henry_slope fits with scipy least_squares on the raw numbers; its absolute gradient tolerance stops the
    fit before the least-squares minimum when the stored loadings are small numbers (e.g. mol or kg per g): K is off by
    1e-4 ... x280. Class: on the own-unit numbers of one of the two isotherms compared, the library's Henry model fit
    does not reach the closed-form least-squares constant."""
    return _henry_fit_not_converged(check_name, desc, viol, "slope")


def kf_henry_virial_loading_scale(check_name, desc, viol):
    """Virial.fit regresses ln(p/n) on n, n^2, n^3 with the raw numbers: when the stored loadings are not of order
    1-100 the columns are badly scaled and least_squares stops before the minimum (K off by 1e-4 ... x450). Class: on
    the own-unit numbers of one of the two isotherms compared, the library's Virial model fit does not reach the
    least-squares constant."""
    return _henry_fit_not_converged(check_name, desc, viol, "virial")


KNOWN_PREDICATES = [kf_alphas_reference_pressure_mode, kf_isosteric_tdep_loading,
                    kf_henry_slope_small_numbers, kf_henry_virial_loading_scale]


# =====================================================================================================================
# start-up validation of the harness's own assumptions
# =====================================================================================================================
def self_validate():
    problems = ru.check_names_against_library()
    if problems:
        raise HarnessError("; ".join(problems))
    _ensure_db_template()
    K.reset_registries()
    for name in SAMPLES:
        iso = load_sample(name)
        if not isinstance(iso, pygaps.PointIsotherm):
            raise HarnessError(f"sample {name} is not a point isotherm")
    # the shipped alpha-s pairs nest in relative pressure
    for a, ba, b, bb in ALPHAS_PAIRS:
        pa = ordered(load_sample(a), ba)
        pb = ordered(load_sample(b), bb)
        if not (pb[0] * (1 + 1e-6) < min(np.min(pa), 0.3) and max(np.max(pa), 0.5) < pb[-1] * (1 - 1e-6)):
            raise HarnessError(f"alpha-s pair {a}[{ba}]/{b}[{bb}]: reference does not cover the sample")
    # the reference Henry factor is the quotient of the unit factors
    iso = load_sample("SiO2")
    conv = convert_clone(iso, {"p": ["absolute", "kPa"], "l": ["molar", "mol"], "t": "K", "order": 0})
    f, _ = henry_factor(iso, conv)
    if abs(f - 1e-3 / 100.0) > 1e-18:
        raise HarnessError(f"henry factor self check: {f}")


CHECKS = [
    Check("area_bet", check_bet, strategy=strat_bet, budget={"quick": 320, "thorough": 8000},
          rule="area_BET: automatic (Rouquerol) and manual windows, both branches"),
    Check("area_langmuir", check_langmuir, strategy=strat_langmuir, budget={"quick": 320, "thorough": 8000},
          rule="area_langmuir: default and manual windows, both branches"),
    Check("t_plot", check_tplot, strategy=strat_tplot, budget={"quick": 320, "thorough": 8000},
          rule="t_plot: 4 thickness models, automatic sections and manual thickness limits"),
    Check("alpha_s", check_alphas, strategy=strat_alphas, budget={"quick": 480, "thorough": 10000}, shrink_quick=False,
          rule="alpha_s: sample and reference converted independently; reference area BET / langmuir"),
    Check("dr_plot", check_dr, strategy=lambda: strat_dubinin("dr"), budget={"quick": 192, "thorough": 6000},
          rule="dr_plot"),
    Check("da_plot", check_da, strategy=lambda: strat_dubinin("da"), budget={"quick": 192, "thorough": 6000},
          rule="da_plot with a given and with a fitted exponent"),
    Check("psd_meso", check_meso, strategy=strat_meso, budget={"quick": 400, "thorough": 10000},
          rule="psd_mesoporous: pygaps-DH (3 geometries), BJH, DH; Kelvin / Kelvin-KJS; default and manual limits"),
    Check("psd_micro", check_micro, strategy=strat_micro, budget={"quick": 320, "thorough": 6000}, shrink_quick=False,
          rule="psd_microporous: HK, HK-CY, RY, RY-CY x slit / cylinder / sphere x 3 adsorbent models"),
    Check("psd_dft", check_dft, strategy=strat_dft, budget={"quick": 192, "thorough": 6000},
          rule="psd_dft with the shipped N2 77 K carbon slit kernel"),
    Check("henry_slope", check_henry, strategy=lambda: strat_henry("slope"), budget={"quick": 256, "thorough": 5000},
          rule="initial_henry_slope: K changes by loading factor / pressure factor"),
    Check("henry_virial", check_henry, strategy=lambda: strat_henry("virial"), budget={"quick": 192, "thorough": 5000},
          shrink_quick=False, rule="initial_henry_virial: K changes by loading factor / pressure factor"),
    Check("isosteric", check_isosteric, strategy=strat_isosteric, budget={"quick": 256, "thorough": 5000},
          shrink_quick=False, rule="isosteric_enthalpy: every sibling converted independently (common loading basis)"),
]
