"""Reference IAST solver for C13 (independent of the library's n-1 dimensional `lm` root search).

One-dimensional monotone formulation: for pure-component reduced spreading pressures Pi_i(p) (strictly increasing,
Pi_i(0)=lowest value) the IAST equations

    Pi_i(p_i / x_i) = pi  for all i,      sum_i x_i = 1

are equivalent to   F(pi) = sum_i p_i / p0_i(pi) - 1 = 0   with p0_i(pi) = Pi_i^{-1}(pi).  F is strictly decreasing in
pi, positive at pi_lo = max_i Pi_i(p_i) (there the arg-max component alone contributes 1) and non-positive at
pi_hi = max_i Pi_i(sum_j p_j) (there every p0_i >= total pressure).  Both the inner inversions and the outer root are
bracketed `brentq` searches in logarithmic variables, so there is no starting guess and trace components (x ~ 1e-12)
are resolved to full relative precision.

A pure component is anything with `.sp(p)` (reduced spreading pressure), `.load(p)` (loading) and `.pmax`
(upper end of its domain, inf for models).
"""
import math

import numpy as np
from scipy.optimize import brentq

U_MAX = 200.0  # ln of the largest fictitious pressure considered (7e86)


class OutOfDomain(Exception):
    """The mixture has no IAST solution inside the domain of the pure isotherms (e.g. beyond the last data point)."""


class ModelPure:
    """A ModelIsotherm seen through its own spreading_pressure_at / loading_at (the property is stated 'for the given
    pure-component isotherms')."""

    def __init__(self, iso):
        self.iso = iso
        self.pmax = math.inf
        self.pmin = 0.0

    def sp(self, p):
        try:
            return float(self.iso.spreading_pressure_at(p))
        except (OverflowError, ZeroDivisionError) as e:  # (K p)**t beyond the float range inside the model
            raise OutOfDomain(str(e))

    def load(self, p):
        try:
            return float(self.iso.loading_at(p))
        except (OverflowError, ZeroDivisionError) as e:
            raise OutOfDomain(str(e))


class FuncPure:
    def __init__(self, sp, load, pmax=math.inf):
        self.sp = sp
        self.load = load
        self.pmax = pmax
        self.pmin = 0.0


class PointPure:
    """Independent implementation of the documented point-isotherm definition: Henry's law from 0 to the first data
    point, linear interpolation of the data afterwards; Pi(p) = int_0^p n(q)/q dq in closed form per segment."""

    def __init__(self, pressure, loading):
        P = np.asarray(pressure, dtype=float)
        L = np.asarray(loading, dtype=float)
        self.P, self.L = P, L
        self.pmin = float(P[0])
        self.pmax = float(P[-1])
        self.slope = np.diff(L) / np.diff(P)
        self.icpt = L[:-1] - self.slope * P[:-1]
        seg = self.slope * np.diff(P) + self.icpt * np.log(P[1:] / P[:-1])
        self.cum = np.concatenate([[L[0]], L[0] + np.cumsum(seg)])  # Pi at every knot

    def load(self, p):
        if p > self.pmax * (1 + 1e-12):
            raise OutOfDomain("beyond last data point")
        if p <= self.P[0]:
            return float(self.L[0] / self.P[0] * p)
        return float(np.interp(p, self.P, self.L))

    def sp(self, p):
        if p > self.pmax * (1 + 1e-12):
            raise OutOfDomain("beyond last data point")
        if p <= self.P[0]:
            return float(self.L[0] / self.P[0] * p)
        k = int(np.searchsorted(self.P, p, side="left")) - 1  # P[k] < p <= P[k+1]
        k = min(k, len(self.P) - 2)
        return float(self.cum[k] + self.slope[k] * (p - self.P[k]) + self.icpt[k] * math.log(p / self.P[k]))


def inv_sp(pure, target, p_start):
    """p0 >= p_start with pure.sp(p0) = target (the caller guarantees pure.sp(p_start) <= target up to rounding)."""
    def g(v):
        return pure.sp(math.exp(v)) - target

    u_lo = math.log(p_start)
    if pure.sp(p_start) - target >= 0 or g(u_lo) >= 0:
        return p_start
    u_cap = min(U_MAX, math.log(pure.pmax) if math.isfinite(pure.pmax) else U_MAX)
    step = 1.0
    u_hi = u_lo
    while True:
        if u_hi >= u_cap:
            raise OutOfDomain("spreading pressure target not reachable inside the isotherm's domain")
        u_hi = min(u_cap, u_hi + step)
        g_hi = g(u_hi)
        if g_hi >= 0:
            break
        u_lo = u_hi
        step *= 2.0
    if g_hi == 0:
        return math.exp(u_hi)
    return math.exp(brentq(g, u_lo, u_hi, xtol=1e-14, rtol=8.9e-16, maxiter=300))


def ref_iast(pures, partial_pressures):
    """Returns dict(x=adsorbed mole fractions, p0=fictitious pressures, pi=common spreading pressure,
    n_total=total loading from the ideal mixing rule, loadings=x*n_total)."""
    p = [float(v) for v in partial_pressures]
    if any(not (v > 0) for v in p):
        raise ValueError("partial pressures must be positive")
    ptot = math.fsum(p)
    sp_at_p = [pu.sp(pi) for pu, pi in zip(pures, p)]
    pi_lo = max(sp_at_p)
    # upper bracket; a component whose data end below the total pressure contributes its last value (the bracket is
    # then grown below, and OutOfDomain is raised if the solution needs data that do not exist)
    sp_hi = []
    for pu in pures:
        sp_hi.append(pu.sp(min(ptot, pu.pmax)))
    pi_hi = max(sp_hi)
    if not (pi_lo > 0):
        raise OutOfDomain("non-positive spreading pressure")

    def p0s(pi):
        return [inv_sp(pu, pi, pp) for pu, pp in zip(pures, p)]

    def F(lnpi):
        pi = math.exp(lnpi)
        return math.fsum(pp / q for pp, q in zip(p, p0s(pi))) - 1.0

    a, b = math.log(pi_lo), math.log(pi_hi)
    fa = F(a)
    if fa <= 0:  # only possible through rounding: every other component negligible
        lnpi = a
    else:
        fb = F(b) if b > a else fa
        grow = 0
        while fb > 0:
            # can only happen when some pmax capped pi_hi
            grow += 1
            b = b + 0.5 * grow
            fb = F(b)  # raises OutOfDomain when a component cannot reach the value
        lnpi = brentq(F, a, b, xtol=1e-15, rtol=8.9e-16, maxiter=300)
    pi = math.exp(lnpi)
    q = p0s(pi)
    x = np.array([pp / qq for pp, qq in zip(p, q)])
    resid = float(x.sum() - 1.0)
    n0 = np.array([pu.load(qq) for pu, qq in zip(pures, q)])
    n_total = 1.0 / float(np.sum(x / n0))
    return {"x": x, "p0": np.array(q), "pi": pi, "n0": n0, "n_total": n_total, "loadings": x * n_total,
            "sum_residual": resid}


# ---- closed forms ------------------------------------------------------------------------------------------------------
def henry_mixture(K, p):
    """IAST for Henry components: n_i = K_i p_i."""
    return np.asarray(K, dtype=float) * np.asarray(p, dtype=float)


def extended_langmuir(n_m, K, p):
    """IAST for Langmuir components of equal capacity n_m: n_i = n_m K_i p_i / (1 + sum_j K_j p_j)."""
    K = np.asarray(K, dtype=float)
    p = np.asarray(p, dtype=float)
    return n_m * K * p / (1.0 + float(np.sum(K * p)))


def self_validate():
    """ref_iast against the two closed forms (incl. trace components) and PointPure against quadrature."""
    rng = np.random.default_rng(12345)
    for trial in range(40):
        n = int(rng.integers(2, 5))
        K = 10 ** rng.uniform(-3, 3, n)
        p = 10 ** rng.uniform(-6, 3, n)
        # Henry
        pures = [FuncPure((lambda q, k=k: k * q), (lambda q, k=k: k * q)) for k in K]
        r = ref_iast(pures, p)
        want = henry_mixture(K, p)
        if not np.allclose(r["loadings"], want, rtol=1e-11, atol=0):
            raise AssertionError(f"ref_iast Henry closed form: {r['loadings']} vs {want}")
        # equal-capacity Langmuir
        nm = float(10 ** rng.uniform(-2, 2))
        pures = [FuncPure((lambda q, k=k: nm * math.log1p(k * q)), (lambda q, k=k: nm * k * q / (1 + k * q))) for k in K]
        r = ref_iast(pures, p)
        want = extended_langmuir(nm, K, p)
        if not np.allclose(r["loadings"], want, rtol=1e-10, atol=0):
            raise AssertionError(f"ref_iast extended Langmuir closed form: {r['loadings']} vs {want} (K={K}, p={p})")
    # PointPure vs numerical quadrature of its own interpolant
    from scipy.integrate import quad
    P = np.geomspace(1e-3, 1e2, 30)
    L = 3.0 * 0.7 * P / (1 + 0.7 * P)
    pp = PointPure(P, L)
    for q in (5e-4, 1e-3, 2.3e-3, 0.5, 17.0, 1e2):
        pts = [v for v in P if v < q]
        val = 0.0
        edges = [0.0] + pts + [q]
        for lo, hi in zip(edges[:-1], edges[1:]):
            val += quad(lambda s: pp.load(s) / s, lo, hi, epsabs=0, epsrel=1e-12)[0]
        if abs(val - pp.sp(q)) > 1e-9 * abs(val):
            raise AssertionError(f"PointPure.sp({q}) = {pp.sp(q)} vs quadrature {val}")
