"""C03 - data accessors in requested units agree with permanent conversion; selection; branch guess; interpolation."""
import numpy as np
import pandas as pd
from hypothesis import strategies as st

import pygaps
from pygaps.utilities.exceptions import pgError
from pygaps.utilities.math_utilities import split_ads_data
from pygaps.utilities.pygaps_utilities import get_iso_loading_and_pressure_ordered

from pbt import case as K
from pbt import ref_units as ru
from pbt import strategies as S
from pbt.core import Check, Inconclusive, Violation, allclose

LEVEL = "exploration"
RULE = (
    "Cases: hypothesis-drawn point isotherms (any stored configuration of the 10x27x19x2, 2-12 points, ads + optional "
    "des leg, extra columns) x a fully specified requested representation per quantity (pressure / loading / material; a "
    "quantity may be left unrequested = 'current') x branch x limits x query points. Oracles: accessor == reference "
    "conversion of the natively read numbers AND == reading a permanently converted clone; foreign-unit inputs are "
    "interpreted like the converted native ones; selection == plain python filter of data_raw rows in stored order; "
    "branch guess invariant under row relabelling / dtype and obeying the position rule; interpolation == data at "
    "knots, == numpy.interp inside, refused outside unless a fill rule is given; ModelIsotherm accessors == bare model "
    "on reference-converted values. Non-trivial: stored != requested representation (units checks), a limit that cuts "
    "points (selection), a query strictly between knots (interpolation), relabelled index (branch guess); distinct by "
    "(stored reps, requested reps, branch) resp. descriptor."
)
ASSUMPTIONS = [
    "reference conversion model pbt/ref_units.py; tolerance 1e-9 plus documented inaccuracy of rounded table constants",
    "limits are drawn strictly between data values and never 0 (closed/open ends and falsy limits are unspecified)",
    "requests are full (mode/basis, unit) pairs per quantity; an unrequested quantity means 'as stored' (docstrings)",
    "the mark of the pressure-maximum row itself and the maximum-in-first-row case of the branch guess are only required to "
    "be label independent",
]


def worker_init():
    K.reset_registries()


# ---- known finding class -------------------------------------------------------------------------------------------------
def _frac(rep):
    return rep is not None and rep[0] in ("fraction", "percent")


def _kf_parts(desc):
    iso = desc["iso"]
    stored_l = (iso["units"]["loading_basis"], None)
    stored_m = (iso["units"]["material_basis"], iso["units"]["material_unit"])
    req = desc.get("req") or {}
    rl, rm = req.get("lrep"), req.get("mrep")
    rl = tuple(rl) if rl else None
    rm = tuple(rm) if rm else None
    mdiff = rm is not None and rm != stored_m
    target_l = rl if rl is not None else stored_l
    return _frac(stored_l), _frac(target_l), mdiff


def kf_fraction_with_foreign_material(check_name, desc, viol):
    """Open finding KF-C03-1: accessor paths combine fraction/percent loading with a material representation other than
    the stored one in the wrong order. Narrow: exactly the sub-cases that are wrong on the pinned tree (mapped
    empirically over 4500 generated cases):
      * PointIsotherm.loading() and ModelIsotherm.loading_at()/loading(): STORED basis fraction/percent;
      * PointIsotherm.loading_at() output and pressure_at() input: TARGET basis fraction/percent
    - each only together with a requested material representation that differs from the stored one. The complementary
    sub-cases (e.g. stored dimensional -> requested fraction through loading(), stored fraction -> dimensional through
    loading_at()) are correct today and stay fully checked."""
    stored_frac, target_frac, mdiff = _kf_parts(desc)
    if not mdiff:
        return False
    if check_name == "accessor_units":
        return stored_frac and viol.tag in ("loading_value", "loading_vs_clone")
    if check_name == "at_foreign_units":
        return target_frac and viol.tag in ("loading_value", "loading_vs_clone", "input_interpretation")
    if check_name == "model_accessors":
        return stored_frac and viol.tag == "model_loading_value"
    return False


def viol_known_class(desc):
    """The loading slice is skipped inside the open-finding class KF-C03-1 (its values are already known to be wrong)."""
    stored_frac, _, mdiff = _kf_parts(desc)
    return stored_frac and mdiff


# ---- strategies ----------------------------------------------------------------------------------------------------------
def _req():
    """Requested representation: each quantity requested (fully) or not."""
    return st.builds(
        lambda p, l, m: {"prep": p, "lrep": l, "mrep": m},
        st.one_of(st.none(), S.p_rep()), st.one_of(st.none(), S.l_rep()), st.one_of(st.none(), st.none(), S.m_rep()))


def strat_units():
    return st.builds(lambda iso, req, br, qa, qb, via: {"iso": iso, "req": req, "branch": br, "qa": qa, "qb": qb, "copy": via},
                     S.point_desc(min_points=2, max_points=10), _req(), st.sampled_from([None, "ads", "des", "all"]),
                     st.floats(0, 1), st.floats(0, 1), st.sampled_from(["clone", "clone", "same_frame", "data()"]))


def _kw_p(prep):
    return {} if prep is None else {"pressure_mode": prep[0], "pressure_unit": prep[1]}


def _kw_l(lrep):
    return {} if lrep is None else {"loading_basis": lrep[0], "loading_unit": lrep[1]}


def _kw_m(mrep):
    return {} if mrep is None else {"material_basis": mrep[0], "material_unit": mrep[1]}


def _fluid(desc_iso):
    return next(e for e in K.backend_table() if e[0] == desc_iso["adsorbate"])[1]


def _t(x):
    return tuple(x) if x is not None else None


def _converted_clone(iso, prep, lrep, mrep, via="clone"):
    if via == "same_frame":
        # the working-copy idiom: a second isotherm made by the library from the first one's own table
        c = pygaps.PointIsotherm.from_isotherm(iso, isotherm_data=iso.data_raw, pressure_key=iso.pressure_key,
                                               loading_key=iso.loading_key)
    elif via == "data()":
        c = pygaps.PointIsotherm.from_isotherm(iso, isotherm_data=iso.data(), pressure_key=iso.pressure_key,
                                               loading_key=iso.loading_key)
    else:
        c = K.clone_point(iso)
    if prep is not None:
        c.convert_pressure(mode_to=prep[0], unit_to=prep[1])
    if mrep is not None:
        c.convert_material(basis_to=mrep[0], unit_to=mrep[1])
    if lrep is not None:
        c.convert_loading(basis_to=lrep[0], unit_to=lrep[1])
    return c


def check_units(desc, ctx):
    K.reset_registries()
    d = desc["iso"]
    iso = K.build_point(d)
    prep, lrep, mrep = _t(desc["req"]["prep"]), _t(desc["req"]["lrep"]), _t(desc["req"]["mrep"])
    branch = desc["branch"]
    sp, sl, sm = K.reps_of(d["units"])
    fluid, T = _fluid(d), d["T_K"]
    dens, mm = d["material"]["density"], d["material"]["molar_mass"]
    kwb = {} if branch is None else {"branch": branch}
    rows = iso.data_raw if branch in (None, "all") else iso.data_raw[iso.data_raw["branch"] == (0 if branch == "ads" else 1)]
    nat_p = rows[iso.pressure_key].to_numpy(dtype=float)
    nat_l = rows[iso.loading_key].to_numpy(dtype=float)

    # native reads
    if not np.array_equal(np.asarray(iso.pressure(**kwb), dtype=float), nat_p):
        raise Violation(f"pressure({kwb}) != stored rows", tag="native_read")
    if not np.array_equal(np.asarray(iso.loading(**kwb), dtype=float), nat_l):
        raise Violation(f"loading({kwb}) != stored rows", tag="native_read")

    clone = _converted_clone(iso, prep, lrep, mrep, desc.get("copy", "clone"))
    ctx.label("copy_" + desc.get("copy", "clone"))
    if not (np.array_equal(np.asarray(iso.pressure(**kwb), dtype=float), nat_p)
            and np.array_equal(np.asarray(iso.loading(**kwb), dtype=float), nat_l)):
        raise Violation(f"permanently converting a copy (made via {desc.get('copy', 'clone')}) changed the stored points of "
                        f"the original: pressure {np.asarray(iso.pressure(**kwb)).tolist()} was {nat_p.tolist()}, loading "
                        f"{np.asarray(iso.loading(**kwb)).tolist()} was {nat_l.tolist()}", tag="copy_conversion_changed_original")
    crows = clone.data_raw if branch in (None, "all") else clone.data_raw[clone.data_raw["branch"] == (0 if branch == "ads" else 1)]

    # ---- pressure
    got_p = np.asarray(iso.pressure(**kwb, **_kw_p(prep)), dtype=float)
    tp = prep or sp
    exp_p = np.array([ru.conv_pressure(v, sp, tp, fluid, T) for v in nat_p])
    if not allclose(got_p, exp_p, rel=ru.tol_for(sp, tp)):
        raise Violation(f"pressure({kwb}, {_kw_p(prep)}) of an isotherm stored in {sp}: {got_p.tolist()} != reference "
                        f"{exp_p.tolist()}", tag="pressure_value")
    cl_p = crows[clone.pressure_key].to_numpy(dtype=float)
    if not allclose(got_p, cl_p, rel=1e-12):
        raise Violation(f"pressure({_kw_p(prep)}) {got_p.tolist()} != permanently converted clone {cl_p.tolist()}",
                        tag="pressure_vs_clone")
    ser = iso.pressure(**kwb, **_kw_p(prep), indexed=True)
    if not isinstance(ser, pd.Series) or list(ser.index) != list(rows.index):
        raise Violation("pressure(indexed=True) does not return a Series over the selected rows", tag="indexed")

    # ---- loading
    got_l = np.asarray(iso.loading(**kwb, **_kw_l(lrep), **_kw_m(mrep)), dtype=float)
    tl, tm = lrep or sl, mrep or sm
    exp_l = np.array([ru.conv_full_loading(v, sl, sm, tl, tm, fluid, T, dens, mm) for v in nat_l])
    if not allclose(got_l, exp_l, rel=ru.tol_for(sl, tl, sm, tm)):
        raise Violation(f"loading({kwb}, {_kw_l(lrep)}, {_kw_m(mrep)}) of an isotherm stored in {sl} per {sm}: "
                        f"{got_l.tolist()} != reference {exp_l.tolist()}", tag="loading_value")
    cl_l = crows[clone.loading_key].to_numpy(dtype=float)
    if not allclose(got_l, cl_l, rel=1e-11):
        raise Violation(f"loading({_kw_l(lrep)}, {_kw_m(mrep)}) {got_l.tolist()} != permanently converted clone "
                        f"{cl_l.tolist()}", tag="loading_vs_clone")

    # ---- limits are understood in the REQUESTED representation: a slice between limits equals the native slice of the
    # permanently converted clone (limits placed strictly between the converted values)
    for which, got_all, kwargs, reader in (
            ("pressure", got_p, dict(**kwb, **_kw_p(prep)), lambda lim: clone.pressure(**kwb, limits=lim)),
            ("loading", got_l, dict(**kwb, **_kw_l(lrep), **_kw_m(mrep)), lambda lim: clone.loading(**kwb, limits=lim))):
        if which == "loading" and viol_known_class(desc):
            continue
        lo = _between_values(got_all, desc.get("qa", 0.3))
        hi = _between_values(got_all, desc.get("qb", 0.8))
        if lo is None or hi is None:
            continue
        if lo > hi:
            lo, hi = hi, lo
        for lim in ((lo, hi), (lo, None), (None, hi)):
            got_lim = np.asarray(getattr(iso, which)(limits=lim, **kwargs), dtype=float)
            exp_lim = np.array([v for v in got_all if (lim[0] is None or v >= lim[0]) and (lim[1] is None or v <= lim[1])])
            cl_lim = np.asarray(reader(lim), dtype=float)
            if got_lim.shape != exp_lim.shape or not allclose(got_lim, exp_lim, rel=1e-12):
                raise Violation(f"{which}(limits={lim}, {kwargs}) of an isotherm stored in {sp}/{sl}/{sm} returned "
                                f"{got_lim.tolist()}; the points inside the limits (in the requested representation) are "
                                f"{exp_lim.tolist()}", tag="limits_in_requested_units")
            if got_lim.shape != cl_lim.shape or not allclose(got_lim, cl_lim, rel=1e-11):
                raise Violation(f"{which}(limits={lim}, {kwargs}) = {got_lim.tolist()} != native slice of the permanently "
                                f"converted clone {cl_lim.tolist()}", tag="limits_vs_clone")
        ctx.label("limits_checked_" + which)

    # ---- a request that names only HALF of a representation (the mode without a unit, a unit without the mode or basis):
    # whatever the permanent conversion with the same half request makes of it, the accessor reads the same numbers
    partial = []
    if prep is not None:
        partial += [("pressure", {"pressure_mode": prep[0]}, {"mode_to": prep[0]}),
                    ("pressure", {"pressure_unit": prep[1]}, {"unit_to": prep[1]})] if prep[1] else \
                   [("pressure", {"pressure_mode": prep[0]}, {"mode_to": prep[0]})]
    if lrep is not None and lrep[1] and not _frac(sl):
        partial.append(("loading", {"loading_unit": lrep[1]}, {"unit_to": lrep[1]}))
    if mrep is not None and mrep[1] and not _frac(sl):
        partial.append(("loading", {"material_unit": mrep[1]}, {"unit_to": mrep[1], "@material": True}))
    for which, kwq, kwc in partial:
        c2 = K.clone_point(iso)
        kwc = dict(kwc)
        mat = kwc.pop("@material", False)
        try:
            (c2.convert_pressure if which == "pressure" else c2.convert_material if mat else c2.convert_loading)(**kwc)
        except pgError:
            ctx.label("partial_request_conversion_refused")
            continue
        rows2 = c2.data_raw if branch in (None, "all") else c2.data_raw[c2.data_raw["branch"] == (0 if branch == "ads" else 1)]
        want = rows2[c2.pressure_key if which == "pressure" else c2.loading_key].to_numpy(dtype=float)
        try:
            got_h = np.asarray(getattr(iso, which)(**kwb, **kwq), dtype=float)
        except pgError as e:
            raise Violation(f"{which}({kwb}, {kwq}) of an isotherm stored in {sp}/{sl}/{sm} is refused ({e}) although the "
                            f"permanent conversion with the same request succeeds", tag="partial_request")
        if got_h.shape != want.shape or not allclose(got_h, want, rel=1e-11):
            raise Violation(f"{which}({kwb}, {kwq}) of an isotherm stored in {sp}/{sl}/{sm}: {got_h.tolist()} != the copy "
                            f"permanently converted with the same request {want.tolist()} (now {K.reps_of(c2.units)})",
                            tag="partial_request")
        ctx.label("partial_request_" + which)

    # the original is untouched by the reads
    if K.reps_of(iso.units) != (sp, sl, sm):
        raise Violation("accessor changed the isotherm's labels", tag="mutated")
    changed = (prep not in (None, sp)) or (lrep not in (None, sl)) or (mrep not in (None, sm))
    if changed:
        ctx.nt([sp, sl, sm, prep, lrep, mrep, branch], desc)
    ctx.label("frac_stored" if _frac(sl) else "dim_stored", "req_p" if prep else "no_req_p", "req_m" if mrep else "no_req_m")


# ---- foreign-unit inputs and outputs of loading_at / pressure_at ------------------------------------------------------
def strat_at():
    return st.builds(
        lambda cont, iso, req, qs: {"iso": iso, "req": req, "q": qs, "container": cont},
        st.sampled_from(["array"] * 4 + ["list", "tuple", "series", "scalars", "np_scalars"]),
        S.point_desc(min_points=2, max_points=8, desorption=False, extras=False, meta=False, strict_loading=True),
        _req(), st.lists(st.floats(0, 1), min_size=1, max_size=4))


def _ask(fn, q, container, **kw):
    """Evaluate an accessor on the query values handed over in one of the accepted shapes; always returns a float array."""
    q = np.asarray(q, dtype=float)
    if container == "list":
        return np.asarray(fn(q.tolist(), **kw), dtype=float)
    if container == "tuple":
        return np.asarray(fn(tuple(q.tolist()), **kw), dtype=float)
    if container == "series":
        return np.asarray(fn(pd.Series(q, index=[f"q{i}" for i in range(len(q))]), **kw), dtype=float)
    if container == "scalars":
        return np.array([float(np.asarray(fn(float(v), **kw)).reshape(-1)[0]) for v in q])
    if container == "np_scalars":
        return np.array([float(np.asarray(fn(np.float64(v), **kw)).reshape(-1)[0]) for v in q])
    return np.asarray(fn(q, **kw), dtype=float)


def _queries(vals, qs):
    """Map q in [0,1] onto the closed range of the (increasing) knots: knots and convex combinations."""
    out = []
    n = len(vals)
    for q in qs:
        x = q * (n - 1)
        i = min(int(x), n - 2)
        f = x - i
        out.append(vals[i] * (1 - f) + vals[i + 1] * f)
    return np.array(out)


def _pair_tol(*pairs, base=0.0):
    """Inaccuracy budget of a conversion: rounded constants count only where the representation actually changes."""
    tol = base
    for a, b in pairs:
        if a != b:
            tol += ru.tol_for(a, b, base=0)
    return tol


def _inner(vals_lo, vals_hi, q, margin):
    lo, hi = vals_lo * (1 + margin), vals_hi * (1 - margin)
    if lo >= hi:
        return None  # the measured range is narrower than the conversion inaccuracy: foreign inputs cannot be placed inside
    return np.clip(q, lo, hi)


def _within_slope(got, q, xs, ys, delta):
    """got must lie between the interpolant evaluated at q*(1-delta) and q*(1+delta) (conditioning-aware comparison:
    the piecewise-linear interpolant can be arbitrarily steep)."""
    a = np.interp(np.clip(q * (1 - delta), xs[0], xs[-1]), xs, ys)
    b = np.interp(np.clip(q * (1 + delta), xs[0], xs[-1]), xs, ys)
    lo, hi = np.minimum(a, b), np.maximum(a, b)
    return bool(np.all((got >= lo - 1e-9 * np.abs(lo)) & (got <= hi + 1e-9 * np.abs(hi))))


def check_at(desc, ctx):
    K.reset_registries()
    d = desc["iso"]
    iso = K.build_point(d)
    prep, lrep, mrep = _t(desc["req"]["prep"]), _t(desc["req"]["lrep"]), _t(desc["req"]["mrep"])
    sp, sl, sm = K.reps_of(d["units"])
    fluid, T = _fluid(d), d["T_K"]
    dens, mm = d["material"]["density"], d["material"]["molar_mass"]
    tp, tl, tm = prep or sp, lrep or sl, mrep or sm
    p = np.array(d["pressure"], dtype=float)
    l = np.array(d["loading"], dtype=float)
    qp = _queries(p, desc["q"])
    ql = _queries(l, desc["q"])
    # shrink towards the interior so that inputs converted there and back (library constants are rounded) cannot
    # leave the measured range
    dp = 2 * ru.pressure_tol(sp, tp)
    dl = 2 * ru.loading_tol(sl, sm, tl, tm)
    qp = _inner(p[0], p[-1], qp, 2 * dp)
    ql = _inner(l[0], l[-1], ql, 2 * dl)
    if qp is None or ql is None:
        raise Inconclusive()

    # -- loading_at: input in foreign pressure units, output in foreign loading units
    cont = desc.get("container", "array")
    ctx.label("container_" + cont)
    base_l = _ask(iso.loading_at, qp, cont)
    exp_base = np.interp(qp, p, l)
    if not allclose(base_l, exp_base, rel=1e-9):
        raise Violation(f"loading_at({qp.tolist()}) = {base_l.tolist()} != linear interpolation {exp_base.tolist()}",
                        tag="interp_value")
    qp_f = np.array([ru.conv_pressure(v, sp, tp, fluid, T) for v in qp])
    got = _ask(iso.loading_at, qp_f, cont, **_kw_p(prep))
    if not _within_slope(got, qp, p, l, dp):
        raise Violation(f"loading_at(pressure given as {tp}: {qp_f.tolist()}) = {got.tolist()} but the same pressures in "
                        f"stored units {sp} give {base_l.tolist()}", tag="input_interpretation")
    got_o = _ask(iso.loading_at, qp, cont, **_kw_l(lrep), **_kw_m(mrep))
    exp_o = np.array([ru.conv_full_loading(v, sl, sm, tl, tm, fluid, T, dens, mm) for v in base_l])
    if not allclose(got_o, exp_o, rel=ru.tol_for(sl, tl, sm, tm)):
        raise Violation(f"loading_at(..., {_kw_l(lrep)}, {_kw_m(mrep)}) stored {sl} per {sm}: {got_o.tolist()} != reference "
                        f"{exp_o.tolist()}", tag="loading_value")
    # property statement: equals reading a permanently converted clone natively
    clone = _converted_clone(iso, prep, lrep, mrep)
    cl = np.asarray(clone.loading_at(qp_f), dtype=float)
    got_both = _ask(iso.loading_at, qp_f, cont, **_kw_p(prep), **_kw_l(lrep), **_kw_m(mrep))
    exp_both = np.array([ru.conv_full_loading(v, sl, sm, tl, tm, fluid, T, dens, mm) for v in base_l])
    if not (allclose(got_both, cl, rel=1e-8) or
            (_within_slope(got_both / np.where(exp_both == 0, 1, exp_both) * base_l, qp, p, l, dp + dl) and
             _within_slope(cl / np.where(exp_both == 0, 1, exp_both) * base_l, qp, p, l, dp + dl))):
        raise Violation(f"loading_at with {_kw_p(prep)} {_kw_l(lrep)} {_kw_m(mrep)} = {got_both.tolist()} != permanently "
                        f"converted clone read natively {cl.tolist()}", tag="loading_vs_clone")

    # -- pressure_at: input loading in foreign units, output pressure in foreign units
    base_p = _ask(iso.pressure_at, ql, cont)
    exp_bp = np.interp(ql, l, p)
    if not allclose(base_p, exp_bp, rel=1e-9):
        raise Violation(f"pressure_at({ql.tolist()}) = {base_p.tolist()} != linear interpolation {exp_bp.tolist()}",
                        tag="interp_value")
    got_po = _ask(iso.pressure_at, ql, cont, **_kw_p(prep))
    exp_po = np.array([ru.conv_pressure(v, sp, tp, fluid, T) for v in base_p])
    if not allclose(got_po, exp_po, rel=ru.tol_for(sp, tp)):
        raise Violation(f"pressure_at(..., {_kw_p(prep)}) stored {sp}: {got_po.tolist()} != reference {exp_po.tolist()}",
                        tag="pressure_value")
    ql_f = np.array([ru.conv_full_loading(v, sl, sm, tl, tm, fluid, T, dens, mm) for v in ql])
    try:
        got_pi = _ask(iso.pressure_at, ql_f, cont, **_kw_l(lrep), **_kw_m(mrep))
    except pygaps.utilities.exceptions.ParameterError as e:
        raise Violation(f"pressure_at refuses a loading supplied as {tl} per {tm}: {e}", tag="input_refused")
    # conditioning: the interpolant may be steep, so compare through the slope-aware tolerance
    okp = _within_slope(got_pi, ql, l, p, dl)
    if not okp:
        raise Violation(f"pressure_at(loading given as {tl} per {tm}: {ql_f.tolist()}) = {got_pi.tolist()} but the same "
                        f"loadings in stored units give {base_p.tolist()}", tag="input_interpretation")
    # the isotherm ITSELF (both interpolators exist by now) permanently converted the same way and read natively:
    # the same numbers as the clone that was converted before it was ever asked anything
    try:
        cl_l = np.asarray(clone.loading_at(qp_f), dtype=float)
        cl_p = np.asarray(clone.pressure_at(ql_f), dtype=float)
    except (ValueError, pygaps.utilities.exceptions.pgError):
        cl_l = cl_p = None
    if cl_l is not None:
        if prep is not None:
            iso.convert_pressure(mode_to=prep[0], unit_to=prep[1])
        if mrep is not None:
            iso.convert_material(basis_to=mrep[0], unit_to=mrep[1])
        if lrep is not None:
            iso.convert_loading(basis_to=lrep[0], unit_to=lrep[1])
        try:
            own_l = _ask(iso.loading_at, qp_f, cont)
            own_p = _ask(iso.pressure_at, ql_f, cont)
        except ValueError as e:
            raise Violation(f"after converting the isotherm itself to {tp} / {tl} per {tm} a native read inside its own "
                            f"range is refused ({e}); the clone converted before any read answers", tag="stale_after_conversion")
        if not (allclose(own_l, cl_l, rel=1e-12) and allclose(own_p, cl_p, rel=1e-12)):
            raise Violation(f"after converting the isotherm itself to {tp} / {tl} per {tm}: loading_at {own_l.tolist()} / "
                            f"pressure_at {own_p.tolist()} != the clone converted before any read {cl_l.tolist()} / "
                            f"{cl_p.tolist()}", tag="stale_after_conversion")
        ctx.label("converted_in_place_after_reads")
    changed = (prep not in (None, sp)) or (lrep not in (None, sl)) or (mrep not in (None, sm))
    if changed:
        ctx.nt([sp, sl, sm, prep, lrep, mrep], desc)
    ctx.label("frac_involved" if (_frac(sl) or _frac(lrep)) else "dimensional")


# ---- selection: branch and limits ---------------------------------------------------------------------------------------
def strat_selection():
    return st.builds(
        lambda iso, br, which, a, b, lo_none, hi_none: {"iso": iso, "branch": br, "which": which, "a": min(a, b),
                                                        "b": max(a, b), "lo_none": lo_none, "hi_none": hi_none},
        S.point_desc(min_points=2, max_points=12, extras=True, force_extras=True, meta=False),
        st.sampled_from([None, "ads", "des", "all"]), st.sampled_from(["pressure", "loading", "enthalpy"]),
        st.floats(0, 1), st.floats(0, 1), st.booleans(), st.booleans())


def _between_values(vals, q):
    """A limit strictly between two neighbouring distinct sorted data values (never equal to a datum, never 0)."""
    s = sorted(set(float(v) for v in vals))
    if len(s) < 2:
        return None
    i = min(int(q * (len(s) - 1)), len(s) - 2)
    lim = 0.5 * (s[i] + s[i + 1])
    if lim == 0 or lim in (s[i], s[i + 1]):
        return None
    return lim


def check_selection(desc, ctx):
    K.reset_registries()
    d = desc["iso"]
    iso = K.build_point(d)
    br, which = desc["branch"], desc["which"]
    df = iso.data_raw
    col = {"pressure": iso.pressure_key, "loading": iso.loading_key, "enthalpy": "enthalpy"}[which]
    allvals = df[col].tolist()
    lo = None if desc["lo_none"] else _between_values(allvals, desc["a"])
    hi = None if desc["hi_none"] else _between_values(allvals, desc["b"])
    if lo is not None and hi is not None and lo > hi:
        lo, hi = hi, lo
    # expected: plain python filter over the stored rows, in stored order
    exp, exp_idx = [], []
    for idx, row in zip(df.index.tolist(), df.to_dict("records")):
        if br == "ads" and row["branch"] != 0:
            continue
        if br == "des" and row["branch"] != 1:
            continue
        v = row[col]
        if lo is not None and not v >= lo:
            continue
        if hi is not None and not v <= hi:
            continue
        exp.append(v)
        exp_idx.append(idx)
    kw = {} if br is None else {"branch": br}
    limits = (lo, hi)
    if which == "pressure":
        got = iso.pressure(limits=limits, indexed=True, **kw)
        got_arr = iso.pressure(limits=limits, **kw)
    elif which == "loading":
        got = iso.loading(limits=limits, indexed=True, **kw)
        got_arr = iso.loading(limits=limits, **kw)
    else:
        got = iso.other_data("enthalpy", limits=limits, indexed=True, **kw)
        got_arr = iso.other_data("enthalpy", limits=limits, **kw)
    if got.tolist() != exp or list(got.index) != exp_idx:
        raise Violation(f"{which}(branch={br!r}, limits={limits}) returned {got.tolist()} (rows {list(got.index)}), expected "
                        f"the stored points {exp} (rows {exp_idx})", tag="selection")
    if np.asarray(got_arr).tolist() != exp:
        raise Violation(f"{which}(branch={br!r}, limits={limits}) array form differs from the Series form", tag="selection")
    # what every characterisation routine reads: desorption reversed
    if br in ("ads", "des") and which == "pressure":
        if len([r for r in df["branch"].tolist() if r == (0 if br == "ads" else 1)]) > 0:
            pp, ll = get_iso_loading_and_pressure_ordered(iso, br, {}, {})
            ep = [r[iso.pressure_key] for r in df.to_dict("records") if r["branch"] == (0 if br == "ads" else 1)]
            el = [r[iso.loading_key] for r in df.to_dict("records") if r["branch"] == (0 if br == "ads" else 1)]
            if br == "des":
                ep, el = ep[::-1], el[::-1]
            if np.asarray(pp).tolist() != ep or np.asarray(ll).tolist() != el:
                raise Violation(f"get_iso_loading_and_pressure_ordered({br}) wrong order/content", tag="ordered_read")
    nrows_branch = len([1 for r in df["branch"].tolist() if br in (None, "all") or r == (0 if br == "ads" else 1)])
    if (lo is not None or hi is not None) and len(exp) < nrows_branch:
        ctx.nt([d["pressure"], d["loading"], br, which, lo, hi], desc)
    ctx.label(f"branch_{br}", which)


# ---- branch guess ----------------------------------------------------------------------------------------------------------
def strat_guess():
    return st.builds(
        lambda ps, relabel, shift, perm_seed, as_int: {"p": ps, "relabel": relabel, "shift": shift, "perm": perm_seed,
                                                      "as_int": as_int},
        st.lists(st.integers(1, 60), min_size=1, max_size=12),
        st.sampled_from(["shift", "permute", "strings", "float_labels"]), st.integers(-5, 50), st.integers(0, 10 ** 6),
        st.booleans())


def check_guess(desc, ctx):
    ps = desc["p"]
    n = len(ps)
    vals = [int(v) for v in ps] if desc["as_int"] else [v / 7.0 for v in ps]
    base = pd.DataFrame({"pressure": vals, "loading": list(range(n))})
    ref = np.asarray(split_ads_data(base, "pressure")).tolist()
    # position rule: rows strictly before the first maximum are adsorption, rows strictly after it desorption
    imax = vals.index(max(vals))
    if imax != 0:
        for i in range(n):
            if i < imax and ref[i] != 0:
                raise Violation(f"pressures {vals}: row {i} before the maximum (row {imax}) marked {ref[i]}", tag="guess_rule")
            if i > imax and ref[i] != 1:
                raise Violation(f"pressures {vals}: row {i} after the maximum (row {imax}) marked {ref[i]}", tag="guess_rule")
    if set(ref) - {0, 1}:
        raise Violation(f"branch marks {ref} not in {{0,1}}", tag="guess_rule")
    # label / dtype independence
    if desc["relabel"] == "shift":
        labels = [i + desc["shift"] for i in range(n)]
    elif desc["relabel"] == "permute":
        rng = np.random.default_rng(desc["perm"])
        labels = rng.permutation(n).tolist()
    elif desc["relabel"] == "strings":
        labels = [f"row{(i * 7 + desc['shift']) % 101}-{i}" for i in range(n)]
    else:
        labels = [float(i) + 0.5 for i in range(n)]
    other = pd.DataFrame({"pressure": vals, "loading": list(range(n))}, index=labels)
    got = np.asarray(split_ads_data(other, "pressure")).tolist()
    if got != ref:
        raise Violation(f"pressures {vals}: branch guess {ref} with default row labels but {got} with labels {labels}",
                        tag="guess_label_dependent")
    alt = pd.DataFrame({"pressure": [float(v) for v in vals] if desc["as_int"] else vals, "loading": [float(i) for i in range(n)]})
    got2 = np.asarray(split_ads_data(alt, "pressure")).tolist()
    if got2 != ref:
        raise Violation(f"pressures {vals}: branch guess depends on dtype: {ref} vs {got2}", tag="guess_dtype_dependent")
    # through the constructor
    iso = pygaps.PointIsotherm(isotherm_data=other, pressure_key="pressure", loading_key="loading", material="m-0",
                               adsorbate="nitrogen", temperature=77.0, pressure_mode="absolute", pressure_unit="bar",
                               loading_basis="molar", loading_unit="mmol", material_basis="mass", material_unit="g",
                               temperature_unit="K")
    if iso.data_raw["branch"].tolist() != ref:
        raise Violation(f"constructor branch guess {iso.data_raw['branch'].tolist()} != split_ads_data {ref}", tag="guess_ctor")
    ctx.nt([vals, desc["relabel"], labels], desc)
    ctx.label("max_first" if imax == 0 else ("max_last" if imax == n - 1 else "max_inside"), desc["relabel"])


# ---- interpolation -------------------------------------------------------------------------------------------------------
def strat_interp():
    return st.builds(
        lambda iso, qs, fill, out: {"iso": iso, "q": qs, "fill": fill, "out": out},
        S.point_desc(min_points=2, max_points=8, extras=False, meta=False, strict_loading=True),
        st.lists(st.floats(0, 1), min_size=1, max_size=5),
        st.one_of(st.none(), st.floats(-5, 5).map(lambda x: round(x, 3)),
                  st.tuples(st.floats(-5, 5), st.floats(-5, 5)).map(lambda t: [round(t[0], 3), round(t[1], 3)]),
                  st.just("extrapolate")),
        st.floats(0.05, 0.9))


def check_interp(desc, ctx):
    K.reset_registries()
    d = desc["iso"]
    iso = K.build_point(d)
    bt = d["branch_true"]
    for branch, code in (("ads", 0), ("des", 1)):
        p = np.array([v for v, b in zip(d["pressure"], bt) if b == code], dtype=float)
        l = np.array([v for v, b in zip(d["loading"], bt) if b == code], dtype=float)
        if d["branch"] == "guess":
            rows = iso.data_raw[iso.data_raw["branch"] == code]
            p = rows[iso.pressure_key].to_numpy(dtype=float)
            l = rows[iso.loading_key].to_numpy(dtype=float)
        if len(p) < 2 or not (np.all(np.diff(p) > 0) or np.all(np.diff(p) < 0)):
            continue
        order = np.argsort(p)
        ps, ls = p[order], l[order]
        fill = desc["fill"]
        fill_arg = tuple(fill) if isinstance(fill, list) else fill
        kw = {} if fill is None else {"interp_fill": fill_arg}
        # knots
        got = np.asarray(iso.loading_at(p, branch=branch, **kw), dtype=float)
        if not allclose(got, l, rel=1e-12):
            raise Violation(f"loading_at at the measured {branch} pressures {p.tolist()} = {got.tolist()} != data {l.tolist()}",
                            tag="interp_knots")
        # inside
        q = np.clip(_queries(ps, desc["q"]), ps[0], ps[-1])
        got = np.asarray(iso.loading_at(q, branch=branch, **kw), dtype=float)
        exp = np.interp(q, ps, ls)
        if not allclose(got, exp, rel=1e-12, abs_=1e-300):
            raise Violation(f"loading_at({q.tolist()}, branch={branch}) = {got.tolist()} != straight line between neighbours "
                            f"{exp.tolist()}", tag="interp_inside")
        if any(not np.any(np.isclose(v, ps, rtol=0, atol=0)) for v in q):
            ctx.nt([d["pressure"], d["loading"], branch, desc["q"], fill], desc)
        # outside
        below, above = ps[0] * (1 - desc["out"]), ps[-1] * (1 + desc["out"])
        for x, side in ((below, 0), (above, 1)):
            try:
                v = float(iso.loading_at(x, branch=branch, **kw))
                raised = False
            except Exception:  # noqa - "refused" = any exception
                raised = True
            if fill is None:
                if not raised:
                    raise Violation(f"loading_at({x}) outside the measured {branch} range [{ps[0]}, {ps[-1]}] returned {v} "
                                    "without a fill rule", tag="interp_outside_not_refused")
            else:
                if raised:
                    raise Violation(f"loading_at({x}, interp_fill={fill_arg!r}) outside the range raised", tag="interp_fill")
                if fill == "extrapolate":
                    i0, i1 = (0, 1) if side == 0 else (-2, -1)
                    want = ls[i0] + (ls[i1] - ls[i0]) * (x - ps[i0]) / (ps[i1] - ps[i0])
                elif isinstance(fill, list):
                    want = fill[side]
                else:
                    want = fill
                if not allclose(v, want, rel=1e-9, abs_=1e-12):
                    raise Violation(f"loading_at({x}, interp_fill={fill_arg!r}) = {v}, expected {want}", tag="interp_fill")
        # the refusal outside the range holds on the SAME object after calls that used a fill rule (the property's
        # "refused ... unless a fill rule is given" is about the call at hand, not about earlier ones)
        if fill is not None:
            for x in (below, above):
                try:
                    v = iso.loading_at(x, branch=branch)
                except Exception:  # noqa - refused
                    continue
                raise Violation(f"loading_at({x}) outside the measured {branch} range [{ps[0]}, {ps[-1]}] returned {v} without "
                                f"a fill rule (after earlier calls with interp_fill={fill_arg!r} on the same isotherm)",
                                tag="interp_outside_not_refused_after_fill")
        # pressure_at (needs strictly monotonic loading)
        if np.all(np.diff(ls) > 0):
            ql = np.clip(_queries(ls, desc["q"]), ls[0], ls[-1])
            gotp = np.asarray(iso.pressure_at(ql, branch=branch), dtype=float)
            expp = np.interp(ql, ls, ps)
            if not allclose(gotp, expp, rel=1e-12, abs_=1e-300):
                raise Violation(f"pressure_at({ql.tolist()}, branch={branch}) = {gotp.tolist()} != {expp.tolist()}",
                                tag="interp_inside")
            if fill is not None:
                iso.pressure_at(ql, branch=branch, interp_fill=fill_arg)  # a fill-enabled call first, then none
            try:
                v = iso.pressure_at(ls[-1] * (1 + desc["out"]), branch=branch)
                raise Violation(f"pressure_at above the measured loading range returned {v}", tag="interp_outside_not_refused")
            except Violation:
                raise
            except Exception:  # noqa
                pass
        ctx.label(f"interp_{branch}", "fill_" + ("none" if fill is None else type(fill).__name__))


# ---- ModelIsotherm accessors ---------------------------------------------------------------------------------------------
def strat_model():
    return st.builds(
        lambda u, at, mat, req, model, K1, nm, qs: {
            "iso": {"units": u, "adsorbate": at["adsorbate"], "T_K": at["T_K"],
                    "T": at["T_K"] if u["temperature_unit"] == "K" else at["T_K"] - 273.15, "material": mat},
            "req": req, "model": model, "K": K1, "n_m": nm, "q": qs},
        S.units(), S.ads_T(), S.material(), _req(), st.sampled_from(["Langmuir", "Henry", "Toth", "Virial", "Virial"]),
        st.floats(0.01, 100), st.floats(0.1, 50), st.lists(st.floats(0.01, 1.0), min_size=1, max_size=4))


def check_model(desc, ctx):
    from pygaps.modelling import get_isotherm_model
    K.reset_registries()
    d = desc["iso"]
    model = get_isotherm_model(desc["model"])
    if desc["model"] == "Henry":
        model.params = {"K": desc["K"]}
    elif desc["model"] == "Langmuir":
        model.params = {"K": desc["K"], "n_m": desc["n_m"]}
    elif desc["model"] == "Virial":
        # a model that calculates pressure from loading (the accessors take the other internal path); monotone
        sc = 1.0 / (10.0 * desc["K"])  # mild non-linearity over the whole range, so that the numerical inverse converges
        model.params = {"K": desc["K"], "A": 0.5 * sc, "B": 0.1 * sc ** 2, "C": 0.02 * sc ** 3}
    else:
        model.params = {"K": desc["K"], "n_m": desc["n_m"], "t": 0.7}
    model.pressure_range = (0.0, 10.0)
    model.loading_range = (0.0, float(np.ravel(model.loading(10.0))[0]))
    iso = pygaps.ModelIsotherm(model=model, material=K.build_material(d["material"]), adsorbate=d["adsorbate"],
                               temperature=d["T"], **d["units"])
    prep, lrep, mrep = _t(desc["req"]["prep"]), _t(desc["req"]["lrep"]), _t(desc["req"]["mrep"])
    sp, sl, sm = K.reps_of(d["units"])
    tp, tl, tm = prep or sp, lrep or sl, mrep or sm
    fluid, T = _fluid(d), d["T_K"]
    dens, mm = d["material"]["density"], d["material"]["molar_mass"]
    qp = np.array([10.0 * q for q in desc["q"]])
    base = np.asarray(model.loading(qp), dtype=float)
    qp_f = np.array([ru.conv_pressure(v, sp, tp, fluid, T) for v in qp])
    got = np.asarray(iso.loading_at(qp_f, **_kw_p(prep)), dtype=float)
    if not allclose(got, base, rel=1e-8 + 10 * ru.tol_for(sp, tp, base=0)):
        raise Violation(f"ModelIsotherm.loading_at(pressure as {tp}) = {got.tolist()} != bare model at the stored-unit "
                        f"pressures {base.tolist()}", tag="model_input_interpretation")
    got_o = np.asarray(iso.loading_at(qp, **_kw_l(lrep), **_kw_m(mrep)), dtype=float)
    exp_o = np.array([ru.conv_full_loading(v, sl, sm, tl, tm, fluid, T, dens, mm) for v in base])
    if not allclose(got_o, exp_o, rel=ru.tol_for(sl, tl, sm, tm)):
        raise Violation(f"ModelIsotherm.loading_at(..., {_kw_l(lrep)}, {_kw_m(mrep)}) stored {sl} per {sm}: {got_o.tolist()} "
                        f"!= reference conversion of the bare model {exp_o.tolist()}", tag="model_loading_value")
    # pressure_at with output conversion
    ql = base
    bp = np.asarray(model.pressure(ql), dtype=float)
    got_p = np.asarray(iso.pressure_at(ql, **_kw_p(prep)), dtype=float)
    exp_p = np.array([ru.conv_pressure(v, sp, tp, fluid, T) for v in bp])
    if not allclose(got_p, exp_p, rel=ru.tol_for(sp, tp)):
        raise Violation(f"ModelIsotherm.pressure_at(..., {_kw_p(prep)}) = {got_p.tolist()} != {exp_p.tolist()}",
                        tag="model_pressure_value")
    # pressure_at with the loading supplied in the requested loading / material representation
    if lrep is not None or mrep is not None:
        delta = 1e-9 + 4 * ru.tol_for(sl, tl, sm, tm, base=0)
        try:
            got_i = np.asarray(iso.pressure_at(exp_o, **_kw_l(lrep), **_kw_m(mrep)), dtype=float)
        except pygaps.utilities.exceptions.ParameterError:
            # a fractional loading without a named material basis is refused (never misread): accepted
            if mrep is None and (_frac(tl) or _frac(sl)):
                ctx.label("model_input_loading", "refused_fraction_without_material")
                got_i = None
            else:
                raise
        with np.errstate(all="ignore"):
            lo_p = np.asarray(model.pressure(ql * (1 - delta)), dtype=float)
            hi_p = np.asarray(model.pressure(ql * (1 + delta)), dtype=float)
        hi_p = np.where(np.isfinite(hi_p) & (hi_p >= bp), hi_p, np.inf)
        ok = got_i is None or ((got_i >= lo_p * (1 - 1e-9) - 1e-300) & (got_i <= hi_p * (1 + 1e-9) + 1e-300))
        if got_i is not None:
            ctx.label("model_input_loading", "interpreted")
        if not bool(np.all(ok)):
            raise Violation(f"ModelIsotherm.pressure_at(loading as {tl} per {tm}, stored {sl} per {sm}) = {got_i.tolist()} "
                            f"!= bare model at the stored-unit loadings {bp.tolist()}", tag="model_input_loading")
    # whole-curve accessors: pressure() grid and loading() on it
    gp = np.asarray(iso.pressure(points=7, **_kw_p(prep)), dtype=float)
    if model.calculates == "pressure":
        # the grid of such a model is laid over its loading range
        grid_l = np.linspace(model.loading_range[0], model.loading_range[1], 7)
        with np.errstate(all="ignore"):
            grid_p = np.asarray(model.pressure(grid_l), dtype=float)
    else:
        grid_p = np.linspace(0.0, 10.0, 7)
        grid_l = np.asarray(model.loading(grid_p), dtype=float)
    exp_gp = np.array([ru.conv_pressure(v, sp, tp, fluid, T) for v in grid_p])
    if not allclose(gp, exp_gp, rel=ru.tol_for(sp, tp), abs_=1e-300):
        raise Violation(f"ModelIsotherm.pressure(points=7, {_kw_p(prep)}) = {gp.tolist()} != {exp_gp.tolist()}",
                        tag="model_pressure_value")
    gl = np.asarray(iso.loading(points=7, **_kw_l(lrep), **_kw_m(mrep)), dtype=float)
    exp_gl = np.array([ru.conv_full_loading(v, sl, sm, tl, tm, fluid, T, dens, mm) for v in grid_l])
    if not allclose(gl, exp_gl, rel=ru.tol_for(sl, tl, sm, tm), abs_=1e-300):
        raise Violation(f"ModelIsotherm.loading(points=7, {_kw_l(lrep)}, {_kw_m(mrep)}) = {gl.tolist()} != {exp_gl.tolist()}",
                        tag="model_loading_value")
    changed = (prep not in (None, sp)) or (lrep not in (None, sl)) or (mrep not in (None, sm))
    if changed:
        ctx.nt([desc["model"], sp, sl, sm, prep, lrep, mrep], desc)


CHECKS = [
    Check("accessor_units", check_units, strategy=strat_units, budget={"quick": 3000, "thorough": 60000},
          rule="pressure()/loading() in a requested representation vs reference and vs permanently converted clone"),
    Check("at_foreign_units", check_at, strategy=strat_at, budget={"quick": 2000, "thorough": 40000},
          rule="loading_at/pressure_at with foreign-unit inputs and outputs vs native + reference + converted clone"),
    Check("selection", check_selection, strategy=strat_selection, budget={"quick": 3000, "thorough": 40000},
          rule="branch/limit selection == python filter of stored rows"),
    Check("branch_guess", check_guess, strategy=strat_guess, budget={"quick": 4000, "thorough": 60000},
          rule="split_ads_data invariant under row relabelling and dtype; position rule"),
    Check("interpolation", check_interp, strategy=strat_interp, budget={"quick": 2000, "thorough": 40000},
          rule="knots, numpy.interp inside, refusal / fill outside"),
    Check("model_accessors", check_model, strategy=strat_model, budget={"quick": 2000, "thorough": 30000},
          rule="ModelIsotherm accessors == bare model on reference-converted values"),
]
