"""C08 - the SQLite store behaves as a keyed collection over any operation history (model-based histories)."""
import atexit
import hashlib
import os
import shutil
import sqlite3
import tempfile

import pandas as pd
from hypothesis import strategies as st

import pygaps
from pygaps.core.adsorbate import Adsorbate
from pygaps.core.baseisotherm import BaseIsotherm
from pygaps.core.material import Material
from pygaps.data import ADSORBATE_LIST, MATERIAL_LIST
from pygaps.modelling import get_isotherm_model
from pygaps.parsing import sqlite as pgsql
from pygaps.utilities.exceptions import ParsingError
from pygaps.utilities.sqlite_db_creator import db_create

from pbt import case as K
from pbt import strategies as S
from pbt.core import Check, HarnessError, Violation, canon

LEVEL = "exploration"
RULE = (
    "A case is a history: 1-3 database files (each a copy of ONE template created by db_create from the tree under "
    "test), small pools of generated materials (3 names x generated properties), custom adsorbates (aliases, "
    "properties) + 3 stock adsorbates, point / model / base isotherms (any unit configuration, generated metadata, "
    "extra columns, user branches) and 2-25 operations drawn from {material, adsorbate, property-type, isotherm-type, "
    "isotherm} x {to_db (duplicate / overwrite / overwrite-absent / with and without auto-insert), delete (by object, "
    "name/id, retrieved object; absent; still referenced), *_from_db (with and without criteria)} x file; each "
    "operation says whether it prefers an item present in / absent from the target file (resolved against the model "
    "while interpreting, so that deletes, duplicates and criteria hit). The history "
    "is interpreted against the real store and against one plain dict model PER FILE (the model never looks at the "
    "process-global registries). After every step: outcome class (ok / ParsingError) == model; a refused call leaves "
    "the full logical dump of the target file unchanged; no other file changes (byte hash, then dump); through an "
    "independent sqlite3 connection: names/ids == model, row counts == model, no orphan property/data rows, PRAGMA "
    "foreign_key_check and integrity_check clean; the affected collections re-read through *_from_db equal the model "
    "(materials/adsorbates by name+properties, types by row, isotherms paired by (class, material, adsorbate, T) and "
    "compared field by field, by == and by deleting through the retrieved object). All files are re-read at the end. "
    "Content mismatches are recorded and the history goes on (the model follows the observed outcome when a call "
    "predicted ok is refused), the first violation outside the known-finding classes is reported first. "
    "Non-trivial = history with >= 1 predicted-and-observed refusal and (>= 1 delete-then-reinsert of the same key or "
    ">= 2 files written); distinct by the (op, file, item, flags, outcome) sequence. Separate checks: the isotherm "
    "property-type table alone (same interpreter), and bulk retrieval of 1..301 isotherms around the 100-row page size."
)
ASSUMPTIONS = [
    "'parsing error' = pygaps ParsingError; any other exception type escaping a store call is reported as a crash",
    "storable property values: text, finite floats (no negative zero), ints |v| < 2**40, (isotherms) bools, lists of >= 2 texts for "
    "adsorbates/materials; keys never equal constructor-reserved names (name, store, alias, m, t, a, ...)",
    "equal content = python equality of names and property dicts (lists order-insensitive; int 5 == float 5.0 for "
    "materials/adsorbates); isotherms additionally by == (iso_id) as the property states",
    "overwrite of an absent item: the property is silent - refused+unchanged, ok+stored and ok+unchanged are accepted",
    "a retrieved isotherm is required to == the stored one only when the material content it was stored with equals "
    "the content of that material in the same file at retrieval time",
    "isotherm identity (iso_id) is the library's own key; its definition is C05's subject, here only data it hashes "
    "identically by construction is used (float columns, RangeIndex, branch via 'guess' unless the user-branch class)",
    "the files live in /dev/shm when writable (fsync cost), else in the default temp dir; one template per run",
]


def worker_init():
    K.reset_registries()


# =====================================================================================================================
# template database: ONE per run, created from the tree under test by the first process that needs it (the parent,
# through self_validate); forked workers inherit the path
# =====================================================================================================================
_TPL = {}
_TMP_BASE = "/dev/shm" if os.path.isdir("/dev/shm") and os.access("/dev/shm", os.W_OK) else None
_TABLES = ("adsorbates", "adsorbate_properties", "adsorbate_properties_type", "materials", "material_properties",
           "material_properties_type", "isotherms", "isotherm_properties", "isotherm_data", "isotherm_type")


def _cleanup_template(owner, d):
    if os.getpid() == owner:
        shutil.rmtree(d, ignore_errors=True)


def _template():
    if not _TPL or not os.path.exists(_TPL["path"]):
        d = tempfile.mkdtemp(prefix="verif_C08_tpl_", dir=_TMP_BASE)
        path = os.path.join(d, "template.db")
        db_create(path)  # current tree: pragmas + stock property types + stock adsorbates + isotherm types
        K.reset_registries()  # db_create appends every stock adsorbate to ADSORBATE_LIST a second time
        _TPL.clear()
        _TPL.update(path=path, dir=d, init=_initial_model(path))
        atexit.register(_cleanup_template, os.getpid(), d)
    return _TPL


def self_validate():
    tpl = _template()
    init = tpl["init"]
    if len(init["ads"]) < 50 or "nitrogen" not in init["ads"] or set(init["iso_types"]) != {
            "isotherm", "pointisotherm", "modelisotherm"}:
        raise HarnessError("template database does not look like a freshly created pyGAPS database")
    for name in STOCK_ADS:
        if name not in init["ads"]:
            raise HarnessError(f"stock adsorbate {name} missing from the template")
    d = _dump(tpl["path"])
    if d["fk"] or d["ic"] != [("ok",)]:
        raise HarnessError("template database fails foreign_key_check / integrity_check")


def _initial_model(path):
    con = sqlite3.connect(path)
    try:
        ads = {}
        for (name,) in con.execute("SELECT name FROM adsorbates"):
            ads[name] = {}
        for name, typ, val in con.execute(
                "SELECT a.name, p.type, p.value FROM adsorbate_properties p JOIN adsorbates a ON a.id = p.ads_id "
                "ORDER BY p.id"):
            ads[name].setdefault(typ, []).append(val)
        ads_types = {t: (u, d) for t, u, d in con.execute("SELECT type, unit, description FROM adsorbate_properties_type")}
        iso_types = {t: (d,) for t, d in con.execute("SELECT type, description FROM isotherm_type")}
        n_mat = con.execute("SELECT count(*) FROM materials").fetchone()[0]
        n_iso = con.execute("SELECT count(*) FROM isotherms").fetchone()[0]
    finally:
        con.close()
    if n_mat or n_iso:
        raise HarnessError("fresh database is expected to hold no materials / isotherms")
    return {"ads": ads, "ads_types": ads_types, "iso_types": iso_types}


# =====================================================================================================================
# strategies (flat, weighted through sampled_from with explicit repetition)
# =====================================================================================================================
MAT_NAMES = ["m-0", "m-1", "mat é"]
CUSTOM_ADS = ["gas-0", "gas-1", "Gas X"]
STOCK_ADS = ["nitrogen", "argon", "carbon dioxide"]
META_KEYS = ["user", "machine", "comment", "k1", "date", "user", "comment", "k1", "iso_type", "id"]
TYPE_POOL = {
    "ads_prop": ["k1", "comment", "formula", "alias", "tnew", "molar_mass"],
    "mat_prop": ["k1", "comment", "batch", "density", "tnew", "molar_mass"],
    "iso_type": ["pointisotherm", "modelisotherm", "isotherm", "calorimetry", "tnew"],
    "iso_prop": ["k1", "comment", "tnew"],
}

_TEXT = st.text(alphabet="abcXYZ é-_", min_size=1, max_size=6)
_VAL = {
    "text": _TEXT,
    # + 0.0: no negative zero (SQLite stores integral reals as integers, -0.0 comes back as 0.0: equal by value, and
    # whether the isotherm id should tell them apart is C05's subject)
    "float": st.floats(-1e3, 1e3, allow_nan=False).map(lambda x: round(x, 3) + 0.0),
    "int": st.sampled_from([0, 1, -3, 7, 42, 2 ** 31 + 5]),
    "numtext": st.sampled_from(["12", "-0.5", "1e3", " 7 ", "007", ".5"]),
    "booltext": st.sampled_from(["TRUE", "FALSE"]),
    "bool": st.booleans(),
    "empty": st.just(""),
    "list": st.lists(_TEXT, min_size=2, max_size=3, unique=True),
    # lists of reals, with zero allowed in any position (a falsy first element must not be dropped on retrieval)
    "list_float": st.lists(st.sampled_from([0.0, 2.5, 7.25, -1.5, 3.0]), min_size=2, max_size=3, unique=True),
}
_MAT_KINDS = ["text"] * 8 + ["float"] * 8 + ["int"] * 2 + ["numtext", "empty", "list", "list_float", "list_float"]
_ADS_KINDS = ["text"] * 8 + ["float"] * 8 + ["int"] * 2 + ["numtext", "empty", "list", "list_float", "list_float"]
_ISO_KINDS = ["text"] * 8 + ["float"] * 6 + ["bool"] * 2 + ["int", "numtext", "booltext", "empty"]


def _value(kinds):
    return st.sampled_from(kinds).flatmap(lambda k: _VAL[k])


def _material_item():
    return st.builds(lambda n, p: {"name": n, "props": p}, st.sampled_from(MAT_NAMES),
                     st.dictionaries(st.sampled_from(["density", "molar_mass", "batch", "comment", "k1"]),
                                     _value(_MAT_KINDS), max_size=3))


def _adsorbate_item():
    def mk(n, na, case, p):
        item = {"name": n, "props": p}
        if na:
            al = [f"{n}-a{k}" for k in range(na)]
            item["alias"] = [a.upper() if case else a for a in al]
        return item
    return st.builds(mk, st.sampled_from(CUSTOM_ADS), st.sampled_from([0, 0, 1, 2]), st.booleans(),
                     st.dictionaries(st.sampled_from(["formula", "molar_mass", "comment", "k1"]), _value(_ADS_KINDS),
                                     max_size=3))


_P_ABS = [r for r in S.ru.P_REPS if r[0] == "absolute"]
_L_DIM = [r for r in S.ru.L_REPS if r[1] is not None]


def _units():
    plain = st.builds(K.units_dict, st.sampled_from(_P_ABS), st.sampled_from(_L_DIM), S.m_rep(), S.t_unit())
    return st.sampled_from(["plain"] * 17 + ["any"] * 3).flatmap(lambda k: plain if k == "plain" else S.units())


@st.composite
def _isotherm_item(draw):
    kind = draw(st.sampled_from(["point"] * 6 + ["model"] * 2 + ["base"] * 2))
    it = {
        "kind": kind, "mat": draw(st.integers(0, 7)), "ads": draw(st.integers(0, 11)),
        "T": round(draw(st.floats(60.0, 500.0)), 2), "units": draw(_units()),
        "meta": draw(st.dictionaries(st.sampled_from(META_KEYS), _value(_ISO_KINDS), max_size=3)),
    }
    tsel = draw(st.sampled_from(["as_drawn"] * 8 + ["zero", "zero", "negative"]))
    if tsel != "as_drawn":  # the ice point and below: valid temperatures in degrees Celsius (0 is falsy)
        it["units"] = dict(it["units"], temperature_unit="°C")
        it["T"] = 0.0 if tsel == "zero" else -round(it["T"] / 10.0, 2)
    if kind == "point":
        data = draw(S.iso_data(min_points=1, max_points=6, desorption=True, grid=6))
        n = len(data["pressure"])
        it["pressure"], it["loading"] = data["pressure"], data["loading"]
        bk = draw(st.sampled_from(["guess"] * 8 + ["true", "user"]))
        if bk == "guess":
            it["branch"] = "guess"
        elif bk == "true":
            it["branch"] = data["branch_true"]
        else:
            it["branch"] = draw(st.lists(st.integers(0, 1), min_size=n, max_size=n))
        ek = draw(st.sampled_from(["none"] * 6 + ["float", "float", "text", "int"]))
        if ek == "float":
            it["extra"] = {"enthalpy": draw(st.lists(st.floats(-50, 50).map(lambda x: round(x, 4)), min_size=n, max_size=n))}
        elif ek == "text":
            it["extra"] = {"enthalpy": draw(st.lists(st.floats(0, 50).map(lambda x: round(x, 4)), min_size=n, max_size=n)),
                           "note": draw(st.lists(st.sampled_from(["a", "b", "c d"]), min_size=n, max_size=n))}
        elif ek == "int":
            it["extra"] = {"cycle": draw(st.lists(st.integers(0, 3), min_size=n, max_size=n))}
    elif kind == "model":
        name = draw(st.sampled_from(["Henry", "Langmuir", "Toth"]))
        pn = {"Henry": ["K"], "Langmuir": ["K", "n_m"], "Toth": ["n_m", "K", "t"]}[name]
        it["model"] = name
        it["params"] = {p: round(draw(st.floats(0.1, 10.0)), 4) for p in pn}
        it["rmse"] = round(draw(st.floats(0.0, 1.0)), 5)
        it["prange"] = [0.01, round(draw(st.floats(1.0, 20.0)), 3)]
        it["lrange"] = [0.0, round(draw(st.floats(1.0, 20.0)), 3)]
        it["mbranch"] = draw(st.sampled_from(["ads", "ads", "des"]))
    return it


def _other_case(name):
    """The same letters in another case (None when the name has no cased letters)."""
    for cand in (name.upper(), name.lower(), name.swapcase()):
        if cand != name:
            return cand
    return None


_OPS_ALL = (["iso_up"] * 6 + ["iso_del"] * 4 + ["iso_get"] * 3 + ["mat_up"] * 4 + ["mat_del"] * 3 + ["mat_get"] +
            ["ads_up"] * 4 + ["ads_del"] * 3 + ["ads_get"] + ["ptype_up"] * 3 + ["ptype_del"] * 2 + ["ptype_get"])


def _op(kinds, tables):
    return st.fixed_dictionaries({
        "op": st.sampled_from(kinds), "f": st.sampled_from([0, 0, 0, 1, 1, 2]), "i": st.integers(0, 11),
        "ow": st.sampled_from([False, False, True]), "auto": st.sampled_from([True, True, False]),
        "am": st.sampled_from([True] * 5 + [False]), "aa": st.sampled_from([True] * 5 + [False]),
        "by": st.sampled_from(["object", "key", "retrieved", "key", "key_other_case"]), "via": st.sampled_from(["func", "func", "method"]),
        "crit": st.sampled_from(["none", "none", "material", "adsorbate", "temperature", "iso_type", "mat+ads"]),
        "table": st.sampled_from(tables), "tv": st.integers(0, 2),
        "pick": st.sampled_from(["present", "present", "present", "absent", "any"]),
        "upick": st.sampled_from(["absent", "absent", "present", "any"]),
    })


def strat_history():
    return st.fixed_dictionaries({
        "nfiles": st.sampled_from([1, 1, 2, 2, 2, 3]),
        "mats": st.lists(_material_item(), min_size=1, max_size=4),
        "ads": st.lists(_adsorbate_item(), min_size=1, max_size=3),
        "isos": st.lists(_isotherm_item(), min_size=2, max_size=4),
        "ops": st.sampled_from([2, 4, 6, 8, 8, 10, 12, 12, 16, 20, 25]).flatmap(
            lambda n: st.lists(_op(_OPS_ALL, ["ads_prop", "mat_prop", "iso_type"]), min_size=n, max_size=n)),
    })


def strat_iso_prop_types():
    """Histories over the isotherm property-type table only (own check: the table is missing from the schema today)."""
    return st.fixed_dictionaries({
        "nfiles": st.sampled_from([1, 2]),
        "mats": st.just([{"name": "m-0", "props": {}}]), "ads": st.just([{"name": "gas-0", "props": {}}]),
        "isos": st.just([]),
        "ops": st.lists(_op(["ptype_up"] * 3 + ["ptype_del"] * 2 + ["ptype_get"], ["iso_prop"]), min_size=2, max_size=10),
    })


# =====================================================================================================================
# descriptors -> objects
# =====================================================================================================================
def _build_material(item):
    return Material(item["name"], **_clone(item["props"]))


def _clone(v):
    if isinstance(v, dict):
        return {k: _clone(x) for k, x in v.items()}
    if isinstance(v, list):
        return [_clone(x) for x in v]
    return v


def _ads_refs(desc):
    return [("custom", it) for it in desc["ads"]] + [("stock", n) for n in STOCK_ADS]


def _build_adsorbate(ref):
    kind, it = ref
    if kind == "stock":
        d = K.get_adsorbate(it).to_dict()
        return Adsorbate(d.pop("name"), **_clone(d))
    kw = _clone(it["props"])
    if it.get("alias"):
        kw["alias"] = list(it["alias"])
    return Adsorbate(it["name"], **kw)


def _build_isotherm(it, desc):
    mat = _build_material(desc["mats"][it["mat"] % len(desc["mats"])])
    refs = _ads_refs(desc)
    ref = refs[it["ads"] % len(refs)]
    # stock adsorbates are resolved by name from the pristine registry; a custom Adsorbate object is attached through
    # the public setter afterwards (the constructors evaluate `None in [material, adsorbate, temperature]`, which
    # calls Adsorbate.__eq__(None) and crashes for Adsorbate instances - a constructor matter, outside this property)
    ads_name = ref[1] if ref[0] == "stock" else ref[1]["name"]
    kw = dict(material=mat, adsorbate=ads_name, temperature=it["T"], **it["units"])
    kw.update(_clone(it["meta"]))
    iso = _construct_isotherm(it, kw)
    if ref[0] == "custom":
        iso.adsorbate = _build_adsorbate(ref)
    # the labels a permanent conversion (convert_loading / convert_pressure) leaves behind for unit-less
    # representations: stated explicitly so that the stored object does not depend on constructor defaulting
    if iso.loading_basis in ("fraction", "percent"):
        iso.loading_unit = None
    if iso.pressure_mode != "absolute":
        iso.pressure_unit = None
    return iso


def _construct_isotherm(it, kw):
    if it["kind"] == "base":
        return BaseIsotherm(**kw)
    if it["kind"] == "model":
        model = get_isotherm_model(it["model"], parameters=dict(it["params"]), rmse=it["rmse"],
                                   pressure_range=list(it["prange"]), loading_range=list(it["lrange"]))
        return pygaps.ModelIsotherm(model=model, branch=it["mbranch"], **kw)
    branch = it["branch"] if it["branch"] == "guess" else [bool(b) for b in it["branch"]]
    if it.get("extra"):
        data = {"pressure": list(it["pressure"]), "loading": list(it["loading"])}
        for k, v in it["extra"].items():
            data[k] = list(v)
        return pygaps.PointIsotherm(isotherm_data=pd.DataFrame(data), pressure_key="pressure", loading_key="loading",
                                    branch=branch, **kw)
    return pygaps.PointIsotherm(pressure=list(it["pressure"]), loading=list(it["loading"]), branch=branch, **kw)


def _flatten(props):
    """{type: [values]} as the store keeps it (one row per value; an empty collection stores nothing)."""
    out = {}
    for k, v in props.items():
        vals = list(v) if isinstance(v, (list, tuple, set)) else [v]
        if vals:
            out[k] = vals
    return out


_ISO_TYPE = {"point": "pointisotherm", "model": "modelisotherm", "base": "isotherm"}
_CLS_KIND = {pygaps.PointIsotherm: "point", pygaps.ModelIsotherm: "model", BaseIsotherm: "base"}


# =====================================================================================================================
# independent inspection
# =====================================================================================================================
def _dump(path):
    con = sqlite3.connect(path)
    try:
        out = {}
        names = [r[0] for r in con.execute("SELECT name FROM sqlite_master WHERE type='table' ORDER BY name")]
        for t in names:
            out[t] = con.execute(f'SELECT * FROM "{t}"').fetchall()
        out["fk"] = con.execute("PRAGMA foreign_key_check").fetchall()
        out["ic"] = con.execute("PRAGMA integrity_check").fetchall()
        return out
    finally:
        con.close()


def _bytes_hash(path):
    with open(path, "rb") as f:
        return hashlib.md5(f.read()).hexdigest()


def _logical(d):
    """the dump without the autoincrement bookkeeping table"""
    return {k: v for k, v in d.items() if k != "sqlite_sequence"}


# =====================================================================================================================
# the dict model of ONE file
# =====================================================================================================================
class FileModel:
    def __init__(self, init):
        self.ads = dict(init["ads"])  # shallow: the per-adsorbate dicts are replaced, never mutated in place
        self.mats = {}
        self.types = {
            "ads_prop": dict(init["ads_types"]), "mat_prop": {}, "iso_type": dict(init["iso_types"]), "iso_prop": {},
        }
        self.isos = {}  # iso_id -> entry dict(item index, obj, pk, n_props (lo, hi), n_data, mat, ads, kind)

    def mat_referenced(self, name):
        return any(e["mat"] == name for e in self.isos.values())

    def ads_referenced(self, name):
        return any(e["ads"] == name for e in self.isos.values())

    def type_referenced(self, table, typ):
        if table == "ads_prop":
            return any(typ in p for p in self.ads.values())
        if table == "mat_prop":
            return any(typ in p for p in self.mats.values())
        if table == "iso_type":
            return any(_ISO_TYPE[e["kind"]] == typ for e in self.isos.values())
        return False


_TYPE_TABLE = {"ads_prop": "adsorbate_properties_type", "mat_prop": "material_properties_type",
               "iso_type": "isotherm_type", "iso_prop": "isotherm_properties_type"}
_TYPE_API = {
    "ads_prop": (pgsql.adsorbate_property_type_to_db, pgsql.adsorbate_property_types_from_db,
                 pgsql.adsorbate_property_type_delete_db),
    "mat_prop": (pgsql.material_property_type_to_db, pgsql.material_property_types_from_db,
                 pgsql.material_property_type_delete_db),
    "iso_type": (pgsql.isotherm_type_to_db, pgsql.isotherm_types_from_db, pgsql.isotherm_type_delete_db),
    "iso_prop": (pgsql.isotherm_property_type_to_db, pgsql.isotherm_property_types_from_db,
                 pgsql.isotherm_property_type_delete_db),
}


# =====================================================================================================================
# value comparison and cause classification
# =====================================================================================================================
def _numeric_text(s):
    try:
        float(s.strip())
        return True
    except ValueError:
        return False


def _val_cause(v, r, iso):
    """None when the retrieved value r equals the stored value v, else a short cause name."""
    if isinstance(v, bool) or isinstance(r, bool):
        if type(v) is type(r) and v == r:
            return None
        if iso and isinstance(v, str) and v in ("TRUE", "FALSE") and r is (v == "TRUE"):
            return "bool_text"
        return "other"
    if isinstance(v, (int, float)) and isinstance(r, (int, float)):
        if v == r:
            if iso and isinstance(v, int) and isinstance(r, float):
                return "int_to_float"  # equal by value, but the isotherm id is computed from the JSON text
            return None
        return "other"
    if isinstance(v, str) and isinstance(r, float) and _numeric_text(v) and float(v.strip()) == r:
        return "numeric_text"
    if type(v) is type(r) and v == r:
        return None
    return "other"


def _props_causes(model_flat, got_props, iso=False):
    """model_flat {type: [values]} vs a retrieved properties dict -> sorted list of causes (empty = equal)."""
    causes = set()
    for k in set(model_flat) | set(got_props):
        if k not in model_flat:
            causes.add(f"other:extra_key:{k}")
            continue
        if k not in got_props:
            causes.add(f"other:missing_key:{k}")
            continue
        vals, r = model_flat[k], got_props[k]
        if len(vals) == 1:
            c = _val_cause(vals[0], r, iso)
            if c:
                causes.add(c if c != "other" else f"other:value:{k}")
        else:
            if isinstance(r, list) and sorted(map(repr, r)) == sorted(map(repr, vals)):
                continue
            if not isinstance(r, list) and any(_val_cause(v, r, iso) is None for v in vals):
                causes.add("list_lost")
            else:
                causes.add(f"other:value:{k}")
    return sorted(causes)


# =====================================================================================================================
# the interpreter
# =====================================================================================================================
class Run:
    def __init__(self, desc, ctx, check_name):
        self.desc, self.ctx, self.check_name = desc, ctx, check_name
        self.viol = []
        self.seen_tags = set()
        self.nfiles = desc["nfiles"]
        self.trace = []
        self.refusals = 0
        self.reinserts = 0
        self.written = set()
        self.ads_written = set()
        self.deleted_keys = set()
        self.touched = {}  # ("mat"|"ads", name) -> number of earlier operations of the session that involved the name

    # ---- bookkeeping
    def soft(self, tag, msg):
        if tag not in self.seen_tags:
            self.seen_tags.add(tag)
            self.viol.append(Violation(msg, tag=tag))

    def hard(self, tag, msg):
        self.viol.append(Violation(msg, tag=tag))
        self.finish()

    def finish(self):
        for v in self.viol:
            if not any(p(self.check_name, self.desc, v) for p in KNOWN_PREDICATES):
                raise v
        if self.viol:
            raise self.viol[0]

    def touch(self, kind, name):
        self.touched[(kind, name)] = self.touched.get((kind, name), 0) + 1

    def ntouched(self, kind, name):
        return self.touched.get((kind, name), 0)

    # ---- set-up
    def setup(self, workdir):
        tpl = _template()
        self.paths, self.models, self.dumps, self.hashes = [], [], [], []
        for k in range(self.nfiles):
            p = os.path.join(workdir, f"db{k}.db")
            shutil.copyfile(tpl["path"], p)
            self.paths.append(p)
            self.models.append(FileModel(tpl["init"]))
            self.hashes.append(_bytes_hash(p))
        self.dumps = [_logical(_dump(self.paths[0]))] * self.nfiles  # byte-identical copies of the template
        desc = self.desc
        self.iso_objs = [_build_isotherm(it, desc) for it in desc["isos"]]
        self.iso_in_file = [set() for _ in range(self.nfiles)]  # item indices uploaded to each file (for choose())
        self.iso_ids = {}  # item index -> id at first use (an id costs ~3 ms)

    def key(self, idx):
        if idx not in self.iso_ids:
            self.iso_ids[idx] = self.iso_objs[idx].iso_id
        return self.iso_ids[idx]

    def choose(self, op, n, present, want_present_field):
        """index into a pool of n items: the descriptor says whether an item present in / absent from the target file
        (according to the model) is preferred, so that deletes, duplicates, overwrites and criteria hit often; the raw
        index is used when no such item exists. A pure function of the descriptor and the history so far."""
        mode = op[want_present_field]
        cands = list(range(n))
        if mode == "present":
            cands = [i for i in cands if present(i)] or cands
        elif mode == "absent":
            cands = [i for i in cands if not present(i)] or cands
        return cands[op["i"] % len(cands)]

    # ---- calls
    @staticmethod
    def call(fn, *a, **k):
        try:
            return "ok", fn(*a, **k)
        except ParsingError as e:
            return "refused", e

    # ---- verification after a mutating call
    def after(self, f, where, expected, observed, err, reason):
        """expected in ok/refused/either. Returns True when the call took effect (observed ok)."""
        path = self.paths[f]
        h_new = _bytes_hash(path)
        if h_new == self.hashes[f]:
            # byte-identical file (the usual result of a rolled-back transaction): same logical content, checks done
            d, logical = None, self.dumps[f]
        else:
            d = _dump(path)
            logical = _logical(d)
        if observed == "refused":
            if logical != self.dumps[f]:
                changed = [t for t in logical if logical[t] != self.dumps[f].get(t)]
                self.hard("refused_changed_state", f"{where}: refused ({str(err)[:160]}) but tables {changed} of the target "
                                                   "file changed")
        for k in range(self.nfiles):
            if k == f:
                continue
            h = _bytes_hash(self.paths[k])
            if h != self.hashes[k]:
                if _logical(_dump(self.paths[k])) != self.dumps[k]:
                    self.hard("other_file_changed", f"{where}: targeted file {f} but file {k} changed")
                self.hashes[k] = h
        self.hashes[f] = h_new
        self.dumps[f] = logical
        if d is not None and (d["fk"] or d["ic"] != [("ok",)]):
            self.hard("raw:pragma_check", f"{where}: foreign_key_check={d['fk'][:3]} integrity_check={d['ic'][:3]}")
        if observed == "refused":
            self.ctx.label("refused:" + (reason or "unpredicted"))
            if expected == "refused":
                self.refusals += 1
        return observed == "ok"

    def raw_check(self, f, where):
        """names / ids, row counts and orphans of file f against the model (independent connection dump)."""
        d, m = self.dumps[f], self.models[f]

        def bad(what, got, exp):
            self.hard("raw:" + what, f"{where}: file {f}: {what}: store has {got}, model predicts {exp}")

        names = sorted(r[1] for r in d["adsorbates"])
        if names != sorted(m.ads):
            bad("adsorbate_names", sorted(set(names) ^ set(m.ads)), "symmetric difference empty")
        names = sorted(r[1] for r in d["materials"])
        if names != sorted(m.mats):
            bad("material_names", names, sorted(m.mats))
        ids = sorted(r[0] for r in d["isotherms"])
        if ids != sorted(m.isos):
            bad("isotherm_ids", ids, sorted(m.isos))
        for table in ("ads_prop", "mat_prop", "iso_type"):
            got = sorted(r[1] for r in d[_TYPE_TABLE[table]])
            if got != sorted(m.types[table]):
                bad(_TYPE_TABLE[table], sorted(set(got) ^ set(m.types[table])), "symmetric difference empty")
        if _TYPE_TABLE["iso_prop"] in d:
            got = sorted(r[1] for r in d[_TYPE_TABLE["iso_prop"]])
            if got != sorted(m.types["iso_prop"]):
                bad(_TYPE_TABLE["iso_prop"], got, sorted(m.types["iso_prop"]))
        n = sum(len(v) for p in m.ads.values() for v in p.values())
        if len(d["adsorbate_properties"]) != n:
            bad("adsorbate_properties_rows", len(d["adsorbate_properties"]), n)
        n = sum(len(v) for p in m.mats.values() for v in p.values())
        if len(d["material_properties"]) != n:
            bad("material_properties_rows", len(d["material_properties"]), n)
        lo = sum(e["n_props"][0] for e in m.isos.values())
        hi = sum(e["n_props"][1] for e in m.isos.values())
        if not lo <= len(d["isotherm_properties"]) <= hi:
            bad("isotherm_properties_rows", len(d["isotherm_properties"]), f"{lo}..{hi}")
        n = sum(e["n_data"] for e in m.isos.values())
        if len(d["isotherm_data"]) != n:
            bad("isotherm_data_rows", len(d["isotherm_data"]), n)
        for child, col, parent in (("adsorbate_properties", 1, "adsorbates"), ("material_properties", 1, "materials"),
                                   ("isotherm_properties", 1, "isotherms"), ("isotherm_data", 1, "isotherms")):
            pids = {r[0] for r in d[parent]}
            orphans = [r for r in d[child] if r[col] not in pids]
            if orphans:
                bad("orphan_rows_" + child, orphans[:3], "none")

    # ---- API re-reads
    def cmp_mats(self, f, where):
        got = pgsql.materials_from_db(db_path=self.paths[f], verbose=False)
        m = self.models[f]
        if sorted(x.name for x in got) != sorted(m.mats):
            self.soft("mat_get:set", f"{where}: materials_from_db(file {f}) returns {sorted(x.name for x in got)}, "
                                     f"model holds {sorted(m.mats)}")
            return got
        for x in got:
            causes = _props_causes(m.mats[x.name], x.properties)
            if causes:
                self.soft("mat_get:differs:" + "+".join(_short(causes)),
                          f"{where}: material {x.name!r} stored with {m.mats[x.name]} comes back from file {f} with "
                          f"{x.properties} ({causes})")
        self.ctx.label("reread:materials")
        return got

    def cmp_ads(self, f, where):
        got = pgsql.adsorbates_from_db(db_path=self.paths[f], verbose=False)
        m = self.models[f]
        if sorted(x.name for x in got) != sorted(m.ads):
            self.soft("ads_get:set", f"{where}: adsorbates_from_db(file {f}) names differ from the model by "
                                     f"{sorted(set(x.name for x in got) ^ set(m.ads))}")
            return got
        for x in got:
            flat = dict(m.ads[x.name])
            alias = flat.pop("alias", [])
            exp_alias = sorted({str(a).lower() for a in alias} | {x.name.lower()})
            if sorted(x.alias) != exp_alias:
                self.soft("ads_get:differs:alias", f"{where}: adsorbate {x.name!r}: aliases {sorted(x.alias)} != stored "
                                                   f"{exp_alias}")
            causes = _props_causes(flat, x.properties)
            if causes:
                self.soft("ads_get:differs:" + "+".join(_short(causes)),
                          f"{where}: adsorbate {x.name!r} stored with {flat} comes back from file {f} with "
                          f"{x.properties} ({causes})")
        self.ctx.label("reread:adsorbates")
        return got

    def cmp_types(self, f, table, where):
        got = _TYPE_API[table][1](db_path=self.paths[f], verbose=False)
        m = self.models[f].types[table]
        if table == "iso_type":
            exp = sorted(canon({"type": t, "description": v[0]}) for t, v in m.items())
        else:
            exp = sorted(canon({"type": t, "unit": v[0], "description": v[1]}) for t, v in m.items())
        if sorted(canon(g) for g in got) != exp:
            diff = sorted(set(canon(g) for g in got) ^ set(exp))
            self.soft(f"ptype_get:differs:{table}", f"{where}: {_TYPE_TABLE[table]} of file {f} read through the API "
                                                    f"differs from the model in {diff[:4]}")
        self.ctx.label("reread:types")

    def pair(self, got):
        by = {}
        for r in got:
            by.setdefault(_pk_of(r), []).append(r)
        return by

    def cmp_isos(self, f, where, crit=None, crit_desc="no criteria"):
        """re-read isotherms (optionally filtered), pair with the model by (class, material, adsorbate, T) and
        compare. Returns {iso_id: (retrieved, causes)} for unambiguously paired ones."""
        m = self.models[f]
        got = pgsql.isotherms_from_db(criteria=crit, db_path=self.paths[f], verbose=False)
        expected = {k: e for k, e in m.isos.items() if _matches(e, crit)}
        exp_pks = sorted(canon(e["pk"]) for e in expected.values())
        got_pks = sorted(_pk_of(r) for r in got)
        if exp_pks != got_pks:
            self.soft("iso_get:set", f"{where}: isotherms_from_db(file {f}, {crit_desc}) returns "
                                     f"{got_pks}, model predicts {exp_pks}")
            return {}
        by = self.pair(got)
        out = {}
        for key, e in expected.items():
            cands = by[canon_pk(e["pk"])]
            if len(cands) != 1:
                self.ctx.label("ambiguous_pairing")
                continue
            r = cands[0]
            causes, consistent = self.iso_diff(f, e, r)
            out[key] = (r, causes, consistent)
            self.ctx.label("iso_compared")
            if causes and ("iso_get:differs:" + "+".join(_short(causes))) not in self.seen_tags:
                self.soft("iso_get:differs:" + "+".join(_short(causes)),
                          f"{where}: isotherm item {e['item']} ({e['kind']}, id {key}) retrieved from file {f} ({crit_desc}) "
                          f"differs from the stored one: {causes}; stored metadata {dict(e['obj'].properties)}, retrieved "
                          f"metadata {dict(r.properties)}, retrieved id {r.iso_id}")
            elif consistent and not causes:
                if not (r.iso_id == key and r == e["obj"]):
                    self.soft("iso_get:differs:other:id_only",
                              f"{where}: isotherm item {e['item']} retrieved from file {f} has equal fields but "
                              f"id {r.iso_id} != stored id {key}")
                else:
                    self.ctx.label("iso_equal_by_id")
        return out

    def iso_diff(self, f, e, r):
        s, it = e["obj"], self.desc["isos"][e["item"]]
        causes = set()
        if s.units != r.units:
            causes.add("other:units")
        if s._temperature != r._temperature:
            causes.add("other:temperature")
        sp, rp = dict(s.properties), dict(r.properties)
        for k in set(sp) | set(rp):
            if k not in sp:
                if k == "iso_type" and rp[k] == _ISO_TYPE[e["kind"]]:
                    causes.add("iso_type_leak")
                else:
                    causes.add(f"other:extra_key:{k}")
            elif k not in rp:
                causes.add("id_key_lost" if k == "id" else f"other:missing_key:{k}")
            else:
                c = _val_cause(sp[k], rp[k], True)
                if c:
                    causes.add(c if c != "other" else f"other:value:{k}")
        if e["kind"] == "model":
            if canon(s.model.to_dict()) != canon(r.model.to_dict()):
                causes.add("other:model")
            if s.branch != r.branch:
                causes.add("other:model_branch")
        if e["kind"] == "point":
            sd, rd = s.data_raw, r.data_raw
            if list(sd.columns) != list(rd.columns):
                causes.add("other:columns")
            else:
                for c in sd.columns:
                    a, b = sd[c].tolist(), rd[c].tolist()
                    if c == "branch":
                        if [int(x) for x in a] != [int(x) for x in b]:
                            causes.add("branch_not_stored" if isinstance(it["branch"], list) else "other:branch")
                    elif a != b or str(sd[c].dtype) != str(rd[c].dtype):
                        causes.add(f"other:data:{c}")
                if list(sd.index) != list(rd.index):
                    causes.add("other:index")
        # material content: required only when the isotherm was stored with the content the file holds for that name
        file_mat = self.models[f].mats.get(e["mat"])
        # (type-strict: 0 and 0.0 are equal in python but are different content for the isotherm id)
        consistent = file_mat is not None and canon(file_mat) == canon(_flatten(s.material.properties))
        if consistent and _props_causes(file_mat, r.material.properties):
            # known defect, stated exactly: the retrieved isotherm carries the properties of the registry entry of
            # that name (none when the registry has no entry) instead of the file's
            reg = next((x.properties for x in MATERIAL_LIST if x.name == e["mat"]), {})
            if r.material.properties == reg and self.ntouched("mat", e["mat"]) >= 2:
                causes.add("material_from_registry")
            else:
                causes.add("other:material_props")
        return sorted(causes), consistent

    def reread_after(self, f, where, what):
        if "mats" in what:
            self.cmp_mats(f, where)
            self.cmp_types(f, "mat_prop", where)
        if "ads" in what:
            self.cmp_ads(f, where)
            self.cmp_types(f, "ads_prop", where)
        if "isos" in what:
            self.cmp_isos(f, where)

    # ---- operations
    def step(self, n, op):
        kind = op["op"]
        f = op["f"] % self.nfiles
        where = f"step {n} {kind}"
        getattr(self, "op_" + kind)(n, op, f, where)

    def record(self, *parts):
        self.trace.append(list(parts))

    # materials ------------------------------------------------------------------------------------------------------
    def op_mat_up(self, n, op, f, where):
        m = self.models[f]
        mats = self.desc["mats"]
        mi = self.choose(op, len(mats), lambda i: mats[i]["name"] in m.mats, "pick" if op["ow"] else "upick")
        item = mats[mi]
        name, flat = item["name"], _flatten(item["props"])
        where = f"{where} material_to_db({item}, file {f}, overwrite={op['ow']}, autoinsert_properties={op['auto']})"
        missing = [k for k in flat if k not in m.types["mat_prop"]]
        if not op["ow"] and name in m.mats:
            exp, reason = "refused", "duplicate"
        elif not op["auto"] and missing:
            exp, reason = "refused", "unknown_ref"
        elif op["ow"] and name not in m.mats:
            exp, reason = "either", "overwrite_absent"
        else:
            exp, reason = "ok", None
        obs, err = self.call(pgsql.material_to_db, _build_material(item), db_path=self.paths[f],
                             autoinsert_properties=op["auto"], overwrite=op["ow"], verbose=False)
        self.touch("mat", name)
        self.outcome("material_to_db", where, exp, obs, err, reason)
        if self.after(f, where, exp, obs, err, reason):
            if name in self.deleted_keys_of(f, "mat"):
                self.reinserts += 1
            m.mats[name] = flat
            if op["auto"]:
                for k in missing:
                    m.types["mat_prop"][k] = (None, None)
            self.written.add(f)
            self.raw_check(f, where)
            self.reread_after(f, where, {"mats"})
        self.record("mat_up", f, mi, op["ow"], op["auto"], obs)

    def deleted_keys_of(self, f, kind):
        return {k for (ff, kk, k) in self.deleted_keys if ff == f and kk == kind}

    def outcome(self, api, where, exp, obs, err, reason, cause=None):
        """compare the outcome class with the prediction; an unexpected success cannot be followed by the model."""
        self.ctx.label(f"{api}:{obs}")
        if exp == "either" or exp == obs:
            return
        if obs == "refused":
            self.soft(f"{api}:unexpected_refusal:{cause or 'other'}",
                      f"{where}: the model of the target file predicts success, the store refused: {str(err)[:300]}")
        else:
            self.hard(f"{api}:unexpected_success:{reason}",
                      f"{where}: the model of the target file predicts a refusal ({reason}), the call succeeded")

    def op_mat_del(self, n, op, f, where):
        m = self.models[f]
        mats = self.desc["mats"]
        mi = self.choose(op, len(mats), lambda i: mats[i]["name"] in m.mats, "pick")
        item = mats[mi]
        name = item["name"]
        arg, by = name, op["by"]
        if by == "object":
            arg = _build_material(item)
        elif by == "retrieved":
            got = [x for x in pgsql.materials_from_db(db_path=self.paths[f], verbose=False) if x.name == name]
            if got:
                arg = got[0]
            else:
                by = "key"
        other = _other_case(name) if by == "key_other_case" else None
        if by == "key_other_case" and (other is None or other in m.mats):
            by = "key"
        if by == "key_other_case":
            where = f"{where} material_delete_db({other!r} (stored: {name!r}) by key, file {f})"
            obs, err = self.call(pgsql.material_delete_db, other, db_path=self.paths[f], verbose=False)
            self.outcome("material_delete_db", where, "refused", obs, err, "absent")
            self.after(f, where, "refused", obs, err, "absent")
            self.ctx.label("delete_other_case")
            self.record("mat_del", f, mi, by, obs)
            return
        where = f"{where} material_delete_db({name!r} by {by}, file {f})"
        if name not in m.mats:
            exp, reason = "refused", "absent"
        elif m.mat_referenced(name):
            exp, reason = "refused", "still_referenced"
        else:
            exp, reason = "ok", None
        obs, err = self.call(pgsql.material_delete_db, arg, db_path=self.paths[f], verbose=False)
        self.touch("mat", name)
        self.outcome("material_delete_db", where, exp, obs, err, reason)
        if self.after(f, where, exp, obs, err, reason):
            del m.mats[name]
            self.deleted_keys.add((f, "mat", name))
            self.written.add(f)
            self.raw_check(f, where)
            self.reread_after(f, where, {"mats"})
        self.record("mat_del", f, mi, by, obs)

    def op_mat_get(self, n, op, f, where):
        self.cmp_mats(f, f"{where} materials_from_db(file {f})")
        self.cmp_types(f, "mat_prop", where)
        self.record("mat_get", f)

    # adsorbates -----------------------------------------------------------------------------------------------------
    def op_ads_up(self, n, op, f, where):
        refs = _ads_refs(self.desc)
        m = self.models[f]
        ai = self.choose(op, len(refs), lambda i: _ref_name(refs[i]) in m.ads, "pick" if op["ow"] else "upick")
        ref = refs[ai]
        obj = _build_adsorbate(ref)
        name = obj.name
        d = obj.to_dict()
        d.pop("name")
        flat = _flatten(d)
        where = (f"{where} adsorbate_to_db({ref[1] if ref[0] == 'custom' else name}, file {f}, overwrite={op['ow']}, "
                 f"autoinsert_properties={op['auto']})")
        missing = [k for k in flat if k not in m.types["ads_prop"]]
        if not op["ow"] and name in m.ads:
            exp, reason = "refused", "duplicate"
        elif not op["auto"] and missing:
            exp, reason = "refused", "unknown_ref"
        elif op["ow"] and name not in m.ads:
            exp, reason = "either", "overwrite_absent"
        else:
            exp, reason = "ok", None
        obs, err = self.call(pgsql.adsorbate_to_db, obj, db_path=self.paths[f], autoinsert_properties=op["auto"],
                             overwrite=op["ow"], verbose=False)
        self.touch("ads", name)
        self.outcome("adsorbate_to_db", where, exp, obs, err, reason)
        if self.after(f, where, exp, obs, err, reason):
            if name in self.deleted_keys_of(f, "ads"):
                self.reinserts += 1
            m.ads[name] = flat
            self.ads_written.add(f)
            if op["auto"]:
                for k in missing:
                    m.types["ads_prop"][k] = (None, None)
            self.written.add(f)
            self.raw_check(f, where)
            self.reread_after(f, where, {"ads"})
        self.record("ads_up", f, ai, op["ow"], op["auto"], obs)

    def op_ads_del(self, n, op, f, where):
        refs = _ads_refs(self.desc)
        m = self.models[f]
        ai = self.choose(op, len(refs), lambda i: _ref_name(refs[i]) in m.ads, "pick")
        ref = refs[ai]
        obj = _build_adsorbate(ref)
        name = obj.name
        arg, by = name, op["by"]
        if by == "object":
            arg = obj
        elif by == "retrieved":
            got = [x for x in pgsql.adsorbates_from_db(db_path=self.paths[f], verbose=False) if x.name == name]
            if got:
                arg = got[0]
            else:
                by = "key"
        other = _other_case(name) if by == "key_other_case" else None
        if by == "key_other_case" and (other is None or other in m.ads):
            by = "key"
        if by == "key_other_case":
            # the same letters in another case are ANOTHER key (what the target file holds decides, not what the session
            # knows): the deletion is one of an absent item
            where = f"{where} adsorbate_delete_db({other!r} (stored: {name!r}) by key, file {f})"
            obs, err = self.call(pgsql.adsorbate_delete_db, other, db_path=self.paths[f], verbose=False)
            self.outcome("adsorbate_delete_db", where, "refused", obs, err, "absent")
            self.after(f, where, "refused", obs, err, "absent")
            self.ctx.label("delete_other_case")
            self.record("ads_del", f, ai, by, obs)
            return
        where = f"{where} adsorbate_delete_db({name!r} by {by}, file {f})"
        if name not in m.ads:
            exp, reason = "refused", "absent"
        elif m.ads_referenced(name):
            exp, reason = "refused", "still_referenced"
        else:
            exp, reason = "ok", None
        obs, err = self.call(pgsql.adsorbate_delete_db, arg, db_path=self.paths[f], verbose=False)
        self.touch("ads", name)
        self.outcome("adsorbate_delete_db", where, exp, obs, err, reason)
        if self.after(f, where, exp, obs, err, reason):
            del m.ads[name]
            self.ads_written.add(f)
            self.deleted_keys.add((f, "ads", name))
            self.written.add(f)
            self.raw_check(f, where)
            self.reread_after(f, where, {"ads"})
        self.record("ads_del", f, ai, by, obs)

    def op_ads_get(self, n, op, f, where):
        self.cmp_ads(f, f"{where} adsorbates_from_db(file {f})")
        self.cmp_types(f, "ads_prop", where)
        self.record("ads_get", f)

    # property / isotherm types --------------------------------------------------------------------------------------
    def _type_dict(self, op, table, f, field):
        pool = TYPE_POOL[table]
        m = self.models[f]
        typ = pool[self.choose(op, len(pool), lambda i: pool[i] in m.types[table], field)]
        d = {"type": typ}
        if table != "iso_type" and op["tv"] >= 1:
            d["unit"] = f"u{op['tv']}"
        if op["tv"] == 2:
            d["description"] = f"about {typ} é"
        return typ, d

    def op_ptype_up(self, n, op, f, where):
        table = op["table"]
        typ, d = self._type_dict(op, table, f, "pick" if op["ow"] else "upick")
        m = self.models[f]
        where = f"{where} {_TYPE_API[table][0].__name__}({d}, file {f}, overwrite={op['ow']})"
        if not op["ow"] and typ in m.types[table]:
            exp, reason = "refused", "duplicate"
        elif op["ow"] and typ not in m.types[table]:
            exp, reason = "either", "overwrite_absent"
        else:
            exp, reason = "ok", None
        obs, err = self.call(_TYPE_API[table][0], dict(d), db_path=self.paths[f], overwrite=op["ow"], verbose=False)
        self.outcome("type_to_db", where, exp, obs, err, reason)
        if self.after(f, where, exp, obs, err, reason):
            val = (d.get("description"),) if table == "iso_type" else (d.get("unit"), d.get("description"))
            if exp == "either":
                # property silent: the store may have inserted the type or ignored the call - follow it
                present = any(r[1] == typ for r in self.dumps[f][_TYPE_TABLE[table]])
                self.ctx.label("overwrite_absent_type:" + ("stored" if present else "ignored"))
                if present:
                    m.types[table][typ] = val
            else:
                if (f, table, typ) in self.deleted_keys:
                    self.reinserts += 1
                m.types[table][typ] = val
            self.written.add(f)
            self.raw_check(f, where)
            self.cmp_types(f, table, where)
        self.record("ptype_up", f, table, typ, op["tv"], op["ow"], obs)

    def op_ptype_del(self, n, op, f, where):
        table = op["table"]
        typ, _ = self._type_dict(op, table, f, "pick")
        m = self.models[f]
        where = f"{where} {_TYPE_API[table][2].__name__}({typ!r}, file {f})"
        if typ not in m.types[table]:
            exp, reason = "refused", "absent"
        elif m.type_referenced(table, typ):
            exp, reason = "refused", "still_referenced"
        else:
            exp, reason = "ok", None
        obs, err = self.call(_TYPE_API[table][2], typ, db_path=self.paths[f], verbose=False)
        self.outcome("type_delete_db", where, exp, obs, err, reason)
        if self.after(f, where, exp, obs, err, reason):
            del m.types[table][typ]
            self.deleted_keys.add((f, table, typ))
            self.written.add(f)
            self.raw_check(f, where)
            self.cmp_types(f, table, where)
        self.record("ptype_del", f, table, typ, obs)

    def op_ptype_get(self, n, op, f, where):
        self.cmp_types(f, op["table"], f"{where} {_TYPE_API[op['table']][1].__name__}(file {f})")
        self.record("ptype_get", f, op["table"])

    # isotherms ------------------------------------------------------------------------------------------------------
    def _iso_entry(self, idx):
        it, obj = self.desc["isos"][idx], self.iso_objs[idx]
        units_vals = list(it["units"].values())
        if it["units"]["pressure_mode"] != "absolute":
            units_vals[list(it["units"]).index("pressure_unit")] = None  # the constructor drops it
        n_all = len(units_vals) + len(it["meta"]) + (1 if it["kind"] == "model" else 0)
        n_none = sum(1 for v in units_vals if v is None)
        n_data = {"point": 2 + len(it.get("extra") or {}), "model": 1, "base": 0}[it["kind"]]
        return {"item": idx, "obj": obj, "kind": it["kind"], "mat": obj.material.name, "ads": obj.adsorbate.name,
                "pk": [it["kind"], obj.material.name, obj.adsorbate.name, float(it["T"])],
                "n_props": (n_all - n_none, n_all), "n_data": n_data, "none_unit": n_none > 0}

    def op_iso_up(self, n, op, f, where):
        if not self.desc["isos"]:
            return
        idx = self.choose(op, len(self.desc["isos"]), lambda i: i in self.iso_in_file[f], "upick")
        e = self._iso_entry(idx)
        it, obj, key = self.desc["isos"][idx], e["obj"], self.key(idx)
        m = self.models[f]
        where = (f"{where} isotherm_to_db(item {idx}: {it['kind']} on {e['mat']!r} / {e['ads']!r}, file {f}, "
                 f"autoinsert_material={op['am']}, autoinsert_adsorbate={op['aa']}, via {op['via']})")
        need_mat, need_ads = e["mat"] not in m.mats, e["ads"] not in m.ads
        if key in m.isos:
            exp, reason = "refused", "duplicate"
        elif _ISO_TYPE[it["kind"]] not in m.types["iso_type"]:
            exp, reason = "refused", "unknown_ref"
        elif (need_mat and not op["am"]) or (need_ads and not op["aa"]):
            exp, reason = "refused", "unknown_ref"
        else:
            exp, reason = "ok", None
        # classification of a possible unexpected refusal (pure function of the descriptor and the earlier operations)
        cause = None
        if exp == "ok":
            possible = []
            if e["none_unit"]:
                possible.append("none_unit")
            if any(isinstance(v, int) for col in (it.get("extra") or {}).values() for v in col):
                possible.append("int_column")
            # the known auto-insert defect, stated exactly: an auto-insert decision for which membership in the
            # process-global registry disagrees with membership in the target file (only used to CLASSIFY a refusal
            # the model did not predict; the prediction itself never looks at the registries)
            if (op["am"] and need_mat != (obj.material not in MATERIAL_LIST)) or (
                    op["aa"] and need_ads != (obj.adsorbate not in ADSORBATE_LIST)):
                possible.append("registry")
            cause = "+".join(possible) or None
        if op["via"] == "method":
            obs, err = self.call(obj.to_db, db_path=self.paths[f], verbose=False, autoinsert_material=op["am"],
                                 autoinsert_adsorbate=op["aa"])
        else:
            obs, err = self.call(pgsql.isotherm_to_db, obj, db_path=self.paths[f], autoinsert_material=op["am"],
                                 autoinsert_adsorbate=op["aa"], verbose=False)
        self.touch("mat", e["mat"])
        self.touch("ads", e["ads"])
        self.outcome("isotherm_to_db", where, exp, obs, err, reason, cause)
        if self.after(f, where, exp, obs, err, reason):
            if (f, "iso", key) in self.deleted_keys:
                self.reinserts += 1
            reread = {"isos"}
            if need_mat:
                flat = _flatten(obj.material.properties)
                m.mats[e["mat"]] = flat
                for k in flat:
                    m.types["mat_prop"].setdefault(k, (None, None))
                reread.add("mats")
                self.ctx.label("auto_inserted_material")
            if need_ads:
                d = obj.adsorbate.to_dict()
                d.pop("name")
                flat = _flatten(d)
                m.ads[e["ads"]] = flat
                self.ads_written.add(f)
                for k in flat:
                    m.types["ads_prop"].setdefault(k, (None, None))
                reread.add("ads")
                self.ctx.label("auto_inserted_adsorbate")
            m.isos[key] = e
            self.iso_in_file[f].add(idx)
            self.written.add(f)
            self.raw_check(f, where)
            self.reread_after(f, where, reread)
        self.record("iso_up", f, idx, op["am"], op["aa"], obs)

    def op_iso_del(self, n, op, f, where):
        if not self.desc["isos"]:
            return
        idx = self.choose(op, len(self.desc["isos"]), lambda i: i in self.iso_in_file[f], "pick")
        key, obj = self.key(idx), self.iso_objs[idx]
        m = self.models[f]
        by = "key" if op["by"] == "key_other_case" else op["by"]
        arg, rcauses = obj, None
        if by == "key":
            arg = key
        elif by == "retrieved":
            paired = self.cmp_isos(f, f"{where} (re-read before deleting through the retrieved object)") if key in m.isos else {}
            if key in paired and paired[key][2]:
                arg, rcauses = paired[key][0], paired[key][1]
            else:
                by = "object"
        where = f"{where} isotherm_delete_db(item {idx} by {by}, file {f})"
        if key not in m.isos:
            exp, reason = "refused", "absent"
        else:
            exp, reason = "ok", None
        obs, err = self.call(pgsql.isotherm_delete_db, arg, db_path=self.paths[f], verbose=False)
        if by == "retrieved" and exp == "ok" and obs == "refused":
            self.ctx.label("isotherm_delete_db:refused")
            self.soft("iso_del:retrieved_refused:" + ("+".join(_short(rcauses)) if rcauses else "other:equal_fields"),
                      f"{where}: the isotherm retrieved from the file cannot be deleted through it ({str(err)[:120]}); "
                      f"retrieved id {arg.iso_id}, stored id {key}, differences {rcauses}")
        else:
            if by == "retrieved" and obs == "ok":
                self.ctx.label("deleted_through_retrieved")
            self.outcome("isotherm_delete_db", where, exp, obs, err, reason)
        if self.after(f, where, exp, obs, err, reason):
            del m.isos[key]
            self.iso_in_file[f] = {i for i in self.iso_in_file[f] if self.key(i) != key}
            self.deleted_keys.add((f, "iso", key))
            self.written.add(f)
            self.raw_check(f, where)
            self.reread_after(f, where, {"isos"})
        self.record("iso_del", f, idx, by, obs)

    def op_iso_get(self, n, op, f, where):
        crit = None
        isos = self.desc["isos"]
        if op["crit"] != "none" and isos:
            e = self._iso_entry(self.choose(op, len(isos), lambda i: i in self.iso_in_file[f], "pick"))
            crit = {
                "material": {"material": e["mat"]}, "adsorbate": {"adsorbate": e["ads"]},
                "temperature": {"temperature": e["pk"][3]}, "iso_type": {"iso_type": _ISO_TYPE[e["kind"]]},
                "mat+ads": {"material": e["mat"], "adsorbate": e["ads"]},
            }[op["crit"]]
        out = self.cmp_isos(f, f"{where} isotherms_from_db(file {f})", crit, f"criteria {crit}")
        self.ctx.label("iso_get:" + ("criteria" if crit else "all") + (":hits" if out else ":empty"))
        self.record("iso_get", f, op["crit"], op["i"] if crit else None)

    # ---- end of history
    def final(self):
        for f in range(self.nfiles):
            where = f"end of history, file {f}"
            if _bytes_hash(self.paths[f]) != self.hashes[f] and _logical(_dump(self.paths[f])) != self.dumps[f]:
                self.hard("read_changed_state", f"{where}: the logical content changed although the last writing step was "
                                                "already verified (a read operation wrote?)")
            self.raw_check(f, where)
            self.cmp_mats(f, where)
            self.cmp_isos(f, where)
            self.cmp_types(f, "iso_type", where)
            if f in self.written:
                self.cmp_types(f, "ads_prop", where)
                self.cmp_types(f, "mat_prop", where)
            if f in self.ads_written:
                self.cmp_ads(f, where)  # 176 stock adsorbates (~20 ms): re-read only where adsorbates were written
        for idx, key in self.iso_ids.items():
            if self.iso_objs[idx].iso_id != key:
                self.hard("stored_object_mutated", f"end of history: isotherm item {idx} changed its id")


def _ref_name(ref):
    return ref[1] if ref[0] == "stock" else ref[1]["name"]


def canon_pk(pk):
    return canon(pk)


def _pk_of(r):
    return canon([_CLS_KIND.get(type(r), type(r).__name__), str(r.material), str(r.adsorbate), float(r._temperature)])


def _matches(e, crit):
    if not crit:
        return True
    for k, v in crit.items():
        have = {"material": e["mat"], "adsorbate": e["ads"], "temperature": e["pk"][3],
                "iso_type": _ISO_TYPE[e["kind"]]}[k]
        if have != v:
            return False
    return True


def _short(causes):
    """tag part: known cause names verbatim, 'other:*' details collapsed to 'other'"""
    return sorted({c if not c.startswith("other") else "other" for c in causes})


def _run(desc, ctx, check_name):
    K.reset_registries()
    workdir = tempfile.mkdtemp(prefix="verif_C08_case_", dir=_TMP_BASE)
    try:
        run = Run(desc, ctx, check_name)
        run.setup(workdir)
        for n, op in enumerate(desc["ops"]):
            run.step(n, op)
        run.final()
        # evidence
        ctx.label(f"files_{run.nfiles}", f"files_written_{len(run.written)}")
        if run.reinserts:
            ctx.label("delete_then_reinsert")
        if run.viol:
            ctx.label("history_with_deferred_violation")
        if run.refusals >= 1 and (run.reinserts >= 1 or len(run.written) >= 2):
            ctx.nt(run.trace, desc)
        run.finish()
    finally:
        shutil.rmtree(workdir, ignore_errors=True)
        K.reset_registries()


def check_histories(desc, ctx):
    _run(desc, ctx, "histories")


def check_iso_prop_types(desc, ctx):
    _run(desc, ctx, "isotherm_property_types")


# ---- bulk retrieval: isotherms_from_db pages through the table 100 rows at a time ------------------------------------
_BULK_UNITS = {"pressure_mode": "absolute", "pressure_unit": "bar", "loading_basis": "molar", "loading_unit": "mmol",
               "material_basis": "mass", "material_unit": "g", "temperature_unit": "K"}


def bulk_cases(tier, seed):
    sizes = [1, 99, 100, 101, 200, 201] if tier == "quick" else [1, 2, 50, 99, 100, 101, 150, 199, 200, 201, 299, 300, 301]
    return [{"n": n, "point_every": pe} for n in sizes for pe in (3, 7)]


def check_bulk(desc, ctx):
    """n isotherms (every k-th a point isotherm with its own data, the rest base isotherms) with distinct temperatures
    and per-isotherm metadata in one file: all of them come back, each with ITS metadata and data, == the stored one.
    (metadata carries an 'iso_type' key and float values only, so none of the known retrieval defects applies)"""
    K.reset_registries()
    workdir = tempfile.mkdtemp(prefix="verif_C08_case_", dir=_TMP_BASE)
    try:
        path = os.path.join(workdir, "bulk.db")
        shutil.copyfile(_template()["path"], path)
        stored = {}
        for i in range(desc["n"]):
            kw = dict(material="m-0", adsorbate="nitrogen", temperature=100.0 + i, k1=float(i) + 0.5, iso_type="bulk",
                      **_BULK_UNITS)
            if i % desc["point_every"] == 0:
                iso = pygaps.PointIsotherm(pressure=[1.0 + i, 2.0 + i, 3.0 + i], loading=[0.5, 1.0 + i, 1.5 + i], **kw)
            else:
                iso = BaseIsotherm(**kw)
            pgsql.isotherm_to_db(iso, db_path=path, verbose=False)
            stored[100.0 + i] = iso
        got = pgsql.isotherms_from_db(db_path=path, verbose=False)
        temps = sorted(r._temperature for r in got)
        if temps != sorted(stored):
            missing = sorted(set(stored) - set(temps))
            raise Violation(f"{desc['n']} isotherms stored in one file, isotherms_from_db returns {len(got)}; missing "
                            f"temperatures {missing[:5]}, duplicates {len(temps) - len(set(temps))}", tag="bulk:set")
        for r in got:
            s = stored[r._temperature]
            if type(r) is not type(s) or r.properties.get("k1") != s.properties["k1"] or not (r == s):
                raise Violation(f"bulk retrieval of {desc['n']} isotherms: the isotherm at T={r._temperature} comes back as "
                                f"{type(r).__name__} with metadata {r.properties} (stored: {type(s).__name__}, "
                                f"{s.properties}) and == is {r == s}", tag="bulk:content")
        d = _dump(path)
        if d["fk"] or d["ic"] != [("ok",)] or len(d["isotherms"]) != desc["n"]:
            raise Violation(f"bulk: raw file has {len(d['isotherms'])} isotherm rows for {desc['n']} uploads / pragma checks "
                            f"{d['fk'][:2]} {d['ic'][:2]}", tag="bulk:raw")
        ctx.label("bulk_pages_" + str((desc["n"] + 99) // 100))
        if desc["n"] > 100:
            ctx.nt([desc["n"], desc["point_every"]], desc)
    finally:
        shutil.rmtree(workdir, ignore_errors=True)
        K.reset_registries()


# =====================================================================================================================
# known-finding predicates (narrow: violation tag + input class); see findings/pending/C08.json
# =====================================================================================================================
_KNOWN_CAUSES = {"iso_type_leak", "id_key_lost", "int_to_float", "numeric_text", "bool_text", "branch_not_stored",
                 "material_from_registry", "list_lost"}


def _tag_causes(viol, families):
    parts = (viol.tag or "").split(":")
    if len(parts) < 3 or f"{parts[0]}:{parts[1]}" not in families:
        return set()
    return set(":".join(parts[2:]).split("+"))


_ISO_FAMS = ("iso_get:differs", "iso_del:retrieved_refused")


def _only_known(causes, mine):
    return mine in causes and causes <= _KNOWN_CAUSES


def _meta_values(desc):
    for it in desc.get("isos", []):
        for k, v in it["meta"].items():
            yield it, k, v


def kf_iso_type_leak(check_name, desc, viol):
    """retrieved isotherm carries the row column iso_type as metadata (stored one has no such key)"""
    return _only_known(_tag_causes(viol, _ISO_FAMS), "iso_type_leak") and any(
        "iso_type" not in it["meta"] for it in desc["isos"])


def kf_id_key_lost(check_name, desc, viol):
    return _only_known(_tag_causes(viol, _ISO_FAMS), "id_key_lost") and any(k == "id" for _, k, _v in _meta_values(desc))


def kf_real_affinity_int(check_name, desc, viol):
    return _only_known(_tag_causes(viol, _ISO_FAMS), "int_to_float") and any(
        isinstance(v, int) and not isinstance(v, bool) for _, _k, v in _meta_values(desc))


def _all_prop_values(desc):
    for _, _k, v in _meta_values(desc):
        yield v
    for it in desc.get("mats", []) + desc.get("ads", []):
        yield from it["props"].values()


def kf_real_affinity_text(check_name, desc, viol):
    fams = _ISO_FAMS + ("mat_get:differs", "ads_get:differs")
    return _only_known(_tag_causes(viol, fams), "numeric_text") and any(
        isinstance(v, str) and _numeric_text(v) for v in _all_prop_values(desc))


def kf_bool_text(check_name, desc, viol):
    return _only_known(_tag_causes(viol, _ISO_FAMS), "bool_text") and any(
        v in ("TRUE", "FALSE") for _, _k, v in _meta_values(desc) if isinstance(v, str))


def kf_branch_not_stored(check_name, desc, viol):
    return _only_known(_tag_causes(viol, _ISO_FAMS), "branch_not_stored") and any(
        isinstance(it.get("branch"), list) for it in desc["isos"])


def kf_material_from_registry(check_name, desc, viol):
    names = [it["name"] for it in desc["mats"]]
    return _only_known(_tag_causes(viol, _ISO_FAMS), "material_from_registry") and (
        desc["nfiles"] >= 2 or len(set(names)) < len(names))


def kf_material_list_lost(check_name, desc, viol):
    return _only_known(_tag_causes(viol, ("mat_get:differs",)), "list_lost") and any(
        isinstance(v, list) for it in desc["mats"] for v in it["props"].values())


def _refusal_classes(viol):
    pre = "isotherm_to_db:unexpected_refusal:"
    return set((viol.tag or "")[len(pre):].split("+")) if (viol.tag or "").startswith(pre) else set()


def kf_none_unit_refused(check_name, desc, viol):
    return "none_unit" in _refusal_classes(viol) and "NOT NULL constraint failed: isotherm_properties.value" in viol.message


def kf_int_column_refused(check_name, desc, viol):
    return "int_column" in _refusal_classes(viol) and "Cannot store data of type" in viol.message


def kf_autoinsert_from_registry(check_name, desc, viol):
    return "registry" in _refusal_classes(viol) and (
        "FOREIGN KEY constraint failed" in viol.message or "UNIQUE constraint failed" in viol.message)


def kf_iso_prop_table_missing(check_name, desc, viol):
    return (check_name == "isotherm_property_types" and (viol.tag or "").startswith("crash:OperationalError")
            and "no such table: isotherm_properties_type" in viol.message)


KNOWN_PREDICATES = [
    kf_iso_type_leak, kf_id_key_lost, kf_real_affinity_int, kf_real_affinity_text, kf_bool_text, kf_branch_not_stored,
    kf_material_from_registry, kf_material_list_lost, kf_none_unit_refused, kf_int_column_refused,
    kf_autoinsert_from_registry, kf_iso_prop_table_missing,
]


CHECKS = [
    Check("histories", check_histories, strategy=strat_history, budget={"quick": 1000, "thorough": 12000},
          shrink_quick=False,
          rule="model-based histories of 2-25 store operations over 1-3 files (see RULE)"),
    Check("isotherm_property_types", check_iso_prop_types, strategy=strat_iso_prop_types,
          budget={"quick": 64, "thorough": 400}, shrink_quick=False,
          rule="upload / duplicate / overwrite / delete / delete-absent / read of isotherm property types vs a dict"),
    Check("bulk_retrieval", check_bulk, mode="enum", cases=bulk_cases, exhaustive=False,
          rule="1..301 isotherms in one file around the 100-row page size of isotherms_from_db: every one comes back "
               "once, with its own metadata and data, == the stored one"),
]
