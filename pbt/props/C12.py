"""C12 - model fitting is self-consistent."""
import math

import numpy as np
import pandas as pd
from hypothesis import strategies as st

import pygaps
from pygaps import Material
import pygaps.modelling as pgm
from pygaps.modelling import _GUESS_MODELS, _MODELS, get_isotherm_model
from pygaps.utilities.exceptions import CalculationError

from pbt import case as K
from pbt import ref_units as ru
from pbt import strategies as S
from pbt.core import Check, HarnessError, Inconclusive, Violation, allclose, close

LEVEL = "exploration"
RULE = (
    "Seven clause families. (exact_recovery) hypothesis-drawn (well-posed model, dimensionless shape, grid of 8-60 "
    "points, magnitudes) -> generating parameters inside param_default_bounds: Henry K=k*L/P, k in [0.1,10]; Langmuir / "
    "Toth / TemkinApprox K*pmax in [0.3,300], n_m in [0.3,3]*L, Toth t in [0.3,3], Temkin tht in [0,1] (3 of 4 draws) "
    "or (1,2.5]; DSLangmuir two such sites; BET N in [1e-3,0.99], N*pmax in [0.05,0.95], C/N in [0.5,1000]; Freundlich m "
    "in [0.4,20]; DR/DA relative pressures pmax in [0.05,0.99], e/RT in [0.5,30] raised where needed so that the "
    "fractional filling at pmax is >= 0.05 (T in [60,400] K), DA m in [1.05,2.95]; Jensen-Seaton K*pmax/a in [1,100], "
    "b*pmax in [0.01,10], c in [0.3,3]; grids linear / geometric / random in [umin,1]*pmax with umin in [1e-4,0.3] "
    "(DR/DA p >= 1e-6); magnitudes pmax=P in 10^[-3,5], L in 10^[-6,3] (2 of 3 cases 'natural': P in [0.1,10], L in "
    "[0.1,100]); data = the library's own model function at those parameters; entry paths arrays / DataFrame / "
    "from_pointisotherm / model_iso, default or user starting guess (truth x [0.5,2]). Oracle: when the fit returns, "
    "max|fit(p)-n|/max n <= 1e-2; CalculationError = no claim. (rmse_identity) all 16 models x arbitrary increasing data "
    "(pressures = cumulative sums of hypothesis-drawn increments, 9-40 points; loadings = cumulative sums or a "
    "saturating / power curve; desorption leg of >= 8 rows on another curve; multiplicative noise 0/1/5 % from "
    "numpy.default_rng(seed in the descriptor)), default start or a second fit started from the moved first optimum, "
    "both branches, Virial with and without add_point: reported rmse == sqrt(mean r^2)/(max-min of the fitted dependent "
    "variable) recomputed from the fitted model (Virial: sqrt(mean r^2) of its linearised residual, typed here), and "
    "pressure/loading_range == range of the fitted rows. (bounds) 12 models, user boxes placed around / above / below "
    "the free optimum (clipped to the default bounds), default or user guess inside: fitted parameters inside the box, "
    "rmse identity. (guess_best) lists of 2-4 of the 13 faster models (any casing) or 'guess' (1 case in 8) through "
    "guess(arrays) / guess(DataFrame) / from_pointisotherm / model_iso: the returned model's reported rmse is the "
    "minimum over the candidates that converge when fitted alone, and equals that candidate's own fit; refusal only if "
    "none converges. (branch_isolation) 9 models, two-branch data through DataFrame with branch column / DataFrame "
    "with guessed split / from_pointisotherm / model_iso: fit of branch b == fit of the rows of b alone (bitwise); "
    "changing the other branch's loadings changes nothing. (point_model) ModelIsotherm (fitted, or built from a "
    "model instance) in any of the 10x27x19x2 unit configurations with metadata -> PointIsotherm.from_modelisotherm "
    "(default grid / pressure list / PointIsotherm with interleaved branches / loading list): rows on the model's "
    "branch, requested abscissae kept, data == model.loading_at / pressure_at (1e-12), metadata / units / material / "
    "adsorbate / temperature equal, refit of >= 8 generated points reproduces them (1e-2; claimed when a fitted model "
    "reproduced its own data, i.e. the curve lies inside the windows above). (unit_covariance) exact data written in "
    "two unit configurations (numbers converted with pbt.ref_units; temperature unit only / pressure / loading / "
    "material / all axes changed): both fitted curves agree up to the conversion (1e-2 of the largest loading); if only "
    "the temperature unit differs a refusal on one side is a violation. Non-trivial = the fit(s) returned and >= 8 "
    "points were fitted (bounds: a bound is binding; guess_best: >= 2 candidates converge with different rmse); "
    "distinct by (check, model, rounded generating values, grid / data fingerprint, path)."
)
ASSUMPTIONS = [
    "exact-recovery / refit / covariance tolerance 1e-2 of the largest loading: least_squares stops on relative "
    "cost/step changes of 1e-8, which bounds nothing rigorously in a flat valley; worst value observed for converged "
    "cases in unit-range variables is 1.3e-3 (TemkinApprox tht <= 1), 3e-3 (DA)",
    "rmse identity: same arithmetic on the same arrays, rel 1e-9 (abs 1e-13 on the dimensionless number; Virial abs 1e-11: "
    "its fit runs in unit-range variables and the parameters are rescaled afterwards)",
    "a violation of the 1e-2 clauses is sub-classified by one extra run of the library's own routine on the same data "
    "divided by max(p) and max(n) with optimization_params={'x_scale':'jac','max_nfev':20000} (repeated from the "
    "generating parameters only if that run is refused): if it reproduces the data the tag gets the suffix ':scale' "
    "(units/scale dependence of the optimiser, ledger KF-C12-1); anything else keeps the plain tag and is reported",
    "the parameter windows of exact_recovery are the region where that unit-range run reproduces the data in > 99.9 % "
    "of 1500-3000 sampled cases per model; outside it (Freundlich m < 0.35, DR/DA grids that only see fillings < 5 %, "
    "loading grids piled up at one end) the default starting guess does not lead to the generating curve - excluded "
    "from generation, reported in the module's final report, not asserted",
    "CalculationError from a fit = library-reported numerical failure = inconclusive, except when the ONLY change is "
    "the temperature unit (identical numbers, K succeeds, degC refuses): a deterministic routine cannot fail on "
    "identical data unless the unit leaks into it",
    "DR/DA are only fitted to pressures stored in mode 'relative' (their docstring); BET pressure changes are only "
    "claimed when the generating N stays below its bound 1 in both unit systems",
    "param_guess / param_bounds dictionaries are always complete (partial ones raise KeyError; not asserted)",
    "unit conversions of the covariance check: pbt.ref_units (SI tables + CoolProp PropsSI); every unit change of the "
    "library is a pure scaling of the pressure and of the loading axis",
]

WELL_POSED = ("Henry", "Langmuir", "DSLangmuir", "BET", "Freundlich", "DR", "DA", "TemkinApprox", "Toth", "JensenSeaton")
ALL_MODELS = ("Henry", "Langmuir", "DSLangmuir", "TSLangmuir", "BET", "GAB", "Freundlich", "DA", "DR", "Quadratic",
              "TemkinApprox", "Virial", "Toth", "JensenSeaton", "FHVST", "WVST")
RELATIVE_ONLY = ("DR", "DA")
R_GAS = 8.31446261815324
TOL_CURVE = 1e-2
SCALE_SUFFIX = ":scale"


def _preload():
    """The model modules are imported lazily by the library; hypothesis (>= 6.1xx) mixes numeric constants found in
    the source of every loaded non-site-packages module into its draws, so the set of loaded modules must not depend
    on which cases ran before in the same process (determinism of a run)."""
    for m in _MODELS:
        get_isotherm_model(m)
    K.backend_table()


_preload()


def worker_init():
    _preload()
    K.reset_registries()


def self_validate():
    if sorted(ALL_MODELS) != sorted(_MODELS):
        raise HarnessError(f"model list changed: library {_MODELS}")
    if not set(_GUESS_MODELS) <= set(ALL_MODELS):
        raise HarnessError("guess model list changed")
    # typed Virial residual against the closed form p = n exp(-ln K + A n + B n^2 + C n^3)
    par = {"K": 2.0, "A": 0.3, "B": -0.02, "C": 0.001}
    n = np.array([0.1, 1.0, 3.0])
    p = n * np.exp(-math.log(2.0) + 0.3 * n - 0.02 * n ** 2 + 0.001 * n ** 3)
    if not np.allclose(_virial_residual(par, p, n), 0.0, atol=1e-12):
        raise HarnessError("virial residual is off")
    # shape -> parameter maps produce parameters inside the library's default bounds and finite data
    for m in WELL_POSED:
        g = _gen_model(m, _params_from_shape(m, _SHAPE_MID[m], 1.0 if m not in RELATIVE_ONLY else 0.5, 1.0, 77.0), 77.0)
        for name, (lo, hi) in zip(g.param_names, g.param_default_bounds):
            if not lo <= g.params[name] <= hi:
                raise HarnessError(f"{m}: generated {name} outside the default bounds")
        # the axis-scaling table used for re-expressing parameters in other units
        pmax = 1.0 if m not in RELATIVE_ONLY else 0.5
        sp, sl = (1.0 if m in RELATIVE_ONLY else (0.37 if m != "BET" else 1.9)), 41.0
        x = pmax * np.array([0.05, 0.3, 1.0])
        g2 = _gen_model(m, _rescale_params(m, {k: float(v) for k, v in g.params.items()}, sp, sl), 77.0)
        if not np.allclose(np.asarray(g.loading(x)) * sl, np.asarray(g2.loading(x * sp)), rtol=1e-12):
            raise HarnessError(f"{m}: parameter rescaling table is off")
    problems = ru.check_names_against_library()
    if problems:
        raise HarnessError("ref_units names: " + "; ".join(problems))


# =====================================================================================================================
# generators of exact data
# =====================================================================================================================
def _lg(lo, hi):
    return st.floats(math.log10(lo), math.log10(hi)).map(lambda e: float(10.0 ** e))


def _shape(model):
    kap = _lg(0.3, 300.0)
    cap = _lg(0.3, 3.0)
    if model == "Henry":
        return st.fixed_dictionaries({"k": _lg(0.1, 10.0)})
    if model == "Langmuir":
        return st.fixed_dictionaries({"kap": kap, "c": cap})
    if model == "DSLangmuir":
        return st.fixed_dictionaries({"kap1": kap, "c1": cap, "kap2": kap, "c2": cap})
    if model == "BET":
        return st.fixed_dictionaries({"c": cap, "N": _lg(1e-3, 0.99), "nu": st.floats(0.05, 0.95), "gam": _lg(0.5, 1000.0)})
    if model == "Freundlich":
        return st.fixed_dictionaries({"m": _lg(0.4, 20.0)})
    if model == "DR":
        return st.fixed_dictionaries({"c": cap, "eps": _lg(0.5, 30.0)})
    if model == "DA":
        return st.fixed_dictionaries({"c": cap, "eps": _lg(0.5, 30.0), "m": st.floats(1.05, 2.95)})
    if model == "TemkinApprox":
        tht = st.one_of(st.floats(0.0, 1.0), st.floats(0.0, 1.0), st.floats(0.0, 1.0), st.floats(1.0, 2.5))
        return st.fixed_dictionaries({"kap": kap, "c": cap, "tht": tht})
    if model == "Toth":
        return st.fixed_dictionaries({"kap": kap, "c": cap, "t": _lg(0.3, 3.0)})
    if model == "JensenSeaton":
        return st.fixed_dictionaries({"kap": _lg(1.0, 100.0), "c": cap, "beta": _lg(1e-2, 10.0), "cc": _lg(0.3, 3.0)})
    raise KeyError(model)


_SHAPE_MID = {
    "Henry": {"k": 1.0}, "Langmuir": {"kap": 5.0, "c": 1.0}, "DSLangmuir": {"kap1": 5.0, "c1": 1.0, "kap2": 50.0, "c2": 0.5},
    "BET": {"c": 1.0, "N": 0.5, "nu": 0.5, "gam": 50.0}, "Freundlich": {"m": 2.0}, "DR": {"c": 1.0, "eps": 5.0},
    "DA": {"c": 1.0, "eps": 5.0, "m": 2.0}, "TemkinApprox": {"kap": 5.0, "c": 1.0, "tht": 0.5},
    "Toth": {"kap": 5.0, "c": 1.0, "t": 0.7}, "JensenSeaton": {"kap": 10.0, "c": 1.0, "beta": 0.5, "cc": 1.0},
}


def _pmax(model, sh, P):
    """largest pressure of the grid: free magnitude P, except BET (tied to N) and DR/DA (relative, P is a fraction)."""
    if model == "BET":
        return sh["nu"] / sh["N"]
    return P


TH_MIN = 0.05  # DR/DA: the grid reaches at least this fractional filling


def _eps(sh, pmax):
    """DR/DA e/RT: the drawn value, raised where needed so that theta(pmax) = exp(-(ln(1/pmax)/eps)^m) >= TH_MIN."""
    m = sh.get("m", 2.0)
    return max(sh["eps"], math.log(1.0 / pmax) / (-math.log(TH_MIN)) ** (1.0 / m))


def _params_from_shape(model, sh, pmax, L, T_K):
    if model == "Henry":
        return {"K": sh["k"] * L / pmax}
    if model == "Langmuir":
        return {"K": sh["kap"] / pmax, "n_m": sh["c"] * L}
    if model == "DSLangmuir":
        return {"n_m1": sh["c1"] * L, "K1": sh["kap1"] / pmax, "n_m2": sh["c2"] * L, "K2": sh["kap2"] / pmax}
    if model == "BET":
        return {"n_m": sh["c"] * L, "C": sh["gam"] * sh["N"], "N": sh["N"]}
    if model == "Freundlich":
        return {"K": L / pmax ** (1.0 / sh["m"]), "m": sh["m"]}
    if model == "DR":
        return {"n_m": sh["c"] * L, "e": _eps(sh, pmax) * R_GAS * T_K}
    if model == "DA":
        return {"n_m": sh["c"] * L, "e": _eps(sh, pmax) * R_GAS * T_K, "m": sh["m"]}
    if model == "TemkinApprox":
        return {"n_m": sh["c"] * L, "K": sh["kap"] / pmax, "tht": sh["tht"]}
    if model == "Toth":
        return {"n_m": sh["c"] * L, "K": sh["kap"] / pmax, "t": sh["t"]}
    if model == "JensenSeaton":
        a = sh["c"] * L
        return {"K": sh["kap"] * a / pmax, "a": a, "b": sh["beta"] / pmax, "c": sh["cc"]}
    raise KeyError(model)


def _gen_model(model, params, T_K):
    g = get_isotherm_model(model, parameters=dict(params))
    g.__init_parameters__({"temperature": T_K})  # DR/DA: -RT of the kelvin temperature
    return g


@st.composite
def _grid(draw):
    kind = draw(st.sampled_from(["lin", "log", "rand"]))
    n = draw(st.integers(8, 60))
    umin = draw(_lg(1e-4, 0.3))
    g = {"kind": kind, "n": n, "umin": umin}
    if kind == "rand":
        g["rng"] = draw(st.integers(0, 2 ** 31 - 1))
    return g


def _grid_u(g):
    n, umin = g["n"], g["umin"]
    if g["kind"] == "lin":
        u = np.linspace(umin, 1.0, n)
    elif g["kind"] == "log":
        u = np.geomspace(umin, 1.0, n)
    else:
        r = np.random.default_rng(g["rng"])
        inner = np.where(r.random(n - 2) < 0.5, 10 ** r.uniform(math.log10(umin), 0.0, n - 2), r.uniform(umin, 1.0, n - 2))
        u = np.unique(np.concatenate([[umin], inner, [1.0]]))
    return u


@st.composite
def exact_spec(draw, models=WELL_POSED, natural_only=False):
    model = draw(st.sampled_from(models))
    natural = True if natural_only else draw(st.sampled_from([True, True, False]))
    if natural:
        P, L = draw(_lg(0.1, 10.0)), draw(_lg(0.1, 100.0))
    else:
        P, L = draw(_lg(1e-3, 1e5)), draw(_lg(1e-6, 1e3))
    if model in RELATIVE_ONLY:
        P = draw(st.floats(0.05, 0.99))
    T_K = draw(st.floats(60.0, 400.0))
    return {"model": model, "natural": natural, "P": P, "L": L, "T_K": T_K, "shape": draw(_shape(model)), "grid": draw(_grid())}


def _exact_data(spec):
    """-> (generating parameters, pressures, loadings) with loadings = library model function of the parameters."""
    model, sh = spec["model"], spec["shape"]
    pmax = _pmax(model, sh, spec["P"])
    u = _grid_u(spec["grid"])
    p = pmax * u
    if model in RELATIVE_ONLY:
        p = p[p >= 1e-6]
    params = _params_from_shape(model, sh, pmax, spec["L"], spec["T_K"])
    g = _gen_model(model, params, spec["T_K"])
    l = np.asarray(g.loading(p), dtype=float)
    return params, p, l


def _usable(p, l):
    return len(p) >= 8 and np.all(np.isfinite(l)) and np.all(l > 0) and l.max() > l.min()


# =====================================================================================================================
# fit entry points
# =====================================================================================================================
def _meta(rel, T=77.0, tunit="K"):
    return dict(material="verif-m", adsorbate="nitrogen", temperature=T, temperature_unit=tunit,
                pressure_mode="relative" if rel else "absolute", pressure_unit=None if rel else "bar",
                loading_basis="molar", loading_unit="mmol", material_basis="mass", material_unit="g")


PATHS = ("arrays", "frame", "point", "model_iso")


def _fit(path, p, l, model, meta, branch="ads", **fitkw):
    """Fit `model` to one branch worth of rows through one of the public entry points."""
    p, l = np.asarray(p, dtype=float), np.asarray(l, dtype=float)
    if path == "arrays":
        return pygaps.ModelIsotherm(pressure=p.tolist(), loading=l.tolist(), model=model, branch=branch, **fitkw, **meta)
    if path == "frame":
        df = pd.DataFrame({"p": p, "l": l, "branch": 0 if branch == "ads" else 1})
        return pygaps.ModelIsotherm(isotherm_data=df, pressure_key="p", loading_key="l", model=model, branch=branch,
                                    **fitkw, **meta)
    iso = pygaps.PointIsotherm(pressure=p.tolist(), loading=l.tolist(), branch=branch, **meta)
    if path == "point":
        return pygaps.ModelIsotherm.from_pointisotherm(iso, branch=branch, model=model, **fitkw)
    return pgm.model_iso(iso, branch=branch, model=model, **fitkw)


def _misfit(mi, p, l):
    y = np.asarray(mi.model.loading(np.asarray(p, dtype=float)), dtype=float)
    if not np.all(np.isfinite(y)):
        return float("inf")
    return float(np.max(np.abs(y - l)) / np.max(np.abs(l)))


def _rescale_params(model, params, sp, sl):
    """parameters of the same curve after p -> sp*p, n -> sl*n (every unit change of the library is such a scaling)."""
    q = dict(params)
    for k in q:
        if k in ("n_m", "n_m1", "n_m2", "a"):
            q[k] = params[k] * sl
        elif k in ("K1", "K2", "b", "C", "N") or (k == "K" and model in ("Langmuir", "TemkinApprox", "Toth")):
            q[k] = params[k] / sp
        elif k == "K" and model in ("Henry", "JensenSeaton"):
            q[k] = params[k] * sl / sp
        elif k == "K" and model == "Freundlich":
            q[k] = params[k] * sl / sp ** (1.0 / params["m"])
    return q


def _scale_free_ok(model, p, l, T_K, truth=None):
    """One more run of the library's routine on the same data in unit-range units (p/max p, n/max n) with
    Jacobian-scaled variables and a generous evaluation budget. True when that run reproduces the data, i.e. a failure
    in the original units is a units/scale effect. Only if that run is refused, it is repeated from the known
    generating parameters."""
    p, l = np.asarray(p, dtype=float), np.asarray(l, dtype=float)
    rel = model in RELATIVE_ONLY
    sp = 1.0 if rel else 1.0 / p.max()
    sl = 1.0 / l.max()
    pp, ll = p * sp, l * sl
    opt = {"x_scale": "jac", "max_nfev": 20000}
    try:
        mi = pygaps.ModelIsotherm(pressure=pp.tolist(), loading=ll.tolist(), model=model, optimization_params=dict(opt),
                                  **_meta(rel, T_K))
    except CalculationError:
        if truth is None:
            return False
        try:
            mi = pygaps.ModelIsotherm(pressure=pp.tolist(), loading=ll.tolist(), model=model,
                                      param_guess=_rescale_params(model, {k: float(v) for k, v in truth.items()}, sp, sl),
                                      optimization_params=dict(opt), **_meta(rel, T_K))
        except CalculationError:
            return False
    return _misfit(mi, pp, ll) <= TOL_CURVE


def _tag(base, model, p, l, T_K, truth=None):
    """sub-class of a curve violation: units / scale dependence of the optimiser (KF-C12-1) or none."""
    return base + (SCALE_SUFFIX if _scale_free_ok(model, p, l, T_K, truth) else "")


def kf_fit_scale_dependence(check_name, desc, viol):
    """KF-C12-1: the fit 'succeeds' away from the minimum because least_squares runs with absolute gradient tolerance
    and unscaled variables on data of any magnitude; narrow = exactly the violations whose data ARE reproduced by the
    same routine once pressures/loadings are divided by their maxima and x_scale='jac' is passed (tag suffix)."""
    if check_name not in ("exact_recovery", "point_model", "unit_covariance"):
        return False
    model = desc.get("spec", {}).get("model")
    return model in WELL_POSED and viol.tag in ("exact_not_reproduced" + SCALE_SUFFIX, "refit_differs" + SCALE_SUFFIX,
                                                "unit_covariance" + SCALE_SUFFIX)


def kf_temkin_valley(check_name, desc, viol):
    """KF-C12-2: TemkinApprox fits end in secondary minima of the K-tht valley (success reported, 1-11 % misfit), in
    any units and also in the scale-free run (hence the plain tag): (i) data generated with tht > 1 (the start is
    tht = 0, the lower bound); (ii) rows in descending pressure order (a desorption branch taken from a point isotherm:
    the starting guess is computed from the first row), any tht."""
    if check_name not in ("exact_recovery", "point_model", "unit_covariance"):
        return False
    spec = desc.get("spec", {})
    if spec.get("model") != "TemkinApprox" or viol.tag not in ("exact_not_reproduced", "refit_differs", "unit_covariance"):
        return False
    if spec.get("shape", {}).get("tht", 0.0) > 1.0:
        return True
    return check_name == "point_model" and desc.get("branch") == "des" and desc.get("points") == "isotherm"


def kf_freundlich_convex_start(check_name, desc, viol):
    """KF-C12-3: Freundlich fits always start from m = 1 (K from a Langmuir-type estimate). On exact data of a strongly
    convex Freundlich curve (generating m < 0.5, i.e. exponent 1/m > 2) sampled down to very low pressures the
    optimiser occasionally walks to m -> 0 (or m ~ 1) and returns that fit as successful (misfit 10-100 % of the largest
    loading), in natural units as well (hence the plain tag). Only default-start fits of such data belong to the class."""
    if check_name not in ("exact_recovery", "point_model", "unit_covariance"):
        return False
    spec = desc.get("spec", {})
    return (spec.get("model") == "Freundlich" and desc.get("guess", "default") != "user"
            and float(spec.get("shape", {}).get("m", 1.0)) < 0.5
            and viol.tag in ("exact_not_reproduced", "refit_differs", "unit_covariance"))


# =====================================================================================================================
# (a) exact recovery
# =====================================================================================================================
def strat_exact():
    return st.builds(lambda path, guess, spec, gf: {"path": path, "guess": guess, "spec": spec, "gf": gf},
                     st.sampled_from(PATHS), st.sampled_from(["default", "default", "default", "user"]), exact_spec(),
                     st.lists(st.floats(0.5, 2.0), min_size=4, max_size=4))


def _user_guess(model, params, factors):
    g = {}
    lo_hi = dict(zip(get_isotherm_model(model).param_names, get_isotherm_model(model).param_default_bounds))
    for k, (name, v) in enumerate(params.items()):
        val = v * factors[k % len(factors)]
        lo, hi = lo_hi[name]
        if not lo < val < hi:
            val = v
        g[name] = float(val)
    return g


def check_exact(desc, ctx):
    spec = desc["spec"]
    model = spec["model"]
    params, p, l = _exact_data(spec)
    if not _usable(p, l):
        ctx.label("degenerate_data")
        return
    rel = model in RELATIVE_ONLY or (model == "BET" and p.max() <= 1.0)
    kw = {}
    if desc["guess"] == "user":
        kw["param_guess"] = _user_guess(model, params, desc["gf"])
    # a fifth of the cases run with a small evaluation budget (documented optimization_params): a fit that has not
    # converged within it must be refused, a fit that is returned must reproduce the data all the same
    budget = [None, None, None, None, 3, None, None, None, None, 8][int(desc["gf"][0] * 1e6) % 10] if model != "Virial" else None
    if budget is not None:
        kw["optimization_params"] = {"max_nfev": budget}
    try:
        mi = _fit(desc["path"], p, l, model, _meta(rel, spec["T_K"]), **kw)
    except CalculationError:
        ctx.label("refused:" + model + (":budget" if budget else ""))
        raise Inconclusive()
    err = _misfit(mi, p, l)
    if budget is not None:
        ctx.label("returned_within_small_budget")
        full_ok = False
        if not err <= TOL_CURVE:
            # only a failure that the budget causes is judged here: with the default budget the same fit must reproduce
            # the data (otherwise it is the ordinary exact-recovery clause below, with its own known class)
            try:
                kw_full = {k: v for k, v in kw.items() if k != "optimization_params"}
                full_ok = _misfit(_fit(desc["path"], p, l, model, _meta(rel, spec["T_K"]), **kw_full), p, l) <= TOL_CURVE
            except CalculationError:
                full_ok = False
        if not err <= TOL_CURVE and full_ok:
            raise Violation(
                f"{model} fitted ({desc['path']}, {desc['guess']} guess, max_nfev={budget}) to {len(p)} points generated from "
                f"its own equation with {params}: the fit was returned (not refused) but max|fit-data|/max data = {err:.3g} > "
                f"{TOL_CURVE}; returned { {k: float(v) for k, v in mi.model.params.items()} }", tag="unconverged_fit_returned")
    ctx.label("fit:" + model, "natural" if spec["natural"] else "wide_magnitude", "path:" + desc["path"],
              "guess:" + desc["guess"])
    if not err <= TOL_CURVE:
        raise Violation(
            f"{model} fitted ({desc['path']}, {desc['guess']} guess) to {len(p)} points generated from its own equation "
            f"with {params} on p in [{p.min():.6g}, {p.max():.6g}] (max loading {l.max():.6g}): returned "
            f"{ {k: float(v) for k, v in mi.model.params.items()} } rmse {float(mi.model.rmse):.3g}; "
            f"max|fit-data|/max data = {err:.3g} > {TOL_CURVE}",
            tag=_tag("exact_not_reproduced", model, p, l, spec["T_K"], params))
    ctx.nt([model, {k: float(f"{v:.6g}") for k, v in params.items()}, spec["grid"]], desc)


# =====================================================================================================================
# arbitrary noisy increasing data
# =====================================================================================================================
@st.composite
def arb_data(draw, desorption=True, min_points=9, max_points=40):
    """'arbitrary noisy increasing data': pressures = cumulative sums of drawn increments; loadings = cumulative sums
    ('walk') or a saturating / power curve over those pressures, times (1 + noise * N(0,1))."""
    rel = draw(st.booleans())
    shape = draw(st.sampled_from(["walk", "walk", "langmuir", "power"]))
    noise = draw(st.sampled_from([0.0, 0.01, 0.05]))
    rng = draw(st.integers(0, 2 ** 31 - 1))
    pmax = draw(st.floats(0.05, 0.98)) if rel else draw(_lg(1e-2, 1e2))
    L = draw(_lg(0.1, 100.0))
    kap = draw(_lg(0.3, 100.0))
    expo = draw(st.floats(0.2, 1.5))
    d = draw(S.iso_data(min_points=min_points, max_points=max_points, desorption=desorption, strict_loading=True))
    return {"rel": rel, "shape": shape, "noise": noise, "rng": rng, "pmax": pmax, "L": L, "kap": kap, "expo": expo,
            "pressure": d["pressure"], "loading": d["loading"], "branch": d["branch_true"]}


def _arb_arrays(d, force_rel=False, des_rows=0):
    """-> pressures, loadings, branch (0/1) arrays; pressures rescaled to pmax, loadings to L, noise applied.
    des_rows > 0: the desorption leg is (re)built with at least that many rows (mirror of the upper adsorption rows,
    3 % lower pressures, on a different curve), so that a desorption fit has enough points."""
    p = np.array(d["pressure"], dtype=float)
    l = np.array(d["loading"], dtype=float)
    b = np.array(d["branch"], dtype=int)
    n_ads = int((b == 0).sum())
    if des_rows and (b == 1).sum() < des_rows:
        k = min(n_ads - 1, max(des_rows, n_ads // 2))
        pa, la = p[:n_ads], l[:n_ads]
        p = np.concatenate([pa, pa[-k - 1:-1][::-1] * 0.97])
        l = np.concatenate([la, la[-k - 1:-1][::-1] * 1.2 + 0.05 * la.max()])
        b = np.concatenate([np.zeros(n_ads, dtype=int), np.ones(k, dtype=int)])
    pmax = d["pmax"]
    if force_rel and not d["rel"]:
        pmax = 0.05 + 0.93 * (math.log10(d["pmax"]) + 2.0) / 4.0
    p = p / p.max() * pmax
    if d["shape"] == "langmuir":
        x = d["kap"] * p / pmax
        l = x / (1.0 + x) * np.where(b == 1, 1.15, 1.0)
    elif d["shape"] == "power":
        l = (p / pmax) ** d["expo"] * np.where(b == 1, 1.15, 1.0)
    l = l / l.max() * d["L"]
    if d["noise"]:
        r = np.random.default_rng(d["rng"])
        l = l * (1.0 + d["noise"] * r.standard_normal(len(l)))
        l = np.abs(l) + 1e-9 * d["L"]
    return p, l, b


def _virial_residual(params, p, l):
    return params["C"] * l ** 3 + params["B"] * l ** 2 + params["A"] * l - np.log(params["K"]) - np.log(p / l)


def _rmse_reference(mi, p, l, add_point=False):
    m = mi.model
    par = {k: float(v) for k, v in m.params.items()}
    if m.name == "Virial":
        ok = (p > 0) & (l > 0)
        pp, ll = p[ok], l[ok]
        lnpn = np.log(pp / ll)
        if add_point and np.sum(ll / ll.max() < 0.5) < 3:
            lnpn = np.hstack([lnpn[0], lnpn])
            ll = np.hstack([1e-1, ll])
        r = par["C"] * ll ** 3 + par["B"] * ll ** 2 + par["A"] * ll - math.log(par["K"]) - lnpn
        return float(np.sqrt(np.sum(r ** 2) / len(ll)))
    if m.calculates == "loading":
        r = np.asarray(m.loading(p), dtype=float) - l
        rng = l.max() - l.min()
    else:
        r = np.asarray(m.pressure(l), dtype=float) - p
        rng = p.max() - p.min()
    return float(np.sqrt(np.sum(r ** 2) / len(l)) / rng)


def _assert_rmse(mi, p, l, what, add_point=False):
    ref = _rmse_reference(mi, p, l, add_point)
    got = float(mi.model.rmse)
    # Virial fits in unit-range variables and rescales K, A, B, C afterwards: the recomputation in the units of the data
    # is not bit-identical, its rounding error is ~ eps * |ln K| (absolute)
    if not (math.isfinite(got) and close(got, ref, 1e-9, 1e-11 if mi.model.name == "Virial" else 1e-13)):
        raise Violation(f"{what}: reported rmse {got!r} != recomputed sqrt(mean r^2)/range {ref!r} "
                        f"(parameters { {k: float(v) for k, v in mi.model.params.items()} })", tag="rmse_mismatch")
    pr, lr = mi.model.pressure_range, mi.model.loading_range
    if not (float(pr[0]) == p.min() and float(pr[1]) == p.max() and float(lr[0]) == l.min() and float(lr[1]) == l.max()):
        raise Violation(f"{what}: stored ranges {tuple(map(float, pr))} / {tuple(map(float, lr))} are not the ranges of the "
                        f"fitted rows ({p.min()}, {p.max()}) / ({l.min()}, {l.max()})", tag="range_mismatch")


def _both_branch_frame(p, l, b, with_branch=True):
    df = pd.DataFrame({"pp": p, "ll": l})
    if with_branch:
        df["branch"] = b
    return df


def _fit_two_branch(path, p, l, b, model, meta, branch, **fitkw):
    """Fit through entry points that receive BOTH branches and must select `branch`."""
    if path == "frame":
        return pygaps.ModelIsotherm(isotherm_data=_both_branch_frame(p, l, b), pressure_key="pp", loading_key="ll",
                                    model=model, branch=branch, **fitkw, **meta)
    if path == "frame_guess":
        return pygaps.ModelIsotherm(isotherm_data=_both_branch_frame(p, l, b, False), pressure_key="pp", loading_key="ll",
                                    model=model, branch=branch, **fitkw, **meta)
    if path in ("frame_guess_sliced", "frame_sliced"):
        # the table is what is left of a longer one after cutting off its first rows (labels 3..n+2, not 0..n-1)
        df = _both_branch_frame(p, l, b, path == "frame_sliced")
        df.index = range(3, len(df) + 3)
        return pygaps.ModelIsotherm(isotherm_data=df, pressure_key="pp", loading_key="ll", model=model, branch=branch,
                                    **fitkw, **meta)
    iso = pygaps.PointIsotherm(pressure=p.tolist(), loading=l.tolist(), branch=[bool(x) for x in b], **meta)
    if path == "point":
        return pygaps.ModelIsotherm.from_pointisotherm(iso, branch=branch, model=model, **fitkw)
    return pgm.model_iso(iso, branch=branch, model=model, **fitkw)


TWO_PATHS = ("frame", "frame_guess", "point", "model_iso", "frame_guess_sliced", "frame_sliced")


# =====================================================================================================================
# (b) rmse identity
# =====================================================================================================================
def strat_rmse():
    return st.builds(
        lambda model, path, branch, guess, addp, gf, data: {"model": model, "path": path, "branch": branch, "guess": guess,
                                                             "add_point": addp, "gf": gf, "data": data},
        st.sampled_from(ALL_MODELS), st.sampled_from(TWO_PATHS + ("arrays",)), st.sampled_from(["ads", "ads", "des"]),
        st.sampled_from(["default", "default", "refit"]), st.booleans(),
        st.lists(st.floats(0.7, 1.4), min_size=6, max_size=6), arb_data())


def check_rmse(desc, ctx):
    model, d = desc["model"], desc["data"]
    p, l, b = _arb_arrays(d, force_rel=model in RELATIVE_ONLY + ("BET", "GAB"), des_rows=8 if desc["branch"] == "des" else 0)
    rel = d["rel"] or model in RELATIVE_ONLY + ("BET", "GAB")
    branch = desc["branch"]
    sel = b == (0 if branch == "ads" else 1)
    if sel.sum() < 8:
        branch, sel = "ads", b == 0
    pb, lb = p[sel], l[sel]
    if not lb.max() > lb.min():
        return
    meta = _meta(rel)
    kw = {}
    addp = bool(desc["add_point"]) and model == "Virial"
    if addp:
        kw["optimization_params"] = {"add_point": True}
    # options handed through to the optimiser (a robust loss weighs the outliers down while fitting; the error reported
    # afterwards is still the plain RMS deviation of the fitted curve)
    opts = [None, None, {"loss": "soft_l1", "f_scale": 0.05}, {"loss": "huber", "f_scale": 0.02}, {"max_nfev": 4000},
            {"loss": "cauchy", "f_scale": 0.1}][int(desc["gf"][0] * 1e6) % 6]
    if opts:
        kw["optimization_params"] = dict(kw.get("optimization_params") or {}, **opts)
        ctx.label("options:" + str(opts.get("loss", "max_nfev")))
    try:
        if desc["path"] == "arrays":
            mi = _fit("arrays", pb, lb, model, meta, branch=branch, **kw)
        else:
            mi = _fit_two_branch(desc["path"], p, l, b, model, meta, branch, **kw)
        if desc["guess"] == "refit":
            # user starting point: the first optimum moved by the drawn factors (kept inside the default bounds)
            g = {}
            for k, (name, (lo, hi)) in enumerate(zip(mi.model.param_names, mi.model.param_default_bounds)):
                v = float(mi.model.params[name]) * desc["gf"][k % 6]
                g[name] = v if lo < v < hi else float(mi.model.params[name])
            mi = _fit("arrays", pb, lb, model, meta, branch=branch, param_guess=g, **kw)
    except CalculationError:
        ctx.label("refused:" + model)
        raise Inconclusive()
    if mi.branch != branch:
        raise Violation(f"model isotherm fitted on branch {branch!r} reports branch {mi.branch!r}", tag="branch_label")
    _assert_rmse(mi, pb, lb, f"{model} on {len(pb)} {branch} points ({desc['path']}, {desc['guess']} guess)", addp)
    ctx.label("fit:" + model, "branch:" + branch, "path:" + desc["path"], "guess:" + desc["guess"],
              "noise:" + str(d["noise"]))
    ctx.nt([model, branch, desc["path"], desc["guess"], d["rng"], d["pressure"][:3], d["loading"][:3]], desc)


# =====================================================================================================================
# bounds in force
# =====================================================================================================================
# Virial has its own fit routine with its own handling of bounds: included (twice, for weight)
BOUND_MODELS = WELL_POSED + ("Quadratic", "GAB", "Virial", "Virial")


def strat_bounds():
    return st.builds(
        lambda path, model, guess, kinds, fs, us, data: {"model": model, "guess": guess, "kinds": kinds, "f": fs, "u": us,
                                                         "data": data, "path": path},
        st.sampled_from(["arrays", "arrays", "frame", "point", "model_iso"]),
        st.sampled_from(BOUND_MODELS), st.sampled_from(["default", "user"]),
        st.lists(st.sampled_from(["around", "above", "below"]), min_size=4, max_size=4),
        st.lists(st.floats(1.2, 5.0), min_size=4, max_size=4), st.lists(st.floats(0.05, 0.95), min_size=4, max_size=4),
        arb_data(desorption=False))


def _box(v, kind, f, lo_d, hi_d):
    """user interval for one parameter relative to the free optimum v, intersected with the default bounds."""
    if v > 1e-12:
        if kind == "around":
            lo, hi = v / f, v * f
        elif kind == "above":
            lo, hi = v * f, v * f * f
        else:
            lo, hi = v / (f * f), v / f
    else:
        w = max(abs(v), 1.0) * (f - 1.0)
        if kind == "around":
            lo, hi = v - w, v + w
        elif kind == "above":
            lo, hi = v + w, v + 2 * w
        else:
            lo, hi = v - 2 * w, v - w
    lo, hi = max(lo, lo_d), min(hi, hi_d)
    if not lo < hi or (hi - lo) <= 1e-9 * max(abs(lo), abs(hi)):
        lo, hi = max(v - abs(v) * 0.5 - 1e-6, lo_d), min(v + abs(v) * 0.5 + 1e-6, hi_d)
    return float(lo), float(hi)


def check_bounds(desc, ctx):
    model, d = desc["model"], desc["data"]
    p, l, _ = _arb_arrays(d, force_rel=model in RELATIVE_ONLY + ("BET", "GAB"))
    rel = d["rel"] or model in RELATIVE_ONLY + ("BET", "GAB")
    meta = _meta(rel)
    try:
        free = _fit("arrays", p, l, model, meta)
    except CalculationError:
        ctx.label("free_fit_refused")
        raise Inconclusive()
    names = list(free.model.param_names)
    box, guess = {}, {}
    for k, (name, (lo_d, hi_d)) in enumerate(zip(names, free.model.param_default_bounds)):
        v = float(free.model.params[name])
        lo, hi = _box(v, desc["kinds"][k % 4], desc["f"][k % 4], lo_d, hi_d)
        if not lo < hi:
            return
        box[name] = (lo, hi)
        guess[name] = lo + desc["u"][k % 4] * (hi - lo)
    # the dictionaries are keyed by name: the order in which the caller wrote the keys means nothing
    order = {0: list(names), 1: list(reversed(names)), 2: sorted(names), 3: sorted(names, reverse=True)}[int(d["rng"]) % 4]
    kw = {"param_bounds": {n: box[n] for n in order}}
    if desc["guess"] == "user":
        kw["param_guess"] = {n: guess[n] for n in reversed(order)}
    ctx.label("key_order_as_declared" if order == names else "key_order_other")
    try:
        mi = _fit(desc.get("path", "arrays"), p, l, model, meta, **kw)
    except CalculationError:
        ctx.label("refused:" + model)
        raise Inconclusive()
    got = {k: float(v) for k, v in mi.model.params.items()}
    for name, (lo, hi) in box.items():
        if not lo <= got[name] <= hi:
            raise Violation(f"{model} fitted with param_bounds={box} ({desc['guess']} guess): {name} = {got[name]!r} is "
                            f"outside [{lo}, {hi}] (all: {got})", tag="bounds_violated")
    _assert_rmse(mi, p, l, f"{model} with param_bounds={box}")
    binding = [n for n in names if not box[n][0] <= float(free.model.params[n]) <= box[n][1]]
    ctx.label("fit:" + model, "binding" if binding else "not_binding", "guess:" + desc["guess"])
    if binding:
        ctx.nt([model, desc["kinds"], d["rng"], d["pressure"][:3], d["loading"][:3]], desc)


# =====================================================================================================================
# (c) best of list
# =====================================================================================================================
LIST_MODELS = tuple(m for m in ALL_MODELS if m not in ("TSLangmuir", "FHVST", "WVST"))  # the three slowest fits


def _casing(name, k):
    return [name, name.lower(), name.upper()][k % 3]


def strat_guess():
    lists = st.lists(st.sampled_from(LIST_MODELS), min_size=2, max_size=4, unique=True)
    return st.builds(
        lambda kind, api, branch, case_k, models, data: {"kind": kind, "api": api, "branch": branch, "casing": case_k,
                                                         "models": models, "data": data},
        st.sampled_from(["list"] * 7 + ["guess"]), st.sampled_from(["guess_arrays", "guess_frame", "point", "model_iso"]),
        st.sampled_from(["ads", "ads", "des"]), st.integers(0, 2), lists, arb_data())


def check_guess(desc, ctx):
    d = desc["data"]
    p, l, b = _arb_arrays(d, des_rows=8 if desc["branch"] == "des" else 0)
    branch = desc["branch"]
    sel = b == (0 if branch == "ads" else 1)
    if sel.sum() < 8:
        branch, sel = "ads", b == 0
    pb, lb = p[sel], l[sel]
    if not lb.max() > lb.min():
        return
    meta = _meta(d["rel"])
    rich_material = int(d["rng"]) % 2 == 1
    if rich_material:
        # a material that carries properties (passed as an object; the library hands it on as a dictionary)
        meta["material"] = Material("verif-m", density=1.9, batch="B7")
    if desc["kind"] == "guess":
        names, arg = list(_GUESS_MODELS), "guess"
    else:
        names = list(desc["models"])
        arg = [_casing(m, desc["casing"] + k) for k, m in enumerate(names)]
    # every candidate alone
    alone = {}
    for m in names:
        try:
            alone[m] = float(_fit("arrays", pb, lb, m, meta, branch=branch).model.rmse)
        except CalculationError:
            pass
    try:
        if desc["api"] == "guess_arrays":
            best = pygaps.ModelIsotherm.guess(pressure=pb.tolist(), loading=lb.tolist(), models=arg, branch=branch, **meta)
        elif desc["api"] == "guess_frame":
            best = pygaps.ModelIsotherm.guess(isotherm_data=_both_branch_frame(p, l, b), pressure_key="pp", loading_key="ll",
                                              models=arg, branch=branch, **meta)
        else:
            iso = pygaps.PointIsotherm(pressure=p.tolist(), loading=l.tolist(), branch=[bool(x) for x in b], **meta)
            fn = pygaps.ModelIsotherm.from_pointisotherm if desc["api"] == "point" else pgm.model_iso
            best = fn(iso, branch=branch, model=arg)
    except CalculationError:
        if alone:
            raise Violation(f"guess over {arg} raised CalculationError although {sorted(alone)} converge when fitted alone",
                            tag="guess_refused")
        ctx.label("none_converged")
        raise Inconclusive()
    if not alone:
        raise Violation(f"guess over {arg} returned {best.model.name} although no candidate converges alone",
                        tag="guess_from_nowhere")
    finite = {m: e for m, e in alone.items() if math.isfinite(e)}
    if len(finite) != len(alone):
        ctx.label("non_finite_rmse")
        raise Inconclusive()
    got_name, got = best.model.name, float(best.model.rmse)
    if got_name not in alone:
        raise Violation(f"guess over {arg} returned {got_name}, which is not a converging candidate ({sorted(alone)})",
                        tag="guess_unknown_model")
    if not close(got, alone[got_name], 1e-12):
        raise Violation(f"guess over {arg} returned {got_name} with rmse {got!r}; fitted alone it reports "
                        f"{alone[got_name]!r}", tag="guess_rmse_differs")
    lo = min(alone.values())
    if not got <= lo * (1 + 1e-12):
        raise Violation(f"guess over {arg} returned {got_name} (rmse {got!r}) although "
                        f"{min(alone, key=alone.get)} reports {lo!r}; all: {alone}", tag="guess_not_min")
    _assert_rmse(best, pb, lb, f"guess over {arg} -> {got_name}")
    # the one returned is one of the candidate fits of these data: it describes the same measurement
    want_props = {"density": 1.9, "batch": "B7"} if rich_material else {}
    if best.material.name != "verif-m" or dict(best.material.properties) != want_props or str(best.adsorbate) != "nitrogen" \
            or best.temperature != 77.0 or best.units != {k: meta[k] for k in best.units}:
        raise Violation(f"guess over {arg} -> {got_name}: the returned isotherm describes another measurement: material "
                        f"{best.material.name!r} {dict(best.material.properties)} (given 'verif-m' {want_props}), adsorbate "
                        f"{best.adsorbate}, T {best.temperature}, units {best.units}", tag="guess_description")
    ctx.label("material_with_properties" if rich_material else "material_plain")
    ctx.label("kind:" + desc["kind"], "api:" + desc["api"], "winner:" + got_name, f"converged:{min(len(alone), 5)}")
    if len(set(alone.values())) >= 2:
        ctx.nt([sorted(names), branch, d["rng"], d["pressure"][:3], d["loading"][:3]], desc)


# =====================================================================================================================
# (d) branch isolation
# =====================================================================================================================
BRANCH_MODELS = ("Henry", "Langmuir", "Freundlich", "Toth", "TemkinApprox", "DR", "BET", "Quadratic", "Virial")


def strat_branch():
    return st.builds(
        lambda model, path, branch, fac, data: {"model": model, "path": path, "branch": branch, "factor": fac, "data": data},
        st.sampled_from(BRANCH_MODELS), st.sampled_from(TWO_PATHS), st.sampled_from(["ads", "des"]),
        st.sampled_from([0.0, 0.3, 0.5, 2.0, 7.0]), arb_data(min_points=8, max_points=30))


def _same_model(a, b):
    return (a.model.name == b.model.name and list(a.model.params) == list(b.model.params)
            and all(float(a.model.params[k]) == float(b.model.params[k]) for k in a.model.params)
            and float(a.model.rmse) == float(b.model.rmse)
            and tuple(map(float, a.model.pressure_range)) == tuple(map(float, b.model.pressure_range))
            and tuple(map(float, a.model.loading_range)) == tuple(map(float, b.model.loading_range)))


def _mdesc(mi):
    return (f"{ {k: float(v) for k, v in mi.model.params.items()} } rmse {float(mi.model.rmse)!r} "
            f"p-range {tuple(map(float, mi.model.pressure_range))}")


def check_branch(desc, ctx):
    model, d = desc["model"], desc["data"]
    rel_model = model in ("DR", "BET")
    p, l, b = _arb_arrays(d, force_rel=rel_model, des_rows=8)
    branch = desc["branch"]
    want = 0 if branch == "ads" else 1
    sel = b == want
    if sel.sum() < 3 or not l[sel].max() > l[sel].min():
        return
    meta = _meta(d["rel"] or rel_model)
    try:
        alone = _fit("arrays", p[sel], l[sel], model, meta, branch=branch)
    except CalculationError:
        alone = None
    try:
        both = _fit_two_branch(desc["path"], p, l, b, model, meta, branch)
    except CalculationError:
        both = None
    what = f"{model} branch={branch!r} via {desc['path']} ({int(sel.sum())} of {len(p)} rows)"
    if (alone is None) != (both is None):
        raise Violation(f"{what}: fit of the two-branch data {'refused' if both is None else 'returned'} but the fit of "
                        f"the requested rows alone {'refused' if alone is None else 'returned'}", tag="branch_leak")
    if both is None:
        ctx.label("refused:" + model)
        raise Inconclusive()
    if both.branch != branch:
        raise Violation(f"{what}: model isotherm reports branch {both.branch!r}", tag="branch_label")
    if not _same_model(alone, both):
        raise Violation(f"{what}: two-branch input gives {_mdesc(both)}, the requested rows alone give {_mdesc(alone)}",
                        tag="branch_leak")
    # perturb the other branch only (pressures untouched, so the guessed split cannot move)
    l2 = l.copy()
    l2[~sel] = l2[~sel] * desc["factor"] + 0.123 * d["L"]
    try:
        pert = _fit_two_branch(desc["path"], p, l2, b, model, meta, branch)
    except CalculationError:
        raise Violation(f"{what}: refused after changing only the loadings of the other branch", tag="branch_leak")
    if not _same_model(both, pert):
        raise Violation(f"{what}: changing only the other branch's loadings changed the fit: {_mdesc(both)} -> "
                        f"{_mdesc(pert)}", tag="branch_leak")
    _assert_rmse(both, p[sel], l[sel], what)
    ctx.label("fit:" + model, "branch:" + branch, "path:" + desc["path"])
    if sel.sum() >= 8:
        ctx.nt([model, branch, desc["path"], d["rng"], d["pressure"][:3], d["loading"][:3]], desc)


# =====================================================================================================================
# (e) point <-> model
# =====================================================================================================================
CLOSED_INVERSE = ("Henry", "Langmuir", "Freundlich", "Toth", "DR", "DA")
_META = {"user": "vérif", "k1": 3, "comment": "a b", "flag": True, "x": 1.5}


def strat_point_model():
    # the model (inside exact_spec) and the other categoricals are drawn first: hypothesis skews categorical draws that
    # come after long variable-size draws towards their first option
    return st.builds(
        lambda spec, build, pts, branch, tunit, mkeys, ptsg, u, at, mat: {
            "build": build, "points": pts, "branch": branch, "points_grid": ptsg, "meta_keys": mkeys, "spec": spec,
            "units": dict(u, temperature_unit=tunit), "adsorbate": at["adsorbate"], "material": mat},
        exact_spec(natural_only=True), st.sampled_from(["fit", "fit", "params"]),
        st.sampled_from(["default", "list", "isotherm", "isotherm_foreign", "loading"]), st.sampled_from(["ads", "ads", "des"]),
        st.sampled_from(["K", "K", "°C"]), st.lists(st.sampled_from(sorted(_META)), max_size=3, unique=True), _grid(),
        S.units(), S.ads_T(), S.material())


def _same_value(a, b):
    if isinstance(a, float) or isinstance(b, float):
        try:
            return float(a) == float(b)
        except (TypeError, ValueError):
            return False
    return a == b


def check_point_model(desc, ctx):
    spec = desc["spec"]
    model = spec["model"]
    params, p, l = _exact_data(spec)
    if not _usable(p, l):
        return
    units = dict(desc["units"])
    if model in RELATIVE_ONLY:
        units["pressure_mode"], units["pressure_unit"] = "relative", None
    T_K = spec["T_K"]
    T = T_K if units["temperature_unit"] == "K" else T_K - 273.15
    meta = {k: _META[k] for k in desc["meta_keys"]}
    branch = desc["branch"]

    def common():
        return dict(material=K.build_material(desc["material"]), adsorbate=desc["adsorbate"], temperature=T, **units, **meta)

    if desc["build"] == "fit":
        try:
            mi = pygaps.ModelIsotherm(pressure=p.tolist(), loading=l.tolist(), model=model, branch=branch, **common())
        except CalculationError:
            ctx.label("refused:" + model)
            raise Inconclusive()
    else:
        inst = get_isotherm_model(model, parameters=dict(params), pressure_range=(float(p.min()), float(p.max())),
                                  loading_range=(float(l.min()), float(l.max())))
        mi = pygaps.ModelIsotherm(model=inst, branch=branch, **common())
    first_ok = desc["build"] == "params" or _misfit(mi, p, l) <= TOL_CURVE
    pr = tuple(map(float, mi.model.pressure_range))
    # --- the point isotherm
    pts = desc["points"]
    if pts == "loading" and model not in CLOSED_INVERSE:
        pts = "list"
    # requested abscissae: a second grid of 8-60 points spanning the range the model was built on
    g = desc["points_grid"]
    uu = _grid_u(g)
    u = (uu - uu[0]) / (uu[-1] - uu[0])
    req_p = pr[0] + u * (pr[1] - pr[0])
    req_p[-1] = pr[1]
    foreign = False
    if pts == "default":
        pt = pygaps.PointIsotherm.from_modelisotherm(mi)
        exp_p = np.linspace(pr[0], pr[1], 60)
    elif pts == "list":
        pt = pygaps.PointIsotherm.from_modelisotherm(mi, pressure_points=req_p.tolist())
        exp_p = req_p
    elif pts == "isotherm":
        # an isotherm in the same units with interleaved rows on both branches (each spans the whole range); only the
        # rows of the model's branch may be used
        pa, pdes = req_p[0::2], req_p[1::2][::-1]
        bb = [False] * len(pa) + [True] * len(pdes)
        pp = np.concatenate([pa, pdes])
        other = pygaps.PointIsotherm(pressure=pp.tolist(), loading=(np.arange(len(pp)) + 1.0).tolist(), branch=bb, **common())
        pt = pygaps.PointIsotherm.from_modelisotherm(mi, pressure_points=other)
        exp_p = pa if branch == "ads" else pdes
    elif pts == "isotherm_foreign":
        # a template isotherm expressed in ANOTHER pressure unit / mode than the model isotherm: which pressures are
        # generated from it is not part of the property, but the generated points must lie on the model
        tu = dict(units)
        if units["pressure_mode"] == "absolute":
            tu["pressure_unit"] = "kPa" if units["pressure_unit"] != "kPa" else "bar"
        else:
            tu["pressure_mode"], tu["pressure_unit"] = "absolute", "kPa"
        other = pygaps.PointIsotherm(pressure=req_p.tolist(), loading=(np.arange(len(req_p)) + 1.0).tolist(), branch=branch,
                                     **{**common(), **tu})
        pt = pygaps.PointIsotherm.from_modelisotherm(mi, pressure_points=other)
        exp_p = None
        foreign = True
    else:
        exp_p = None
        ends = np.asarray(mi.model.loading(np.array(pr)), dtype=float)
        lo_l, hi_l = float(np.min(ends)), float(np.max(ends))
        if not (np.all(np.isfinite(ends)) and lo_l > 0 and hi_l > lo_l * (1 + 1e-6)):
            # degenerate curve (e.g. a garbage first fit): there is no loading range to sample
            ctx.label("degenerate_model_curve")
            return
        # loadings evenly spread over the model's range (a geometric grid in LOADING piles the points up at the low
        # end, which is not a sampling of the curve)
        req_l = lo_l + (0.02 + 0.96 * np.linspace(0.0, 1.0, len(u))) * (hi_l - lo_l)
        pt = pygaps.PointIsotherm.from_modelisotherm(mi, loading_points=req_l.tolist())
    got_p = np.asarray(pt.pressure(branch=branch), dtype=float)
    got_l = np.asarray(pt.loading(branch=branch), dtype=float)
    what = f"{model} model isotherm ({desc['build']}, branch {branch}, {units}) -> from_modelisotherm({pts})"
    if len(pt.data_raw) != len(got_p):
        raise Violation(f"{what}: {len(pt.data_raw) - len(got_p)} of {len(pt.data_raw)} generated rows are not on the model's "
                        f"branch {branch!r}", tag="point_branch")
    if exp_p is not None:
        if len(got_p) != len(exp_p) or not np.array_equal(got_p, exp_p):
            raise Violation(f"{what}: pressures {got_p.tolist()[:6]}.. are not the requested ones {np.asarray(exp_p).tolist()[:6]}..",
                            tag="point_pressures")
        on = np.asarray(mi.loading_at(got_p), dtype=float)
        if not (got_l.shape == on.shape and allclose(got_l, on, rel=1e-12)):
            raise Violation(f"{what}: loadings {got_l.tolist()[:6]}.. differ from model.loading_at {on.tolist()[:6]}..",
                            tag="point_off_model")
    elif foreign:
        if len(got_p) != len(req_p):
            raise Violation(f"{what}: {len(got_p)} points generated from a template of {len(req_p)}", tag="point_pressures")
        with np.errstate(all="ignore"):
            try:
                on = np.asarray(mi.loading_at(got_p), dtype=float)
            except CalculationError:
                raise Inconclusive()
        if not (got_l.shape == on.shape and allclose(got_l, on, rel=1e-12)):
            raise Violation(f"{what} (template in {tu['pressure_mode']}/{tu['pressure_unit']}): generated loadings "
                            f"{got_l.tolist()[:6]}.. differ from model.loading_at of the generated pressures {on.tolist()[:6]}..",
                            tag="point_off_model")
    else:
        if len(got_l) != len(req_l) or not np.array_equal(got_l, req_l):
            raise Violation(f"{what}: loadings are not the requested ones", tag="point_loadings")
        on = np.asarray(mi.pressure_at(got_l), dtype=float)
        if not allclose(got_p, on, rel=1e-12):
            raise Violation(f"{what}: pressures {got_p.tolist()[:5]} differ from model.pressure_at {on.tolist()[:5]}",
                            tag="point_off_model")
        back = np.asarray(mi.loading_at(got_p), dtype=float)
        if np.all(np.isfinite(got_p)) and not np.all(np.abs(back - got_l) <= 1e-6 * np.abs(got_l).max()):
            raise Violation(f"{what}: (pressure_at(n), n) is not on the loading curve: loading_at gives {back.tolist()[:5]} "
                            f"for {got_l.tolist()[:5]}", tag="point_off_model")
    # --- metadata and units
    md, pd_ = mi.to_dict(), pt.to_dict()
    for key, val in md.items():
        if key == "branch":
            continue
        if key == "material":
            continue
        if key not in pd_ or not _same_value(pd_[key], val):
            raise Violation(f"{what}: {key!r} is {pd_.get(key, '<missing>')!r} on the point isotherm, {val!r} on the model "
                            "isotherm", tag="point_metadata")
    extra = set(pd_) - set(md) - {"model_from"}
    if extra:
        raise Violation(f"{what}: point isotherm has extra entries {sorted(extra)}", tag="point_metadata")
    if pt.units != mi.units:
        raise Violation(f"{what}: units {pt.units} != {mi.units}", tag="point_units")
    if str(pt.adsorbate) != str(mi.adsorbate) or pt.material.name != mi.material.name or \
            dict(pt.material.properties) != dict(mi.material.properties):
        raise Violation(f"{what}: adsorbate/material {pt.adsorbate}/{pt.material.to_dict()} != "
                        f"{mi.adsorbate}/{mi.material.to_dict()}", tag="point_metadata")
    if pt.temperature != mi.temperature:
        raise Violation(f"{what}: temperature {pt.temperature} K != {mi.temperature} K", tag="point_metadata")
    ctx.label("build:" + desc["build"], "points:" + pts, "model:" + model, "tunit:" + units["temperature_unit"])
    # --- refit (claimed for curves inside the generator's windows: a fitted model must have reproduced its data)
    if not first_ok:
        ctx.label("first_fit_poor")
        return
    if len(got_p) < 8 or not np.all(np.isfinite(got_l)) or not got_l.max() > got_l.min() or not np.all(got_l > 0):
        return
    try:
        again = pygaps.ModelIsotherm.from_pointisotherm(pt, branch=branch, model=model)
    except CalculationError:
        ctx.label("refit_refused:" + model)
        raise Inconclusive()
    y = np.asarray(again.loading_at(got_p), dtype=float)
    err = float(np.max(np.abs(y - got_l)) / np.max(np.abs(got_l))) if np.all(np.isfinite(y)) else float("inf")
    if not err <= TOL_CURVE:
        raise Violation(
            f"{what}: refit of the {len(got_p)} generated points returns another curve: model "
            f"{ {k: float(v) for k, v in mi.model.params.items()} } -> { {k: float(v) for k, v in again.model.params.items()} }, "
            f"max|refit-point|/max = {err:.3g} > {TOL_CURVE} (p in [{got_p.min():.6g}, {got_p.max():.6g}], max loading "
            f"{got_l.max():.6g})", tag=_tag("refit_differs", model, got_p, got_l, T_K, mi.model.params))
    ctx.nt([model, desc["build"], pts, branch, K.reps_of(units), {k: float(f"{v:.6g}") for k, v in params.items()}], desc)


# =====================================================================================================================
# (f) unit covariance
# =====================================================================================================================
def strat_covariance():
    return st.builds(
        lambda axis, t1, spec, u1, u2, at, mat: {"axis": axis, "spec": spec, "u1": dict(u1, temperature_unit=t1), "u2": u2,
                                                 "adsorbate": at["adsorbate"], "T_K": at["T_K"], "material": mat},
        st.sampled_from(["pressure", "pressure", "loading", "material", "all", "all", "temperature", "temperature"]),
        st.sampled_from(["K", "°C"]), exact_spec(natural_only=True), S.units(), S.units(), S.ads_T(), S.material())


def _fluid(name):
    return next(e for e in K.backend_table() if e[0] == name)[1]


def check_covariance(desc, ctx):
    spec = dict(desc["spec"])
    model = spec["model"]
    spec["T_K"] = desc["T_K"]  # the adsorbate's sub-critical temperature (needed by the mode conversions)
    desc = dict(desc, spec=spec)
    T_K = spec["T_K"]
    params, p1, l1 = _exact_data(spec)
    if not _usable(p1, l1):
        return
    u1 = dict(desc["u1"])
    u2 = dict(u1)
    axis = desc["axis"]
    src = desc["u2"]
    if axis in ("temperature", "all"):
        u2["temperature_unit"] = "°C" if u1["temperature_unit"] == "K" else "K"
    if axis in ("pressure", "all"):
        u2["pressure_mode"], u2["pressure_unit"] = src["pressure_mode"], src["pressure_unit"]
    if axis in ("loading", "all"):
        u2["loading_basis"], u2["loading_unit"] = src["loading_basis"], src["loading_unit"]
    if axis in ("material", "all"):
        u2["material_basis"], u2["material_unit"] = src["material_basis"], src["material_unit"]
    if model in RELATIVE_ONLY:
        for u in (u1, u2):
            u["pressure_mode"], u["pressure_unit"] = "relative", None
    if u1 == u2:
        return
    sp, sl, sm = K.reps_of(u1)
    tp, tl, tm = K.reps_of(u2)
    fluid = _fluid(desc["adsorbate"])
    dens, mm = desc["material"]["density"], desc["material"]["molar_mass"]
    f_p = float(ru.conv_pressure(1.0, sp, tp, fluid, T_K))
    f_l = float(ru.conv_full_loading(1.0, sl, sm, tl, tm, fluid, T_K, dens, mm))
    if not (math.isfinite(f_p) and math.isfinite(f_l) and f_p > 0 and f_l > 0):
        return
    if model == "BET" and params["N"] / f_p >= 0.99:
        ctx.label("bet_bound_active")
        return
    p2, l2 = p1 * f_p, l1 * f_l

    def fit(u, p, l):
        T = T_K if u["temperature_unit"] == "K" else T_K - 273.15
        iso = pygaps.PointIsotherm(pressure=p.tolist(), loading=l.tolist(), branch="ads",
                                   material=K.build_material(desc["material"]), adsorbate=desc["adsorbate"], temperature=T, **u)
        try:
            return pygaps.ModelIsotherm.from_pointisotherm(iso, model=model)
        except CalculationError:
            return None

    m1, m2 = fit(u1, p1, l1), fit(u2, p2, l2)
    what = (f"{model} fitted to the same {len(p1)} exact points written as {K.reps_of(u1)} {u1['temperature_unit']} and as "
            f"{K.reps_of(u2)} {u2['temperature_unit']} (pressure x{f_p:.6g}, loading x{f_l:.6g}; generating parameters "
            f"{params}, T = {T_K} K)")
    ctx.label("axis:" + axis, "model:" + model)
    if m1 is None or m2 is None:
        if axis == "temperature" and (m1 is None) != (m2 is None):
            bad = u1 if m1 is None else u2
            raise Violation(f"{what}: the numbers are identical, only the temperature label differs, yet the fit is refused "
                            f"(CalculationError) with temperature_unit={bad['temperature_unit']!r} and returns with the other",
                            tag="temperature_unit_refused")
        ctx.label("refused")
        raise Inconclusive()
    y1 = np.asarray(m1.model.loading(p1), dtype=float)
    y2 = np.asarray(m2.model.loading(p2), dtype=float)
    ok = np.all(np.isfinite(y1)) and np.all(np.isfinite(y2))
    diff = float(np.max(np.abs(y2 / f_l - y1)) / l1.max()) if ok else float("inf")
    if not diff <= TOL_CURVE:
        e1, e2 = _misfit(m1, p1, l1), _misfit(m2, p2, l2)
        worse_p, worse_l = (p1, l1) if e1 >= e2 else (p2, l2)
        raise Violation(
            f"{what}: the two fitted curves differ by {diff:.3g} of the largest loading after undoing the unit change "
            f"(misfit to the data {e1:.3g} / {e2:.3g}); parameters { {k: float(v) for k, v in m1.model.params.items()} } vs "
            f"{ {k: float(v) for k, v in m2.model.params.items()} }",
            tag=_tag("unit_covariance", model, worse_p, worse_l, T_K,
                     params if worse_p is p1 else _rescale_params(model, params, f_p, f_l)))
    ctx.nt([model, axis, K.reps_of(u1), K.reps_of(u2), u1["temperature_unit"], {k: float(f"{v:.6g}") for k, v in params.items()}],
           desc)


CHECKS = [
    Check("exact_recovery", check_exact, strategy=strat_exact, budget={"quick": 3600, "thorough": 60000},
          rule="10 well-posed models x generating parameters x 8-60 point grids x magnitudes x entry paths; fit reproduces "
               "its own exact data within 1e-2 of the largest loading"),
    Check("rmse_identity", check_rmse, strategy=strat_rmse, budget={"quick": 1440, "thorough": 24000},
          rule="16 models x arbitrary noisy increasing data x entry paths x branch x default/user start: reported rmse == "
               "recomputed normalised RMS deviation; stored ranges == ranges of the fitted rows"),
    Check("bounds", check_bounds, strategy=strat_bounds, budget={"quick": 960, "thorough": 12000},
          rule="user boxes around/above/below the free optimum, user guesses inside: parameters stay in the box"),
    Check("guess_best", check_guess, strategy=strat_guess, budget={"quick": 192, "thorough": 3200}, shrink_quick=False,
          rule="lists of 2-4 models or 'guess' through guess()/from_pointisotherm/model_iso: winner has the minimum reported "
               "rmse among the candidates that converge alone"),
    Check("branch_isolation", check_branch, strategy=strat_branch, budget={"quick": 960, "thorough": 12000},
          rule="two-branch inputs (explicit or guessed split): fit == fit of the requested rows; other branch perturbed"),
    Check("point_model", check_point_model, strategy=strat_point_model, budget={"quick": 1800, "thorough": 32000},
          rule="from_modelisotherm in any unit configuration: on the model, metadata/units kept, refit reproduces"),
    Check("unit_covariance", check_covariance, strategy=strat_covariance, budget={"quick": 1800, "thorough": 32000},
          rule="same exact data in two unit configurations: fitted curves agree up to the reference conversion"),
]
