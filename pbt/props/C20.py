"""C20 - shipped adsorbates resolve uniquely; their thermodynamic data are consistent."""
import copy
import json
import os

import numpy as np
from hypothesis import strategies as st

import pygaps
from pygaps.core.adsorbate import Adsorbate
from pygaps.core.baseisotherm import BaseIsotherm
from pygaps.data import ADSORBATE_LIST
from pygaps.utilities.exceptions import CalculationError

from pbt import case as K
from pbt import ref_units as ru
from pbt.core import Check, Violation, close

LEVEL = "exploration"
RULE = (
    "Registry part exhaustive: every entry of src/pygaps/data/adsorbates.json (176) x its name and every alias x "
    "{as written, lower, upper, title, swapcase} must resolve through Adsorbate.find and through an isotherm "
    "constructor to the registry object of that name, every lower-cased alias must have exactly one owner in the "
    "registry loaded from default.db, and JSON and database entries must agree; plus hypothesis-drawn random casing. "
    "Thermodynamic part: hypothesis-drawn (backend adsorbate, two temperatures inside (Tt,Tc), pressure unit): "
    "rho_mass = rho_molar*M (liquid, vapour), p_triple <= p_sat <= p_crit, p_sat increasing, dH_vap > 0, unit argument "
    "honoured, all against CoolProp PropsSI; fallback part: user adsorbates without / with bogus backend / at "
    "supercritical T with and without the user property. Non-trivial = alias different from the name or a non-identity "
    "casing (registry), any thermodynamic case, any fallback case; distinct by (adsorbate, alias, variant) resp. "
    "(adsorbate, rounded T, unit)."
)
ASSUMPTIONS = [
    "CoolProp HEOS high-level PropsSI is the source of truth for the thermodynamic comparison (REFPROP not exercised)",
    "temperatures are drawn from the inner 96 % of (max(Tt,Tmin), Tc)",
]

_SRC = None


def src_list():
    global _SRC
    if _SRC is None:
        repo = os.environ.get("VERIF_REPO", "/repo")
        with open(os.path.join(repo, "src", "pygaps", "data", "adsorbates.json")) as f:
            _SRC = json.load(f)
    return _SRC


def worker_init():
    K.reset_registries()


def _variants(s):
    out = [s, s.lower(), s.upper(), s.title(), s.swapcase()]
    seen = []
    for v in out:
        if v not in seen:
            seen.append(v)
    return seen


def _owner(name):
    owners = [a for a in ADSORBATE_LIST if a.name == name]
    if len(owners) != 1:
        raise Violation(f"registry holds {len(owners)} adsorbates named {name!r}", tag="registry_name_count")
    return owners[0]


def _resolve(s, owner, what):
    try:
        found = Adsorbate.find(s)
    except Exception as e:  # noqa
        raise Violation(f"Adsorbate.find({s!r}) ({what} of {owner.name!r}) raised {type(e).__name__}: {e}",
                        tag="find_raises")
    if found is not owner:
        raise Violation(f"Adsorbate.find({s!r}) returned {found.name!r}, expected its owner {owner.name!r}",
                        tag="find_wrong_owner")


def check_registry_entry(desc, ctx):
    """desc = {"index": i}: i-th entry of adsorbates.json."""
    e = src_list()[desc["index"]]
    name = e["name"]
    owner = _owner(name)
    strings = [name] + [a for a in e.get("alias", [])]
    # database entry agrees with the JSON source entry
    want_alias = {s.lower() for s in strings}
    if set(owner.alias) != want_alias:
        raise Violation(f"{name}: database aliases {sorted(owner.alias)} != JSON aliases {sorted(want_alias)}",
                        tag="json_db_alias")
    for k, v in e.items():
        if k in ("name", "alias"):
            continue
        got = owner.properties.get(k)
        v_cmp = v[0] if isinstance(v, list) and len(v) == 1 else v
        got_cmp = got[0] if isinstance(got, list) and len(got) == 1 else got
        same = (v_cmp == got_cmp) or (isinstance(v_cmp, (int, float)) and isinstance(got_cmp, (int, float)) and
                                      close(float(v_cmp), float(got_cmp), 1e-12)) or \
               (isinstance(v_cmp, list) and isinstance(got_cmp, list) and sorted(map(str, v_cmp)) == sorted(map(str, got_cmp)))
        if not same:
            raise Violation(f"{name}: property {k!r} is {got!r} in default.db but {v!r} in adsorbates.json",
                            tag="json_db_property")
    extra = set(owner.properties) - set(e)
    if extra:
        raise Violation(f"{name}: database has properties {sorted(extra)} that adsorbates.json lacks", tag="json_db_property")
    for s in strings:
        # unique owner of each (lower-cased) designation in the registry
        owners = [a.name for a in ADSORBATE_LIST if s.lower() in a.alias or a.name.lower() == s.lower()]
        if owners != [name]:
            raise Violation(f"designation {s!r} of {name!r} is owned by {owners}", tag="alias_not_unique")
        for v in _variants(s):
            _resolve(v, owner, "alias" if s != name else "name")
            if s != name or v != name:
                ctx.nt([name, s, v], {"adsorbate": name, "string": v})
        # an isotherm created with the string is linked to that adsorbate
        iso = BaseIsotherm(material="m-0", adsorbate=s.upper(), temperature=300,
                           pressure_mode="absolute", pressure_unit="bar", loading_basis="molar", loading_unit="mmol",
                           material_basis="mass", material_unit="g", temperature_unit="K")
        if iso.adsorbate is not owner:
            raise Violation(f"isotherm built with adsorbate={s.upper()!r} is linked to {iso.adsorbate.name!r}, "
                            f"expected {name!r}", tag="isotherm_wrong_owner")
    ctx.label("entries")


def cases_registry(tier, seed):
    return [{"index": i} for i in range(len(src_list()))]


def check_registry_counts(desc, ctx):
    """Whole-registry statements: same names in JSON and DB, no duplicate names."""
    names_json = [e["name"] for e in src_list()]
    names_db = [a.name for a in ADSORBATE_LIST]
    if sorted(names_json) != sorted(names_db):
        missing = sorted(set(names_json) - set(names_db))
        extra = sorted(set(names_db) - set(names_json))
        raise Violation(f"adsorbates.json and default.db differ: missing in db {missing[:5]}, extra in db {extra[:5]}",
                        tag="json_db_names")
    if len(set(n.lower() for n in names_db)) != len(names_db):
        raise Violation("duplicate adsorbate names in the registry", tag="registry_name_count")
    if pygaps.ADSORBATE_LIST is not ADSORBATE_LIST:
        raise Violation("pygaps.ADSORBATE_LIST is not the registry list", tag="registry_identity")
    ctx.nt(["count", len(names_db)], {"n_json": len(names_json), "n_db": len(names_db)})
    ctx.nt(["count2", len(names_db)])


def strat_casing():
    n = len(src_list())
    return st.builds(lambda i, j, mask: {"index": i, "alias": j, "mask": mask},
                     st.integers(0, n - 1), st.integers(0, 40), st.integers(0, 2 ** 30))


def check_random_casing(desc, ctx):
    e = src_list()[desc["index"]]
    strings = [e["name"]] + list(e.get("alias", []))
    s = strings[desc["alias"] % len(strings)]
    mask = desc["mask"]
    v = "".join(ch.upper() if (mask >> (k % 30)) & 1 else ch.lower() for k, ch in enumerate(s))
    if v.lower() != s.lower():
        return  # characters whose case mapping is not a bijection
    owner = _owner(e["name"])
    order = (mask >> 27) & 3
    if order:
        # a user's private adsorbate object carrying the same spelling (not stored in the registry) passes through
        # the lookup as itself and does not change what the string designates, whichever is looked up first
        priv = Adsorbate(v, store=False, molar_mass=1.0)
        if order == 1:
            _resolve(v, owner, "random casing")
        iso = BaseIsotherm(material="m-0", adsorbate=e["name"], temperature=300,
                           pressure_mode="absolute", pressure_unit="bar", loading_basis="molar", loading_unit="mmol",
                           material_basis="mass", material_unit="g", temperature_unit="K")
        iso.adsorbate = priv
        if Adsorbate.find(priv) is not priv or iso.adsorbate is not priv:
            raise Violation(f"a private Adsorbate({v!r}) object handed to find() / an isotherm came back as another object "
                            f"(find: {'registry entry' if Adsorbate.find(priv) is owner else 'other'}, lookup of the "
                            f"string {'before' if order == 1 else 'after'})", tag="private_object_replaced")
        ctx.label("private_namesake")
    if (mask >> 24) & 7 == 5:
        # the adsorbate written to a user's database file in the meantime (schema only; property types auto-inserted)
        import shutil
        import tempfile
        from pygaps.parsing.sqlite import adsorbate_to_db
        from pygaps.utilities.sqlite_db_pragmas import PRAGMAS
        from pygaps.utilities.sqlite_utilities import db_execute_general
        tmp = tempfile.mkdtemp(prefix="c20_db_", dir="/dev/shm" if os.access("/dev/shm", os.W_OK) else None)
        try:
            path = os.path.join(tmp, "user.db")
            for pragma in PRAGMAS:
                db_execute_general(pragma, path)
            adsorbate_to_db(owner, db_path=path, verbose=False)
            for w in _variants(e["name"]) + [v]:
                _resolve(w, owner, "name after the adsorbate was written to a database")
            iso = BaseIsotherm(material="m-0", adsorbate=e["name"], temperature=300,
                               pressure_mode="absolute", pressure_unit="bar", loading_basis="molar", loading_unit="mmol",
                               material_basis="mass", material_unit="g", temperature_unit="K")
            if iso.adsorbate is not owner:
                raise Violation(f"after {e['name']!r} was written to a database an isotherm built with that name is linked "
                                f"to another object", tag="isotherm_wrong_owner")
            ctx.label("after_db_upload")
        finally:
            K.reset_registries()
            shutil.rmtree(tmp, ignore_errors=True)
    _resolve(v, owner, "random casing")
    if not (owner == v):
        raise Violation(f"adsorbate {owner.name!r} != its own designation {v!r}", tag="eq_string")
    ctx.nt([e["name"], s, v], {"adsorbate": e["name"], "string": v})


# ---- thermodynamic consistency ------------------------------------------------------------------------------------------
def strat_thermo():
    tab = K.backend_table()
    return st.builds(lambda i, u1, u2, unit, order, fresh: {"adsorbate": tab[i][0], "u1": min(u1, u2), "u2": max(u1, u2),
                                                            "unit": unit, "order": order, "fresh": fresh},
                     st.integers(0, len(tab) - 1), st.floats(0, 1), st.floats(0, 1), st.sampled_from(list(ru.PRESSURE_PA)),
                     st.permutations(list(range(15))).map(list), st.booleans())


def check_thermo(desc, ctx):
    entry = next(e for e in K.backend_table() if e[0] == desc["adsorbate"])
    ads = K.get_adsorbate(desc["adsorbate"])
    if desc.get("fresh"):
        # a new object with the same content, whose backend has never been asked anything: any call may be the first one
        ads = Adsorbate(ads.name, store=False, **copy.deepcopy(ads.properties))
    fluid = entry[1]
    T1 = K.temperature_for(entry, desc["u1"])
    T2 = K.temperature_for(entry, desc["u2"])
    unit = desc["unit"]
    # every property call in a hypothesis-drawn order at the two temperatures, each against the independent PropsSI value:
    # the calls share one mutable CoolProp state, a value must not depend on which call came before
    from CoolProp.CoolProp import PropsSI as _P
    calls = [
        ("liquid_density", lambda T: ads.liquid_density(T), lambda T: ru.rho_liq_molar(fluid, T) * ru.molar_mass(fluid)),
        ("liquid_molar_density", lambda T: ads.liquid_molar_density(T), lambda T: ru.rho_liq_molar(fluid, T)),
        ("gas_density", lambda T: ads.gas_density(T), lambda T: ru.rho_vap_molar(fluid, T) * ru.molar_mass(fluid)),
        ("gas_molar_density", lambda T: ads.gas_molar_density(T), lambda T: ru.rho_vap_molar(fluid, T)),
        ("saturation_pressure", lambda T: ads.saturation_pressure(T), lambda T: ru.p_sat(fluid, T)),
        ("enthalpy_vaporisation", lambda T: ads.enthalpy_vaporisation(temp=T),
         lambda T: (_P("Hmolar", "T", T, "Q", 1, fluid) - _P("Hmolar", "T", T, "Q", 0, fluid)) / 1000),
        # surface tension is not part of the property (and not available for every fluid): it only perturbs the state
        ("surface_tension", lambda T: _st(T), None),
        # the constants of the fluid (any of them may be the first question asked of a fresh object)
        ("molar_mass", lambda T: ads.molar_mass(), lambda T: ru.molar_mass(fluid)),
        ("p_triple", lambda T: ads.p_triple(), lambda T: _P("PTRIPLE", fluid)),
        ("p_critical", lambda T: ads.p_critical(), lambda T: _P("PCRIT", fluid)),
        ("t_triple", lambda T: ads.t_triple(), lambda T: ru.t_triple(fluid)),
        ("t_critical", lambda T: ads.t_critical(), lambda T: ru.t_crit(fluid)),
        # requests the backend must refuse (20 K above the critical point): whatever they answer (user value or
        # calculation error), the calls that follow must not be affected
        ("refused_enthalpy", lambda T: _refused(ads.enthalpy_vaporisation, temp=entry[3] + 20.0), None),
        ("refused_saturation_pressure", lambda T: _refused(ads.saturation_pressure, entry[3] + 20.0), None),
        ("refused_liquid_density", lambda T: _refused(ads.liquid_density, entry[3] + 20.0), None),
    ]

    def _refused(fn, *a, **k):
        try:
            return fn(*a, **k)
        except CalculationError:
            return None

    def _st(T):
        try:
            return ads.surface_tension(T)
        except CalculationError:
            return None

    seq = [(calls[j], T) for T in (T1, T1, T2) for j in desc.get("order", list(range(7))) if j < len(calls)]
    prev = None
    for (name, lib, ref), T in seq:
        got = lib(T)
        if ref is None:
            prev = f"{name}({T})"
            continue
        want = ref(T)
        if not close(got, want, 1e-8):
            raise Violation(f"{ads.name}: {name}({T}) = {got} != PropsSI {want} (previous call on the shared state: {prev})",
                            tag=f"call_order:{name}")
        prev = f"{name}({T})"
    M = ads.molar_mass()
    psats = []
    for T in (T1, T2):
        # interleave calls at the other temperature so a stale shared state would show
        ads.liquid_density(T2 if T == T1 else T1)
        rl, rlm = ads.liquid_density(T), ads.liquid_molar_density(T)
        rg, rgm = ads.gas_density(T), ads.gas_molar_density(T)
        if not close(rl, rlm * M, 1e-9):
            raise Violation(f"{ads.name} at {T} K: liquid_density {rl} != liquid_molar_density*M {rlm * M}", tag="rho_liq")
        if not close(rg, rgm * M, 1e-9):
            raise Violation(f"{ads.name} at {T} K: gas_density {rg} != gas_molar_density*M {rgm * M}", tag="rho_gas")
        if not close(rlm, ru.rho_liq_molar(fluid, T), 1e-9):
            raise Violation(f"{ads.name} at {T} K: liquid_molar_density {rlm} != PropsSI {ru.rho_liq_molar(fluid, T)}",
                            tag="rho_liq_ref")
        if not close(rgm, ru.rho_vap_molar(fluid, T), 1e-9):
            raise Violation(f"{ads.name} at {T} K: gas_molar_density {rgm} != PropsSI {ru.rho_vap_molar(fluid, T)}",
                            tag="rho_gas_ref")
        if not rl > rg > 0:
            raise Violation(f"{ads.name} at {T} K: liquid density {rl} not above gas density {rg}", tag="rho_order")
        ps = ads.saturation_pressure(T)
        if not close(ps, ru.p_sat(fluid, T), 1e-9):
            raise Violation(f"{ads.name}: saturation_pressure({T}) {ps} != PropsSI {ru.p_sat(fluid, T)}", tag="psat_ref")
        if not close(ads.pressure_saturation(T), ps, 1e-12):
            raise Violation(f"{ads.name}: pressure_saturation alias differs", tag="psat_alias")
        pt, pc = ads.p_triple(), ads.p_critical()
        if not (pt * (1 - 1e-6) <= ps <= pc * (1 + 1e-6)):
            raise Violation(f"{ads.name}: p_sat({T})={ps} outside [p_triple={pt}, p_crit={pc}]", tag="psat_bounds")
        psu = ads.saturation_pressure(T, unit=unit)
        want = ps / ru.PRESSURE_PA[unit]
        if not close(psu, want, ru.tol_for((None, unit))):
            raise Violation(f"{ads.name}: saturation_pressure({T}, unit={unit!r}) = {psu}, expected {want}", tag="psat_unit")
        h = ads.enthalpy_vaporisation(temp=T)
        from CoolProp.CoolProp import PropsSI
        href = (PropsSI("Hmolar", "T", T, "Q", 1, fluid) - PropsSI("Hmolar", "T", T, "Q", 0, fluid)) / 1000
        if not (h > 0):
            raise Violation(f"{ads.name}: enthalpy_vaporisation({T}) = {h} not positive", tag="hvap_sign")
        if not close(h, href, 1e-8):
            raise Violation(f"{ads.name}: enthalpy_vaporisation({T}) = {h} != PropsSI {href}", tag="hvap_ref")
        if not close(ads.enthalpy_liquefaction(temp=T), h, 1e-12):
            raise Violation(f"{ads.name}: enthalpy_liquefaction differs from enthalpy_vaporisation", tag="hvap_alias")
        psats.append(ps)
    if T2 - T1 > 1e-6 * T1 and not psats[1] > psats[0]:
        raise Violation(f"{ads.name}: p_sat not increasing: p({T1})={psats[0]}, p({T2})={psats[1]}", tag="psat_monotone")
    tt, tc = ads.t_triple(), ads.t_critical()
    if not (close(tt, ru.t_triple(fluid), 1e-12) and close(tc, ru.t_crit(fluid), 1e-12) and tt < tc):
        raise Violation(f"{ads.name}: t_triple/t_critical {tt}/{tc} vs PropsSI {ru.t_triple(fluid)}/{ru.t_crit(fluid)}",
                        tag="t_points")
    ctx.nt([ads.name, round(T1, 4), round(T2, 4), unit], desc)
    ctx.label("unit_" + unit)


# ---- fallback -----------------------------------------------------------------------------------------------------------
_METHODS = {
    # method -> (user property key, factor applied by the library, needs temperature)
    "molar_mass": ("molar_mass", 1.0, False),
    "p_triple": ("p_triple", 1e5, False),
    "t_triple": ("t_triple", 1.0, False),
    "p_critical": ("p_critical", 1e5, False),
    "t_critical": ("t_critical", 1.0, False),
    "saturation_pressure": ("saturation_pressure", 1.0, True),
    "pressure_saturation": ("saturation_pressure", 1.0, True),
    "surface_tension": ("surface_tension", 1.0, True),
    "liquid_density": ("liquid_density", 1.0, True),
    "liquid_molar_density": ("liquid_molar_density", 1.0, True),
    "gas_density": ("gas_density", 1.0, True),
    "gas_molar_density": ("gas_molar_density", 1.0, True),
    "enthalpy_vaporisation": ("enthalpy_liquefaction", 1.0, True),
    "enthalpy_liquefaction": ("enthalpy_liquefaction", 1.0, True),
}


def strat_fallback():
    tab = K.backend_table()
    return st.builds(
        lambda mode, i, method, has, val, unit, others: {
            "mode": mode, "adsorbate": tab[i][0], "method": method, "has_prop": has, "value": val, "unit": unit,
            "other_props": others},
        st.sampled_from(["no_backend", "bogus_backend", "supercritical"]),
        st.integers(0, len(tab) - 1), st.sampled_from(sorted(_METHODS)), st.booleans(),
        st.floats(1e-6, 1e6), st.one_of(st.none(), st.sampled_from(list(ru.PRESSURE_PA))),
        st.lists(st.sampled_from(sorted({v[0] for v in _METHODS.values()})), max_size=3, unique=True))


def check_fallback(desc, ctx):
    entry = next(e for e in K.backend_table() if e[0] == desc["adsorbate"])
    key, factor, needs_T = _METHODS[desc["method"]]
    if desc["mode"] == "supercritical" and not needs_T:
        return  # constants are available from the backend at any temperature
    props = {}
    for k in desc["other_props"]:
        if k != key:
            props[k] = 123.456
    if desc["has_prop"]:
        props[key] = desc["value"]
    if desc["mode"] == "bogus_backend":
        props["backend_name"] = "NOT_A_FLUID_XYZ"
    elif desc["mode"] == "supercritical":
        props["backend_name"] = entry[1]
    ads = Adsorbate("verif-fallback-ads", **props)
    T = entry[3] * 1.5 if desc["mode"] == "supercritical" else 300.0
    m = getattr(ads, desc["method"])
    kwargs = {}
    if desc["method"] in ("saturation_pressure", "pressure_saturation") and desc["unit"] is not None:
        kwargs["unit"] = desc["unit"]
    try:
        res = m(T, **kwargs) if needs_T else m()
    except CalculationError:
        if desc["has_prop"]:
            raise Violation(f"{desc['method']} with user property {key}={desc['value']} raised CalculationError "
                            f"({desc['mode']})", tag="fallback_ignored")
        ctx.label("refused")
        ctx.nt([desc["mode"], desc["method"], False, desc["unit"]], desc)
        return
    except Exception as e:  # noqa
        raise Violation(f"{desc['method']} ({desc['mode']}, has_prop={desc['has_prop']}) raised {type(e).__name__}: {e} "
                        "instead of CalculationError", tag=f"fallback_exc:{type(e).__name__}")
    if not desc["has_prop"]:
        raise Violation(f"{desc['method']} ({desc['mode']}) returned {res!r} although neither the backend nor a user "
                        "property can provide it", tag="fallback_number_from_nowhere")
    want = desc["value"] * factor
    if "unit" in kwargs:
        want = want / ru.PRESSURE_PA[kwargs["unit"]]
        tol = ru.tol_for((None, kwargs["unit"]))
    else:
        tol = 1e-12
    if not close(res, want, tol):
        raise Violation(f"{desc['method']} ({desc['mode']}) returned {res!r}, expected the user value {want!r}",
                        tag="fallback_value")
    ctx.label("user_value")
    ctx.nt([desc["mode"], desc["method"], True, desc["unit"]], desc)


CHECKS = [
    Check("registry_entries", check_registry_entry, mode="enum", cases=cases_registry, exhaustive=True,
          rule="all 176 JSON entries x all names/aliases x 5 case variants; JSON vs default.db entry by entry"),
    Check("registry_counts", check_registry_counts, mode="enum", cases=lambda tier, seed: [{}], exhaustive=True,
          max_shards=1, rule="name sets of JSON list and database agree"),
    Check("random_casing", check_random_casing, strategy=strat_casing, budget={"quick": 4000, "thorough": 80000},
          rule="hypothesis-drawn per-character casing of every designation"),
    Check("thermo", check_thermo, strategy=strat_thermo, budget={"quick": 4000, "thorough": 80000},
          rule="EOS consistency relations at two temperatures and a pressure unit"),
    Check("fallback", check_fallback, strategy=strat_fallback, budget={"quick": 3000, "thorough": 40000},
          rule="backend unavailable/failing x user property present/absent"),
]
