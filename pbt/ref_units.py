"""Independent reference model for unit / mode / basis conversions (DESIGN 4.1).

Canonical-form model: every quantity is first brought to a canonical SI-like form (Pa; mol of adsorbate; g of
material) and from there to the target, which is structurally different from the pairwise branch table of
pygaps.units.converter_mode.  Thermophysical constants come from CoolProp's high-level PropsSI interface, a
different call path from the AbstractState object the library drives.  Tables are typed from SI definitions.
"""
import functools
import math

from CoolProp.CoolProp import PropsSI

# ---- tables typed independently from SI definitions -------------------------------------------------------------
PRESSURE_PA = {
    "Pa": 1.0, "kPa": 1e3, "MPa": 1e6, "mbar": 1e2, "bar": 1e5, "atm": 101325.0,
    "mmHg": 133.322387415,  # conventional mmHg
    "torr": 101325.0 / 760.0,
}
V_STP_CM3_PER_MOL = 22413.969  # molar volume of an ideal gas at 273.15 K, 101325 Pa
MOLAR_MOL = {
    "mmol": 1e-3, "mol": 1.0, "kmol": 1e3,
    "cm3(STP)": 1.0 / V_STP_CM3_PER_MOL, "mL(STP)": 1.0 / V_STP_CM3_PER_MOL, "cc(STP)": 1.0 / V_STP_CM3_PER_MOL,
    "L(STP)": 1e3 / V_STP_CM3_PER_MOL,
}
MASS_G = {"amu": 1.66053906660e-24, "mg": 1e-3, "cg": 1e-2, "dg": 1e-1, "g": 1.0, "kg": 1e3}
VOLUME_CM3 = {"cm3": 1.0, "mL": 1.0, "cc": 1.0, "dm3": 1e3, "L": 1e3, "m3": 1e6}

PRESSURE_MODES = ("absolute", "relative", "relative%")
LOADING_BASES = {"molar": MOLAR_MOL, "mass": MASS_G, "volume_gas": VOLUME_CM3, "volume_liquid": VOLUME_CM3,
                 "fraction": None, "percent": None}
MATERIAL_BASES = {"mass": MASS_G, "volume": VOLUME_CM3, "molar": MOLAR_MOL}
TEMPERATURE_UNITS = ("K", "°C")

# Units whose library table value is a rounded figure (documented precision ~1e-4): comparisons that involve them
# use ROUNDED_TOL instead of the ulp-level tolerance.
ROUNDED_UNITS = {"cm3(STP)", "mL(STP)", "cc(STP)", "L(STP)", "mmHg", "torr", "amu"}
ROUNDED_TOL = 2e-4

P_REPS = [("absolute", u) for u in PRESSURE_PA] + [("relative", None), ("relative%", None)]
L_REPS = ([("molar", u) for u in MOLAR_MOL] + [("mass", u) for u in MASS_G] +
          [("volume_gas", u) for u in VOLUME_CM3] + [("volume_liquid", u) for u in VOLUME_CM3] +
          [("fraction", None), ("percent", None)])
M_REPS = ([("mass", u) for u in MASS_G] + [("volume", u) for u in VOLUME_CM3] + [("molar", u) for u in MOLAR_MOL])
assert len(P_REPS) == 10 and len(L_REPS) == 27 and len(M_REPS) == 19


class RefRefusal(Exception):
    """The reference cannot convert (e.g. no thermodynamic data): the library is expected to refuse too."""


# ---- thermophysical data through the high-level interface ------------------------------------------------------
import collections

#: an adsorbate without thermodynamic backend, described by the constants its user supplied (the documented fallback of
#: the library): saturation pressure [Pa], molar mass [g/mol], liquid / vapour molar density [mol/cm3]
UserFluid = collections.namedtuple("UserFluid", "p_sat molar_mass rho_liq_molar rho_vap_molar")


def user_fluid_properties(uf):
    """The property dictionary of the library's Adsorbate for a UserFluid (mass densities consistent with the molar ones)."""
    return {"saturation_pressure": uf.p_sat, "molar_mass": uf.molar_mass,
            "liquid_molar_density": uf.rho_liq_molar, "gas_molar_density": uf.rho_vap_molar,
            "liquid_density": uf.rho_liq_molar * uf.molar_mass, "gas_density": uf.rho_vap_molar * uf.molar_mass}


@functools.lru_cache(maxsize=100000)
def p_sat(fluid, T):
    if isinstance(fluid, UserFluid):
        return fluid.p_sat
    return PropsSI("P", "T", float(T), "Q", 0, fluid)


@functools.lru_cache(maxsize=100000)
def molar_mass(fluid):
    if isinstance(fluid, UserFluid):
        return fluid.molar_mass
    return PropsSI("M", fluid) * 1000.0  # g/mol


@functools.lru_cache(maxsize=100000)
def rho_liq_molar(fluid, T):
    if isinstance(fluid, UserFluid):
        return fluid.rho_liq_molar
    return PropsSI("Dmolar", "T", float(T), "Q", 0, fluid) / 1e6  # mol/cm3


@functools.lru_cache(maxsize=100000)
def rho_vap_molar(fluid, T):
    if isinstance(fluid, UserFluid):
        return fluid.rho_vap_molar
    return PropsSI("Dmolar", "T", float(T), "Q", 1, fluid) / 1e6  # mol/cm3


@functools.lru_cache(maxsize=100000)
def t_triple(fluid):
    return PropsSI("Ttriple", fluid)


@functools.lru_cache(maxsize=100000)
def t_crit(fluid):
    return PropsSI("Tcrit", fluid)


@functools.lru_cache(maxsize=100000)
def t_min(fluid):
    return PropsSI("Tmin", fluid)


# ---- conversions -------------------------------------------------------------------------------------------------
def pressure_to_pa(x, rep, fluid=None, T=None):
    mode, unit = rep
    if mode == "absolute":
        return x * PRESSURE_PA[unit]
    if fluid is None or T is None:
        raise RefRefusal("relative pressure needs adsorbate and temperature")
    ps = p_sat(fluid, T)
    if mode == "relative":
        return x * ps
    if mode == "relative%":
        return x * ps / 100.0
    raise KeyError(mode)


def pressure_from_pa(x, rep, fluid=None, T=None):
    mode, unit = rep
    if mode == "absolute":
        return x / PRESSURE_PA[unit]
    if fluid is None or T is None:
        raise RefRefusal("relative pressure needs adsorbate and temperature")
    ps = p_sat(fluid, T)
    if mode == "relative":
        return x / ps
    if mode == "relative%":
        return x / ps * 100.0
    raise KeyError(mode)


def conv_pressure(x, rep_from, rep_to, fluid=None, T=None):
    if rep_from == rep_to:
        return x
    if rep_from[0] != "absolute" and rep_to[0] != "absolute":
        # relative <-> relative%: no thermodynamics involved
        if rep_from[0] == rep_to[0]:
            return x
        return x * 100.0 if rep_to[0] == "relative%" else x / 100.0
    return pressure_from_pa(pressure_to_pa(x, rep_from, fluid, T), rep_to, fluid, T)


def _amount_to_mol(x, basis, unit, fluid, T):
    """Amount of adsorbate expressed in (basis, unit) -> mol."""
    if basis == "molar":
        return x * MOLAR_MOL[unit]
    if basis == "mass":
        return x * MASS_G[unit] / molar_mass(fluid)
    if basis == "volume_gas":
        return x * VOLUME_CM3[unit] * rho_vap_molar(fluid, T)
    if basis == "volume_liquid":
        return x * VOLUME_CM3[unit] * rho_liq_molar(fluid, T)
    raise KeyError(basis)


def _mol_to_amount(x, basis, unit, fluid, T):
    if basis == "molar":
        return x / MOLAR_MOL[unit]
    if basis == "mass":
        return x * molar_mass(fluid) / MASS_G[unit]
    if basis == "volume_gas":
        return x / rho_vap_molar(fluid, T) / VOLUME_CM3[unit]
    if basis == "volume_liquid":
        return x / rho_liq_molar(fluid, T) / VOLUME_CM3[unit]
    raise KeyError(basis)


def _frac_kind(mrep):
    """fraction/percent express the loading in the same kind and unit as the material quantity."""
    mb, mu = mrep
    return {"mass": "mass", "volume": "volume_liquid", "molar": "molar"}[mb], mu


def needs_thermo(lrep_from, lrep_to, mrep=None):
    """Does this loading conversion need adsorbate thermodynamics?"""
    def kind(rep):
        if rep[0] in ("fraction", "percent"):
            return _frac_kind(mrep)[0]
        return rep[0]
    return kind(lrep_from) != kind(lrep_to)


def conv_loading(x, rep_from, rep_to, fluid=None, T=None, mrep=None):
    """Convert the numerator (adsorbate amount) of a loading; the material representation `mrep` stays fixed and
    is only consulted for fraction / percent."""
    if rep_from == rep_to:
        return x
    fb, fu = rep_from
    tb, tu = rep_to
    f_frac = fb in ("fraction", "percent")
    t_frac = tb in ("fraction", "percent")
    if f_frac and t_frac:
        return x * 100.0 if tb == "percent" else x / 100.0
    scale = 1.0
    if f_frac:
        if fb == "percent":
            scale *= 0.01
        fb, fu = _frac_kind(mrep)
    if t_frac:
        if tb == "percent":
            scale *= 100.0
        tb, tu = _frac_kind(mrep)
    if fb == tb:
        table = LOADING_BASES[fb]
        return x * scale * table[fu] / table[tu]
    if fluid is None or (T is None and "volume" in fb + tb):
        raise RefRefusal("basis change needs adsorbate thermodynamics")
    return _mol_to_amount(_amount_to_mol(x * scale, fb, fu, fluid, T), tb, tu, fluid, T)


def _material_to_g(q, basis, unit, density, mm):
    """Quantity of material q expressed in (basis, unit) -> grams."""
    if basis == "mass":
        return q * MASS_G[unit]
    if basis == "volume":
        if density is None:
            raise RefRefusal("density needed")
        return q * VOLUME_CM3[unit] * density
    if basis == "molar":
        if mm is None:
            raise RefRefusal("molar mass needed")
        return q * MOLAR_MOL[unit] * mm
    raise KeyError(basis)


def conv_material(x, rep_from, rep_to, density=None, mm=None):
    """Convert a per-material quantity x [something per (1 unit of rep_from)] to [something per (1 unit of rep_to)].
    """
    if rep_from == rep_to:
        return x
    if rep_from[0] == rep_to[0]:
        table = MATERIAL_BASES[rep_from[0]]
        return x * table[rep_to[1]] / table[rep_from[1]]
    g_from = _material_to_g(1.0, rep_from[0], rep_from[1], density, mm)
    g_to = _material_to_g(1.0, rep_to[0], rep_to[1], density, mm)
    return x * g_to / g_from


def conv_temperature(x, unit_from, unit_to):
    if unit_from == unit_to:
        return x
    if unit_from == "K" and unit_to == "°C":
        return x - 273.15
    if unit_from == "°C" and unit_to == "K":
        return x + 273.15
    raise KeyError((unit_from, unit_to))


def conv_full_loading(x, lrep_from, mrep_from, lrep_to, mrep_to, fluid=None, T=None, density=None, mm=None):
    """Convert a loading value x expressed as [lrep_from per mrep_from] into [lrep_to per mrep_to].

    Physical meaning: for dimensional loading bases, x = amount(lrep)/quantity(mrep); for fraction / percent,
    x = amount (in the kind and unit of the material quantity) / quantity(mrep)  [x100 for percent].
    Canonical form: mol of adsorbate per g of material.
    """
    if (lrep_from, mrep_from) == (lrep_to, mrep_to):
        return x
    # to canonical: mol per g
    fb, fu = lrep_from
    scale = 1.0
    if fb in ("fraction", "percent"):
        if fb == "percent":
            scale = 0.01
        fb, fu = _frac_kind(mrep_from)
    need_thermo = True
    tb, tu = lrep_to
    tscale = 1.0
    if tb in ("fraction", "percent"):
        if tb == "percent":
            tscale = 100.0
        tb, tu = _frac_kind(mrep_to)
    if fb == tb:
        num = x * scale * LOADING_BASES[fb][fu] / LOADING_BASES[tb][tu]
    else:
        if fluid is None:
            raise RefRefusal("needs adsorbate")
        num = _mol_to_amount(_amount_to_mol(x * scale, fb, fu, fluid, T), tb, tu, fluid, T)
    # denominator
    if mrep_from == mrep_to:
        den = 1.0
    elif mrep_from[0] == mrep_to[0]:
        table = MATERIAL_BASES[mrep_from[0]]
        den = table[mrep_from[1]] / table[mrep_to[1]]
    else:
        den = _material_to_g(1.0, *mrep_from, density, mm) / _material_to_g(1.0, *mrep_to, density, mm)
    return num * tscale / den


# relative inaccuracy of the library's rounded table constants (documented precision of the tables)
UNIT_INACCURACY = {
    "cm3(STP)": 1.2e-4, "mL(STP)": 1.2e-4, "cc(STP)": 1.2e-4, "L(STP)": 1.2e-4,  # 4.461e-5 vs 1/22413.969
    "mmHg": 1e-5, "torr": 1e-5,  # 133.322 vs 133.3224 / 133.3237
    "amu": 2e-6,  # 1.66054e-24 vs 1.66053907e-24
}


def tol_for(*reps, base=1e-9):
    """Relative tolerance for comparing a library factor with the reference one: ulp-level `base` plus the documented
    inaccuracy of every rounded table constant that takes part in the conversion."""
    tol = base
    for r in reps:
        if r is None:
            continue
        tol += UNIT_INACCURACY.get(r[1], 0.0)
    return tol


def loading_tol(sl, sm, tl, tm, base=1e-9):
    """Tolerance for a loading conversion [sl per sm] -> [tl per tm]: rounded constants count only where a
    representation actually changes; fraction/percent borrow the unit of the material representation."""
    if (sl, sm) == (tl, tm):
        return base
    tol = base
    if sl != tl:
        tol += UNIT_INACCURACY.get(sl[1], 0.0) + UNIT_INACCURACY.get(tl[1], 0.0)
    if sm != tm:
        tol += UNIT_INACCURACY.get(sm[1], 0.0) + UNIT_INACCURACY.get(tm[1], 0.0)
    f_s, f_t = sl[0] in ("fraction", "percent"), tl[0] in ("fraction", "percent")
    if f_s != f_t or (f_s and f_t and sm != tm):
        if f_s:
            tol += UNIT_INACCURACY.get(sm[1], 0.0)
        if f_t:
            tol += UNIT_INACCURACY.get(tm[1], 0.0)
    return tol


def pressure_tol(sp, tp, base=1e-9):
    if sp == tp:
        return base
    return base + UNIT_INACCURACY.get(sp[1], 0.0) + UNIT_INACCURACY.get(tp[1], 0.0)


def check_names_against_library():
    """Start-up consistency check of the *names* (not values) against the library tables."""
    from pygaps.units import converter_mode as cm
    from pygaps.units import converter_unit as cu
    problems = []
    if set(cu._PRESSURE_UNITS) != set(PRESSURE_PA):
        problems.append("pressure unit names differ")
    if set(cu._MOLAR_UNITS) != set(MOLAR_MOL):
        problems.append("molar unit names differ")
    if set(cu._MASS_UNITS) != set(MASS_G):
        problems.append("mass unit names differ")
    if set(cu._VOLUME_UNITS) != set(VOLUME_CM3):
        problems.append("volume unit names differ")
    if set(cm._PRESSURE_MODE) != set(PRESSURE_MODES):
        problems.append("pressure modes differ")
    if set(cm._LOADING_MODE) != set(LOADING_BASES):
        problems.append("loading bases differ")
    if set(cm._MATERIAL_MODE) != set(MATERIAL_BASES):
        problems.append("material bases differ")
    return problems
