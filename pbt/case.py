"""Descriptors <-> pygaps objects, registry hygiene, cloning."""
import copy

import numpy as np
import pandas as pd

import pygaps
from pygaps.core.adsorbate import Adsorbate
from pygaps.core.material import Material
from pygaps.data import ADSORBATE_LIST, MATERIAL_LIST

from pbt import ref_units as ru

# ---- registry snapshot (taken right after import) -----------------------------------------------------------------
_ADS_SNAPSHOT = list(ADSORBATE_LIST)
_ADS_PROPS = {id(a): (a.name, list(a.alias), copy.deepcopy(a.properties)) for a in _ADS_SNAPSHOT}
_MAT_SNAPSHOT = list(MATERIAL_LIST)
_MAT_PROPS = {id(m): (m.name, copy.deepcopy(m.properties)) for m in _MAT_SNAPSHOT}


def reset_registries():
    """Restore the two process-global registries to their state right after import."""
    ADSORBATE_LIST[:] = _ADS_SNAPSHOT
    for a in _ADS_SNAPSHOT:
        name, alias, props = _ADS_PROPS[id(a)]
        a.name = name
        a.alias = list(alias)
        if a.properties != props:
            a.properties = copy.deepcopy(props)
    MATERIAL_LIST[:] = _MAT_SNAPSHOT
    for m in _MAT_SNAPSHOT:
        name, props = _MAT_PROPS[id(m)]
        m.name = name
        if m.properties != props:
            m.properties = copy.deepcopy(props)


# ---- adsorbates with a backend -------------------------------------------------------------------------------------
def backend_adsorbates():
    """[(name, backend_name, Tt, Tc)] for all registry adsorbates with a usable thermodynamic backend."""
    out = []
    for a in _ADS_SNAPSHOT:
        bn = a.properties.get("backend_name")
        if not bn:
            continue
        try:
            tt = ru.t_triple(bn)
            tc = ru.t_crit(bn)
            tmin = ru.t_min(bn)
            lo = max(tt, tmin)
            # make sure saturation calls work in the middle
            ru.p_sat(bn, lo + 0.5 * (tc - lo))
        except Exception:
            continue
        out.append((a.name, bn, lo, tc))
    return out


_BACKEND = None


def backend_table():
    global _BACKEND
    if _BACKEND is None:
        _BACKEND = backend_adsorbates()
    return _BACKEND


def temperature_for(entry, u):
    """u in [0,1] -> temperature strictly inside (Tt, Tc) with 2 % margins."""
    _, _, lo, tc = entry
    return lo + (0.02 + 0.96 * u) * (tc - lo)


class FakeMaterial:
    """Stand-in with the two attributes c_material consults."""

    def __init__(self, density, molar_mass):
        self.density = density
        self.molar_mass = molar_mass


def get_adsorbate(name):
    return next(a for a in _ADS_SNAPSHOT if a.name == name)


# ---- isotherm building ------------------------------------------------------------------------------------------------
UNIT_KEYS = ("pressure_mode", "pressure_unit", "loading_basis", "loading_unit", "material_basis", "material_unit",
             "temperature_unit")


def units_dict(prep, lrep, mrep, tunit="K"):
    return {
        "pressure_mode": prep[0], "pressure_unit": prep[1],
        "loading_basis": lrep[0], "loading_unit": lrep[1],
        "material_basis": mrep[0], "material_unit": mrep[1],
        "temperature_unit": tunit,
    }


def reps_of(units):
    return ((units["pressure_mode"], units["pressure_unit"] if units["pressure_mode"] == "absolute" else None),
            (units["loading_basis"], units["loading_unit"] if units["loading_basis"] not in ("fraction", "percent") else None),
            (units["material_basis"], units["material_unit"]))


def build_material(mdesc):
    """mdesc: {"name":..., "density":..., "molar_mass":..., ...} -> fresh Material (not stored)."""
    props = {k: v for k, v in mdesc.items() if k != "name"}
    return Material(mdesc["name"], **props)


def row_labels(spec, n):
    """Row labels a table keeps after sorting / filtering / concatenating without reset_index; spec = [kind, k] or None."""
    if not spec:
        return None
    kind, k = spec
    if kind == "shift":
        return [i + 1 + k % 9 for i in range(n)]
    if kind == "perm":
        return np.random.default_rng(k).permutation(n).tolist()
    if kind == "gaps":
        return [2 * i + (k % 3) + (i // 2) for i in range(n)]
    return [f"r{(7 * i + k) % 101}_{i}" for i in range(n)]


def build_point(desc, material_as="object"):
    """desc: {"units":{...}, "adsorbate": name, "T": temperature in its unit, "material": {...},
              "pressure": [...], "loading": [...], "branch": None|'guess'|'ads'|'des'|[0/1...],
              "extra": {col: [...]}, "meta": {...}}"""
    units = dict(desc["units"])
    mdesc = desc["material"]
    if desc.get("user_fluid"):
        # an adsorbate without backend that carries user-supplied constants (registered under its name; the next
        # reset_registries() removes it)
        from pbt import ref_units as _ru
        props = _ru.user_fluid_properties(_ru.UserFluid(*desc["user_fluid"]))
        for a in list(ADSORBATE_LIST):
            if a.name == desc["adsorbate"]:
                ADSORBATE_LIST.remove(a)
        Adsorbate(desc["adsorbate"], store=True, **props)
    if material_as == "object":
        material = build_material(mdesc)
    elif material_as == "dict":
        material = dict(mdesc)
    else:
        material = mdesc["name"]
    kwargs = dict(material=material, adsorbate=desc["adsorbate"], temperature=desc["T"], **units)
    kwargs.update(copy.deepcopy(desc.get("meta") or {}))
    extra = desc.get("extra") or {}
    branch = desc.get("branch", "guess")
    if extra or desc.get("as_frame") or desc.get("labels"):
        data = {"pressure": list(desc["pressure"]), "loading": list(desc["loading"])}
        for k, v in extra.items():
            data[k] = list(v)
        if isinstance(branch, list):
            data["branch"] = list(branch)
        df = pd.DataFrame(data, index=row_labels(desc.get("labels"), len(data["pressure"])))
        if isinstance(branch, list):
            return pygaps.PointIsotherm(isotherm_data=df, pressure_key="pressure", loading_key="loading", **kwargs)
        return pygaps.PointIsotherm(isotherm_data=df, pressure_key="pressure", loading_key="loading",
                                    branch=branch or "guess", **kwargs)
    if isinstance(branch, list):
        branch = [bool(b) for b in branch]
    return pygaps.PointIsotherm(pressure=list(desc["pressure"]), loading=list(desc["loading"]),
                                branch=branch if branch is not None else "guess", **kwargs)


def clone_point(iso):
    """A copy of a point isotherm: constructor from to_dict() + a copy of the frame (deepcopy fails once the
    adsorbate's CoolProp state exists)."""
    d = iso.to_dict()
    mat = iso.material
    d["material"] = Material(mat.name, **copy.deepcopy(mat.properties))
    d["adsorbate"] = str(iso.adsorbate)
    return pygaps.PointIsotherm(
        isotherm_data=iso.data_raw.copy(deep=True), pressure_key=iso.pressure_key, loading_key=iso.loading_key, **d)


def frame_fingerprint(df):
    """Exact, label-aware fingerprint of a DataFrame."""
    return (
        tuple(df.columns), tuple(str(t) for t in df.dtypes), tuple(df.index.tolist()),
        tuple(tuple(None if (isinstance(x, float) and x != x) else x for x in df[c].tolist()) for c in df.columns),
    )
