ALL_IDS = [f"C{i:02d}" for i in range(1, 21)]
NOT_APPLICABLE = {}
CLAIMED = {
    "C01": {
        "text": "All ordered pairs and triples of the 10/27/19 representations are enumerated inside every hypothesis-drawn "
                "(adsorbate, temperature, material, value) case and compared with identity / inverse / path-independence laws "
                "and an independent canonical-form SI+CoolProp reference; refusals are generated one corrupted argument at a "
                "time. Exploration: the finite representation space is exhaustive per case, the continuum (values, "
                "temperatures, adsorbates) is sampled.",
        "note": "Trusts CoolProp PropsSI as thermophysical truth and the SI constants typed in pbt/ref_units.py; library "
                "constants rounded to 4-6 digits are accepted within 2e-4; unit_to=None on a same-basis call means keep.",
        "technique": "property-based testing: exhaustive pair/triple enumeration x hypothesis-generated operands, algebraic laws + reference model oracle",
    },
    "C20": {
        "text": "Registry part exhaustive (176 JSON entries x every name/alias x 5 case variants, unique ownership, JSON vs "
                "default.db, isotherm linkage) plus hypothesis-drawn casings; thermodynamic relations and the unit argument "
                "checked on generated (adsorbate, T1<T2, unit) against CoolProp PropsSI; fallback typing on generated user "
                "adsorbates. Exploration for the continuum, exhaustive for the registry.",
        "note": "Trusts CoolProp HEOS; temperatures in the inner 96 % of (Tt,Tc); only calculate=True paths.",
        "technique": "property-based testing: exhaustive registry enumeration + hypothesis-generated thermodynamic/fallback cases against a PropsSI reference",
    },
    "C02": {
        "text": "Model-based histories: hypothesis draws a point isotherm in any unit configuration (incl. physically "
                "handicapped ones) and 3-12 convert_* / convert / read operations with omitted, valid, wrong-table and unknown "
                "arguments; after every step the labels must be valid, the data equal the reference conversion of the original "
                "data, refusals leave the state untouched (combined convert == sequential single steps), frame and metadata "
                "are invariant, reads at knots return stored data, and a fully specified trip home restores the numbers. "
                "A second check runs all 58 fully specified single-quantity edges from generated configurations.",
        "note": "Reference = pbt/ref_units.py (SI + CoolProp PropsSI); tolerance 1e-8/step plus the documented inaccuracy of "
                "rounded table constants; whether an under-specified call is accepted or refused is left open.",
        "technique": "property-based testing: model-based operation histories (hypothesis) against a reference conversion model + invariants after every step",
    },
    "C03": {
        "text": "Hypothesis-drawn point isotherms in any stored configuration x fully specified requested representations: "
                "pressure()/loading()/loading_at()/pressure_at() must equal the reference conversion of the native numbers and "
                "a permanently converted clone read natively; foreign-unit inputs are compared conditioning-aware; branch/limit "
                "selection equals a plain python filter; the branch guess is checked for label/dtype independence and the "
                "position rule; interpolation against numpy.interp, refusal outside the range and fill rules; ModelIsotherm "
                "accessors against the bare model on reference-converted values.",
        "note": "Open finding KF-C03-1 (fraction/percent combined with a foreign material representation in accessor paths) is "
                "excluded by a narrow predicate and counted; limits strictly between data values; requests are full "
                "(mode/basis, unit) pairs per quantity.",
        "technique": "property-based testing: differential against a permanently converted clone + reference conversion model, python-filter and numpy.interp oracles, metamorphic relabelling",
    },
    "C16": {
        "text": "Hypothesis-generated increasing relative-pressure grids with non-decreasing volumes x 3 methods x pore / meniscus "
                "geometries x built-in, zero and callable thickness models x generated adsorbate property sets and limits, through "
                "the raw functions and psd_mesoporous: widths == 2(r_K+t) with an independently typed Kelvin equation, monotone, "
                "zero-thickness volume conservation, distribution x width increments == volumes, cumulative end value and "
                "running sum, single-step single peak.",
        "note": "Open finding KF-C16-1 (hemicylindrical Kelvin radius exactly 4x the Kelvin equation; pinned by an existing test "
                "table) excluded by a narrow predicate (ratio 4 within 1e-8) and counted; volumes with non-zero thickness are only "
                "constrained through the distribution, cumulative and step clauses (as the property states).",
        "technique": "property-based testing: generated isotherm branches against an independent Kelvin reference and volume-conservation identities",
    },
    "C19": {
        "text": "Hypothesis-generated van 't Hoff families (Langmuir/Toth/DS-Langmuir, dH 5-60 kJ/mol, 2-5 temperatures in any "
                "order, many common unit configurations) as model isotherms (exact recovery) and dense point isotherms "
                "(independent interpolation + interpolation error bound); Whittaker closed form lambda + dH_vap + RT and the "
                "omitted-loading set against CoolProp PropsSI for all 81 backend adsorbates; initial_enthalpy_point == first "
                "enthalpy of the branch.",
        "note": "Open finding KF-C19-2 (temperature-dependent loading representations compare different amounts) excluded by a "
                "narrow predicate; CoolProp HEOS trusted; continuous parameters derived from a hypothesis-drawn integer seed.",
        "technique": "property-based testing: synthetic-data parameter recovery with closed-form / PropsSI reference oracles",
    },
    "C05": {
        "text": "Pairs of isotherms generated by hypothesis: same content through 16 construction routes (arrays, frames with "
                "any row labelling, integer literals, bool/float branch marks, material as dict, from_isotherm, clone, "
                "sub-threshold perturbation, negative zero, keyword order, after read-only calls) must share id / == / "
                "membership; 18 kinds of minimal content change must change the id; model and metadata-only isotherms; batches "
                "rebuilt in a fresh interpreter with another PYTHONHASHSEED.",
        "note": "Data values on a 1e-6 grid so that the 8-decimal rounding is unambiguous; point order is not varied.",
        "technique": "property-based testing: metamorphic pairs (equal-content routes / minimal edits) + cross-process differential",
    },
    "C10": {
        "text": "16 models x hypothesis-generated parameter vectors inside the declared bounds x scalar / 0-d / 1-d inputs: "
                "conditioning-aware inverse law for the 10 closed-form pairs, residual test in the explicit function's space "
                "for the 6 numerical inverses (only where the library reports success), zero point, non-negativity, "
                "monotonicity, saturation bound, Henry limit, and ModelIsotherm accessors against the bare model on "
                "reference-converted values.",
        "note": "kappa estimated from central differences of the library's own loading; p-space test skipped when kappa > 1e6; "
                "CalculationError of a numerical inverse counts as inconclusive; parameter windows are finite sub-windows of "
                "the declared bounds.",
        "technique": "property-based testing: inverse / monotonicity / bound laws over generated parameters with conditioning-aware tolerances",
    },
    "C11": {
        "text": "13 models x generated parameters and pressures: spreading_pressure(p) against an independent adaptive "
                "Gauss-Legendre quadrature in ln p of the model's own loading (closed forms for DR/DA), zero limit, "
                "additivity, p dPi/dp = n; point isotherms against the closed-form integral of the independently built "
                "interpolant (Henry segment + numpy.interp), laws, and unit arguments against the reference conversion.",
        "note": "Open finding KF-C11-1 (TemkinApprox antiderivative constant n_m*theta/2, pinned by the stored test table) "
                "excluded by a predicate that requires exactly that offset; models the library integrates with scipy quad "
                "are compared at rel 1e-3 (the repository's own table tolerance).",
        "technique": "property-based testing: differential against independent quadrature + integral identities",
    },
    "C13": {
        "text": "Hypothesis-generated 2-4 component mixtures of model and point isotherms, partial pressures, permutations and "
                "guesses: whenever iast_point / reverse_iast returns, fractions in [0,1] summing to one, equal spreading "
                "pressures at p_i/x_i, ideal mixing rule, agreement with an independent one-dimensional bracketing IAST "
                "solver, Henry and equal-capacity Langmuir closed forms, permutation invariance, forward/reverse inversion, "
                "wrappers bit-equal to the point calculation.",
        "note": "Spreading pressure taken from the isotherms' own spreading_pressure_at (C11's subject); library refusals "
                "(any exception) make no claim and are counted as inconclusive.",
        "technique": "property-based testing: residual recomputation + reference solver + closed forms + permutation metamorphism",
    },
    "C14": {
        "text": "Synthetic isotherms generated exactly from the BET / Langmuir / t-plot / alpha-s / DR / DA governing equations "
                "(raw-array and isotherm entry points, many unit configurations and adsorbates): recovered parameters within "
                "1e-6, fitted window == python filter of the points inside the limits (also under noise: reported line == "
                "independent least squares on exactly those points), refusal below three points, Rouquerol window recomputed "
                "independently.",
        "note": "Open finding KF-C14-3 (alpha_s evaluates a reference stored in absolute pressure at mislabelled pressures; "
                "repair needs an edited test) excluded by a narrow predicate; limits never coincide with a data point.",
        "technique": "property-based testing: generator-recovery (round trip through the governing equation) + independent window/least-squares oracle",
    },
    "C17": {
        "text": "Generated widths, temperatures, adsorbent / adsorbate parameter sets x 4 models x 3 geometries: pressures from "
                "independently typed published equations (HK slit, Saito-Foley cylinder, Cheng-Yang sphere, Rege-Yang) must "
                "come back as the chosen widths; every solver result recorded through a run-time wrapper of _solve_hk / "
                "_solve_hk_cy must solve the library's own potential; temperature metamorphic law; monotone widths; "
                "cumulative-volume and distribution identities; psd_microporous interface.",
        "note": "Open findings KF-C17-2/3/4 (Rege-Yang local minimiser returns non-solutions / non-monotone widths; HK "
                "cylinder/sphere repulsive branch) excluded by narrow predicates; solver tolerance 5e-5 nm.",
        "technique": "property-based testing: published-equation round trip + residual check through a wrapped solver + metamorphic temperature law",
    },
    "C18": {
        "text": "Generated non-negative sparse/dense kernel combinations on generated pressure grids, spline orders 0-3, shipped "
                "and harness-written user kernels: non-negativity, kernel-weighted sum == reported fit, reconstruction of "
                "exact combinations, cumulative == running integral, limits isolation (== fit of the reduced isotherm, "
                "outside points irrelevant), refusal of out-of-range pressures with CalculationError.",
        "note": "Reconstruction bound 1 % relative with an absolute floor; reference kernel interpolation = independent CSV "
                "reader + scipy CubicSpline.",
        "technique": "property-based testing: synthetic exact combinations + algebraic identities + metamorphic limits isolation",
    },
    "C04": {
        "text": "Model-based histories over a world of three objects (two point isotherms sharing an Adsorbate, model "
                "isotherms) in generated unit configurations: 2-10 read-only operations from a ~30-entry catalogue (accessors, "
                "interpolation with every branch / kind / fill / range position, exports, every characterisation entry point, "
                "model fitting, IAST, adsorbate properties at other temperatures); every operation is first issued on an "
                "identical freshly built world (new registry objects, empty module caches) and must give the same outcome "
                "class and value, and the fingerprint of every object must be unchanged. Focused sub-generators for "
                "interpolator cache keys and for module-level caches / thermodynamic state.",
        "note": "Outcome comparison rel 1e-10; the history world keeps its own module-level caches and registry objects while "
                "the fresh world runs.",
        "technique": "property-based testing: operation histories with a fresh-object differential oracle and before/after fingerprints",
    },
    "C06": {
        "text": "Hypothesis-generated metadata-only, point and model isotherms (rich recursive JSON metadata, all unit "
                "configurations, 1-60 rows, guessed / all-ads / all-des / user branch marks in several encodings, extra numeric "
                "and text columns, any row labelling incl. duplicates, all 16 models from instances and 11 by fitting): "
                "from_json(to_json(x)) must equal x in id, ==, typed to_dict, labels, material, every column and dtype, model "
                "name / parameters / ranges / rmse and pointwise predictions; re-export reproduces the document; string and "
                "file targets agree.",
        "note": "Floats finite (NaN only as rmse / ranges of unfitted models, compared NaN == NaN); integer width of the branch "
                "column not compared; custom column keys are passed to the importer (the format does not record them).",
        "technique": "property-based testing: round-trip oracle with typed field-by-field comparison and document fixed point",
    },
    "C08": {
        "text": "Model-based histories of 2-25 operations (adsorbate / material / property type / isotherm to_db with and without "
                "overwrite and auto-insert, *_delete_db, *_from_db with and without criteria) over 1-3 database files copied "
                "from a template created from the current tree: after every step the outcome class equals a per-file "
                "dictionary model that never looks at the in-memory registries, refused calls change nothing, other files are "
                "untouched, an independent sqlite3 connection finds the predicted rows, no orphans and clean pragma checks, "
                "and retrieved items equal the stored ones (isotherms by == and deletable through the retrieved object); "
                "plus paging of bulk retrieval and the isotherm property-type table.",
        "note": "Open findings KF-C08-3..7 (REAL affinity int->float and numeric text->float, 'TRUE'/'FALSE' text->bool, branch "
                "marks not stored, retrieved material resolved from the in-memory list) are excluded by narrow predicates and "
                "counted; the history continues behind them.",
        "technique": "property-based testing: model-based stateful histories against a dictionary model + independent SQL inspection",
    },
    "C09": {
        "text": "Fault enumeration: for hypothesis-generated scenarios (write operation x prior contents x item x registry state) "
                "a dry run counts the N statements, then EVERY position k in [0..N] x {IntegrityError, InterfaceError, "
                "OperationalError raised by statement k; process death (os._exit in a forked child) before / after statement k "
                "and before / after commit} runs on a fresh copy of the pre-image; the file must equal exactly the pre-image or "
                "the post-image (full rows), pragmas clean, everything stored before still retrievable, and the same operation "
                "repeatable. A second check covers operations the store rejects by itself part-way; a third kills (os._exit in a "
                "forked child) uploads of 70 000 / 120 000 points, whose transaction does not fit the storage layer's page cache, "
                "before commit / after the last statement: the next process must find the pre-image.",
        "note": "Faults act at Python-visible boundaries (a counting sqlite3 shim installed from the harness); atomicity of "
                "SQLite's own commit under process death is assumed (power loss and torn pages are out of reach).",
        "technique": "fault injection: exhaustive statement-position x fault-kind enumeration per generated scenario with a pre-/post-image oracle",
        "category": "fault_enumeration",
    },
    "C15": {
        "text": "Shipped sample isotherms and synthetic BET / Langmuir / mesoporous / microporous isotherms x every "
                "characterisation entry point (area_BET, area_langmuir, t_plot, alpha_s, dr_plot, da_plot, psd_mesoporous, "
                "psd_microporous, psd_dft, initial_henry_slope / virial, isosteric_enthalpy) x generated target representations "
                "(10 pressure x 25 loading x 2 temperature, optionally through JSON) and scale factors: result(original) == "
                "result(converted clone) field by field (windows equal), own-unit results change by the reference factor, "
                "extensive results scale with c.",
        "note": "Open findings KF-C15-1 (= KF-C14-3, alpha_s reference pressures) and KF-C15-2 (= KF-C19-2, isosteric enthalpy on "
                "temperature-dependent loading bases) excluded by narrow predicates; material representation untouched; "
                "limits off data points.",
        "technique": "property-based testing: metamorphic unit-conversion / scaling relations over all characterisation entry points",
    },
    "C07": {
        "text": "Hypothesis-generated point / model / metadata-only isotherms in all unit configurations with metadata drawn "
                "from each format's value domain: export + import through CSV, Excel and AIF (string and file targets) must "
                "preserve class, material and its properties, adsorbate, temperature, the 7 unit labels, every column to 8 "
                "decimals, branch marks and row order, model name / parameters / ranges / rmse, metadata value and type, and "
                "== where the content is type-identical. Separate checks draw one value OUTSIDE the domain: the result must be "
                "a pyGAPS error or an exact round trip, never a silent change. The thorough tier adds an atheris / libFuzzer "
                "campaign on one-entry CSV round trips with the same oracle (hypothesis fuzz_one_input as mutator).",
        "note": "Open findings KF-C07-11..21 (values outside the formats' domains silently retyped / stripped / reordered, AIF "
                "typed keys, Excel int->float and xlwt bare exceptions) are excluded by narrow per-format predicates and "
                "counted; -0.0 and NaN in data are not generated; the atheris campaign is counted inconclusive if the wheel is "
                "not importable.",
        "technique": "property-based testing: per-format round-trip oracle with in-domain / out-of-domain value generators; coverage-guided fuzzing (atheris) of the CSV metadata codec in the thorough tier",
    },
    "C12": {
        "text": "Hypothesis-generated exact data from the 10 well-posed models (parameter windows, 8-60 point grids, several entry "
                "paths and magnitudes), noisy increasing data for all 16 models, model lists, user bounds / guesses, two-branch "
                "inputs and unit variants: exact data reproduced when the fit returns (1e-2), reported rmse == recomputed "
                "normalised RMS deviation (Virial: its own linearised residual), winner of guess() has the smallest error among "
                "candidates that converge alone, parameters inside the bounds in force, fit of a branch == fit of that branch's "
                "rows alone and unaffected by the other branch, PointIsotherm.from_modelisotherm lies on the model and keeps "
                "metadata / units and refits to the same curve, same data in other units give the same curve up to the "
                "reference conversion.",
        "note": "Open findings KF-C12-1 (remaining scale dependence of starting guesses / bounds after the partial repair "
                "69aa9f0; class = violations whose data ARE reproduced once pressures and loadings are divided by their "
                "maxima) and KF-C12-2 (TemkinApprox secondary minima) excluded by narrow predicates; refused fits are "
                "inconclusive; noisy data are used for the rmse / bounds / guess / branch clauses only.",
        "technique": "property-based testing: generator-recovery, recomputed-error identity, best-of-list and isolation/metamorphic unit relations",
    },
}
