"""C07 - CSV, Excel and AIF round trips preserve the isotherm; values the format cannot carry are refused with a
pyGAPS error, never silently changed."""
import functools
import inspect
import math
import os
import pathlib
import shutil
import tempfile

import numpy as np
import pandas as pd
from hypothesis import strategies as st

import pygaps
import pygaps.modelling as pgm
import pygaps.parsing as pgp
from pygaps.core.baseisotherm import BaseIsotherm
from pygaps.core.material import Material
from pygaps.utilities.exceptions import CalculationError
from pygaps.utilities.exceptions import pgError

from pbt import case as K
from pbt import strategies as S
from pbt.core import Check, Inconclusive, Violation, h16

LEVEL = "exploration"
RULE = (
    "A case = one isotherm descriptor x one format (csv / xl / aif) x one target (string / file; Excel: file; str or "
    "pathlib.Path; CSV separator , ; | tab): class drawn from {point, model, metadata-only} (weights 4:3:3), any of the "
    "10x27x19x2 unit configurations, registry or custom adsorbate, temperature in K or degC (table incl. exactly 0 degC, or "
    "a float), material with 0-4 properties, 0-4 'healthy' metadata entries from the format's value domain (CSV/AIF: "
    "keys without separator/blank, printable text without separator/quote/edge blanks that python rules independent of "
    "cast_string do not read as number/bool/none/list, non-negative ints, finite floats, bools; Excel: any printable text, "
    "floats, bools) and AT MOST ONE 'special' entry (meta or material property): in the round-trip checks a suspect "
    "in-domain class (negative int, keys starting with data / model / sample_ / _material_, the seven AIF-typed names, "
    "Excel ints), in the outside checks one value outside the domain (number/bool/none/list-looking text, empty text, "
    "separator, quotes, line breaks, control characters, edge blanks, lists, tuples, dicts, None, non-finite floats, keys "
    "with separator / blank / quote / non-ASCII ...). All categorical choices are drawn first from explicit weighted "
    "sampled_from lists, long lists last. Point data: 1-12 ads points + optional des leg on a 1e-6 grid or at full "
    "precision, branch guessed / explicit / all des / all ads / interleaved, extra float / int / text columns, custom "
    "column keys, int-valued loadings; models: each of the 16 model classes with generated parameters, ranges and rmse "
    "(instance route, also without ranges = NaN) or fitted (Henry/Langmuir/Freundlich). Oracle inside the domain: "
    "export+import completes without any exception; class, material name + properties, adsorbate, temperature, 7 unit "
    "labels, metadata (value and type, no extra / missing key), every data column (numeric: |d| <= 0.5e-8 + 1e-12|x|; "
    "text: equal), column keys, branch marks and row order, model name / parameters / ranges / rmse / branch are "
    "preserved; r == x (both directions) is asserted when the compared content is exactly equal and type-identical, and "
    "is also required for python-equal content (Excel 3 -> 3.0). Outside the domain: pgError at export or import, or an "
    "exact round trip of the entry AND of everything else; a changed value / dropped key / foreign exception type is a "
    "violation. Thorough tier adds an atheris (libFuzzer) campaign on one-entry CSV round trips with the same oracle. "
    "Non-trivial = >= 1 metadata or material property entry beyond the required ones (round trip) resp. a completed "
    "verdict (refused or exact) on the special entry (outside); distinct by descriptor hash."
)
ASSUMPTIONS = [
    "documented precision = pygaps.parsing._PARSER_PRECISION = 8 decimals: numeric data may differ by 0.5e-8 (+1e-12 "
    "relative for the decimal/binary conversion); Excel stores doubles and is held to the same bound",
    "text 'spelling a number/bool/none/list' is decided by python rules independent of cast_string (float() accepts, "
    "str.isnumeric, true/false/none case-insensitive, empty, [..]) - such text is only used in the outside-domain checks",
    "'plain text' = printable characters, no control characters, ASCII blanks only inside; quotes ' and \" and the "
    "separator are outside the CSV/AIF domain; non-ASCII keys and keys that differ only by case are outside the AIF "
    "domain (CIF tags)",
    "metadata keys never equal a constructor argument of the three classes or a name reserved by a format "
    "(file_version, iso_id, isotherm_data, ...)",
    "'refused' = an exception that is an instance of pygaps.utilities.exceptions.pgError",
    "equality of isotherms is asserted through == (iso_id); numpy.float64 is treated as float",
]

FORMATS = ("csv", "xl", "aif")
_PREC = 8


def worker_init():
    K.reset_registries()


# ---------------------------------------------------------------------------------------------------------------------
# reserved keys (computed from the three constructors + format reserved names)
def _reserved():
    names = set()
    for cls in (BaseIsotherm, pygaps.PointIsotherm, pygaps.ModelIsotherm):
        names.update(inspect.signature(cls.__init__).parameters)
        names.update(getattr(cls, "_reserved_params", []))
    names.update(BaseIsotherm._unit_params)
    names.update(["file_version", "iso_id", "isotherm_data", "isotherm_model", "plot_fit", "m", "t", "a", "name"])
    return names


RESERVED = _reserved()

# AIF keys with a fixed tag and type
AIF_TYPED = {"user": str, "date": str, "instrument": str, "material_mass": float, "material_mass_unit": str,
             "activation_temperature": float, "material_batch": str}

_KEYS = ["comment", "machine", "project", "k1", "Key_A", "run-7", "t_act", "is_real", "n2", "lab:1", "x.y", "origin",
         "batchNo", "DOI", "q_st", "notes2"]
_KEYS_UNICODE = ["ké", "größe", "名"]
_MAT_KEYS = ["batch", "poresize", "supplier", "form", "Sbet", "synth-T"]
assert not (set(_KEYS) | set(_KEYS_UNICODE)) & RESERVED
assert not (set(_KEYS) | set(_KEYS_UNICODE)) & set(AIF_TYPED)

# printable, no control characters, no quotes; the separator is replaced after the draw
_ALPHA_CSV = list("abcxyzABCXYZ0123456789") * 2 + list("  __--..::;;||//()[]{}%+=?!@&*<>~^$#\\") + list("éßΩ中µ°")
_ALPHA_XL = _ALPHA_CSV + list(",,''\"\"")
SEPS = [","] * 6 + [";", ";", "|", "\t"]


def sniffable(s):
    """True when a reader that sniffs types may read the text `s` as something other than plain text
    (python rules; deliberately wider than and independent of cast_string)."""
    if s == "" or s != s.strip():
        return True
    if s.lower() in ("true", "false", "none", "nan", "inf", "null"):
        return True
    if s.isnumeric() or s.isdigit() or s.isdecimal():
        return True
    try:
        float(s)
        return True
    except ValueError:
        pass
    try:
        int(s)
        return True
    except ValueError:
        pass
    if s[0] in "[(" or s[-1] in "])":
        return True
    return False


@functools.lru_cache(maxsize=None)
def _plain_text(fmt):
    alpha = _ALPHA_XL if fmt == "xl" else _ALPHA_CSV

    def fix(chars):
        s = "".join(chars).strip()
        while "  " in s:
            s = s.replace("  ", " ")
        if fmt != "xl" and sniffable(s):
            s = "t" + s.strip("[]() ")
            if sniffable(s):
                s = "text"
        if s == "":
            s = "t"
        return s

    return st.lists(st.sampled_from(alpha), min_size=1, max_size=10).map(fix)


@functools.lru_cache(maxsize=None)
def _floats():
    # "+ 0.0" folds -0.0 into 0.0 (whether the sign of zero is content is not stated by the property)
    return st.one_of(
        st.floats(-1e6, 1e6, allow_nan=False, allow_infinity=False),
        st.floats(allow_nan=False, allow_infinity=False),
        st.integers(-1000, 1000).map(float),
        st.floats(-10, 10).map(lambda x: round(x, 3)),
    ).map(lambda x: x + 0.0)


@functools.lru_cache(maxsize=None)
def _healthy_value(fmt):
    """In-domain metadata value; the type is chosen first from an explicit weighted list (one_of is not uniform)."""
    text = _plain_text(fmt)
    if fmt == "xl":
        # Excel carries typed cells: any printable text (also "12", "true"), doubles, booleans
        kinds = {"text": text, "float": _floats(), "bool": st.booleans(),
                 "typed_text": st.sampled_from(["12", "-3", "1.5", "true", "None", "[a b]", " lead", "trail ", "a,b"])}
        weights = ["text"] * 4 + ["typed_text"] * 2 + ["float"] * 3 + ["bool"]
    else:
        kinds = {"text": text, "float": _floats(), "bool": st.booleans(),
                 "int": st.one_of(st.integers(0, 20), st.integers(0, 10 ** 6), st.just(2 ** 70 + 1))}
        weights = ["text"] * 4 + ["int"] * 2 + ["float"] * 3 + ["bool"]
    return st.sampled_from(weights).flatmap(lambda k: kinds[k])


def _enc_nonfinite(name):
    return {"py": "float", "repr": name}


def decode(v):
    """Descriptor value -> python value (descriptors are JSON: tuples / non-finite floats are encoded)."""
    if isinstance(v, dict) and v.get("py") == "float":
        return float(v["repr"])
    if isinstance(v, dict) and v.get("py") == "tuple":
        return tuple(decode(x) for x in v["items"])
    if isinstance(v, dict) and v.get("py") == "dict":
        return {k: decode(x) for k, x in v["items"].items()}
    if isinstance(v, list):
        return [decode(x) for x in v]
    return v


# ---- special entries --------------------------------------------------------------------------------------------------
# Each class = (key strategy, value strategy). The class NAME is drawn first with st.sampled_from over an explicit,
# weighted list (nested one_of is not uniform), the key / value afterwards.
_NUMTEXT = ["12", "-3", "1.5", "1e5", "0012", "+7", "1_000", "nan", "inf", "-Infinity", ".5", "5.", "٣", "²", "½", "1E-3"]
_BOOLTEXT = ["true", "False", "TRUE", "fAlSe"]
_NONETEXT = ["None", "none", "NONE"]
_LISTTEXT = ["[a b]", "[1 2]", "[]", "[a]", "[1,2]", "[x", "(1 2)"]


@functools.lru_cache(maxsize=None)
def _inside_classes(fmt):
    """Suspect in-domain classes (at most one entry per case): {cls: (keys, values)} and the weighted name list."""
    k = st.sampled_from(_KEYS)
    hv = _healthy_value(fmt)
    c, w = {}, []

    def add(name, keys, values, weight=1):
        c[name] = (keys if not isinstance(keys, list) else st.sampled_from(keys), values)
        w.extend([name] * weight)

    if fmt in ("csv", "aif"):
        add("negint", k, st.one_of(st.integers(-20, -1), st.integers(-10 ** 6, -1)), 3)
    if fmt == "xl":
        add("int", k, st.integers(-1000, 1000), 3)
        add("bigint", k, st.sampled_from([2 ** 53 + 1, -2 ** 60 - 1, 10 ** 17 + 1]))
    add("key_data_prefix", ["data_source", "database", "data", "dataset:1"], hv, 2)
    add("key_model_prefix", ["model_from", "models", "model_x", "modelled"], hv, 2)
    add("key_sample_prefix", ["sample_id", "sample_x", "sample_"], hv)
    add("key_material_prefix", ["_material_x", "material_id", "_material_"], hv)
    if fmt == "aif":
        text = _plain_text(fmt)
        add("aif_text_key_text", ["user", "date", "instrument", "material_batch", "material_mass_unit"], text, 2)
        add("aif_text_key_number", ["user", "instrument", "material_batch"], st.one_of(st.integers(0, 50), _floats(), st.booleans()))
        add("aif_float_key_float", ["material_mass", "activation_temperature"], st.floats(-1e4, 1e4).map(lambda x: x + 0.0), 2)
        add("aif_float_key_int", ["material_mass", "activation_temperature"], st.integers(0, 500))
        add("aif_float_key_text", ["material_mass", "activation_temperature"], text)
    else:
        add("plain_named_key", sorted(AIF_TYPED), hv)  # the same names are ordinary keys in CSV / Excel
    return c, w


@functools.lru_cache(maxsize=None)
def _outside_classes(fmt):
    """Classes outside the format's value domain: {cls: (keys, values)} and the weighted name list."""
    k = st.sampled_from(_KEYS)
    v = st.just("v")
    c, w = {}, []

    def add(name, keys, values, weight=1):
        c[name] = (keys if not isinstance(keys, list) else st.sampled_from(keys),
                   values if not isinstance(values, list) else st.sampled_from(values))
        w.extend([name] * weight)

    add("list_int", k, st.lists(st.integers(-5, 50), max_size=4))
    add("list_float", k, st.lists(st.floats(-10, 10).map(lambda x: round(x, 3) + 0.0), min_size=1, max_size=3))
    add("list_text", k, st.lists(st.sampled_from(["a", "b", "c d", "x,y"]), min_size=1, max_size=3))
    add("list_nested", k, st.just([[1, 2], [3]]))
    add("tuple", k, st.lists(st.integers(0, 9), min_size=1, max_size=3).map(lambda x: {"py": "tuple", "items": x}))
    add("dict", k, st.dictionaries(st.sampled_from(["a", "b"]), st.integers(0, 9), max_size=2).map(
        lambda d: {"py": "dict", "items": d}))
    add("none", k, st.none())
    add("nonfinite", k, [_enc_nonfinite("nan"), _enc_nonfinite("inf"), _enc_nonfinite("-inf")])
    add("empty_text", k, st.just(""))
    add("newline", k, ["a\nb", "a\r\nb", "line1\nkey2,7", "x\n", "\ny", "a\rb"])
    add("control", k, ["a\x0bb", "a\x1fb", "a\x85b", "a\u2028b", "tab\there", "nul\x00"])
    if fmt == "xl":
        add("long_text", k, st.just("x" * 40000))
        return c, w
    add("numtext", k, _NUMTEXT, 3)
    add("booltext", k, _BOOLTEXT)
    add("nonetext", k, _NONETEXT)
    add("listtext", k, _LISTTEXT)
    add("separator", k, ["a,b", "1,2", ",", "a;b", "x|y", "a\tb"])
    add("quote", k, ["it's", "'q'", "a' b", "'", "say \"x\"", "\"dq\"", "a \"b", "''", "' x"], 2)
    add("edge_blank", k, [" lead", "trail ", " both ", "  x"])
    add("key_separator", ["a,b", "k;1", "x|y", ","], v)
    add("key_blank", ["a b", " lead", "trail ", "a\tb"], v)
    add("key_empty", [""], v)
    add("key_newline", ["a\nb"], v)
    if fmt == "aif":
        add("key_nonascii", _KEYS_UNICODE, v)
        add("key_quote", ["it's", "'k'"], v)
        add("key_hash", ["#k", "k#1"], v)
    return c, w


# ---- descriptors -------------------------------------------------------------------------------------------------------
_MAT_NAMES = [f"m-{i}" for i in range(10)] + ["Zr MOF é", "UiO-66(Zr)", "carbon_x", "MCM-41 #2", "Cu-BTC"]
_T_K = [77.0, 87.3, 298.15, 273.15, 303.0]
_T_C = [0.0, 0.0, 25.0, -196.15, 30.0]


@functools.lru_cache(maxsize=None)
def _param_names(name):
    inst = pgm.get_isotherm_model(name)
    return tuple(inst.param_names), tuple(tuple(b) for b in inst.param_default_bounds)


def _model_params(name, u):
    """Map unit-interval draws to parameter values inside the declared default bounds."""
    names, bounds = _param_names(name)
    out = {}
    for (pname, (lo, hi)), ui in zip(zip(names, bounds), u):
        lo_f, hi_f = float(lo), float(hi)
        if math.isinf(lo_f):
            lo_e, hi_e = -50.0, 50.0
            out[pname] = lo_e + ui * (hi_e - lo_e)
        else:
            lo_e = max(lo_f, 1e-4)
            hi_e = hi_f if not math.isinf(hi_f) else 1e4
            if hi_e <= 3:
                out[pname] = lo_e + ui * (hi_e - lo_e) * 0.999
            else:
                out[pname] = lo_e * (hi_e / lo_e) ** ui
    return out


_MODELS = list(pgm._MODELS)
_FIT_MODELS = ["Henry", "Langmuir", "Freundlich"]
_EXTRAS = [[], [], ["enthalpy"], ["enthalpy"], ["note"], ["enthalpy", "note"], ["cycle"], ["enthalpy", "cycle", "note"]]


@functools.lru_cache(maxsize=None)
def _shape(fmt, outside):
    """All categorical decisions of a case, drawn FIRST and flat (one sampled_from each, explicit repetition = weight)."""
    plain = outside
    sp_names = (_outside_classes(fmt) if outside else _inside_classes(fmt))[1]
    return st.fixed_dictionaries({
        "kind": st.sampled_from(["point"] * 4 + ["model"] * 3 + ["base"] * 3),
        "target": st.just("file") if fmt == "xl" else st.sampled_from(["string", "file"]),
        "path_kind": st.sampled_from(["str", "str", "Path"]),
        "sep": st.sampled_from(SEPS),
        "t_kind": st.sampled_from(["table"] if plain else ["table", "table", "float"]),
        "mshape": st.sampled_from(["bare", "phys", "phys", "phys+", "props"]),
        "n_meta": st.sampled_from([0, 1, 1, 2, 2, 3, 4]),
        "special": st.sampled_from(sp_names) if outside else st.sampled_from([None] * (2 * len(sp_names)) + sp_names),
        "where": st.sampled_from(["meta", "meta", "meta", "material"]),
        # point
        "grid": st.sampled_from([6, 6, 6, None, None]),
        "branch_mode": st.sampled_from(["guess", "explicit"] if plain else
                                       ["guess", "guess", "explicit", "explicit", "all_des", "all_ads", "interleaved"]),
        "int_data": st.just(False) if plain else st.sampled_from([False] * 7 + [True]),
        "extras": st.sampled_from(_EXTRAS),
        "keys": st.sampled_from([None, None, None, ["p", "n"], ["P_abs", "uptake"]]),
        # model
        "route": st.sampled_from(["instance"] * 5 + (["fit"] if plain else ["instance_defaults", "fit"])),
        "model": st.sampled_from(_MODELS),
        "fit_model": st.sampled_from(_FIT_MODELS),
        "mbranch": st.sampled_from(["ads", "ads", "ads", "des"]),
    })


@functools.lru_cache(maxsize=None)
def _shared():
    ads = S.ads_T().map(lambda a: a["adsorbate"])
    return {"units": S.units(), "ads": st.one_of(ads, ads, st.sampled_from(["verif-gas", "my gas é"])),
            "unit01": st.floats(0, 1)}


def _model_part(draw, sh):
    route = sh["route"]
    if route == "fit":
        data = draw(S.iso_data(min_points=4, max_points=8, desorption=False, grid=6, strict_loading=True))
        return {"route": route, "name": sh["fit_model"], "pressure": data["pressure"], "loading": data["loading"],
                "branch": "ads"}
    name = sh["model"]
    n = len(_param_names(name)[0])
    u = [draw(_shared()["unit01"]) for _ in range(n)]
    m = {"route": route, "name": name, "params": _model_params(name, u), "branch": sh["mbranch"]}
    if route == "instance":
        a, b = draw(st.floats(1e-6, 10.0)), draw(st.floats(1e-3, 100.0))
        c, d = draw(st.floats(0.0, 10.0)), draw(st.floats(1e-3, 100.0))
        m["prange"] = [a, a + b]
        m["lrange"] = [c, c + d]
        m["rmse"] = draw(st.one_of(st.floats(0, 10), st.just(0.0), st.floats(1e-12, 1e-3)))
    return m


def _point_part(draw, sh, plain):
    grid, mode = sh["grid"], sh["branch_mode"]
    labels = draw(st.sampled_from([None] * 4 + ["shift", "perm", "gaps", "text"]))  # row labels of the table (not content)
    label_k = draw(st.integers(0, 1000))
    data = draw(S.iso_data(min_points=1, max_points=6 if plain else 12, desorption=True, grid=grid))
    n = len(data["pressure"])
    part = {"pressure": data["pressure"], "loading": data["loading"], "grid": grid, "branch_mode": mode}
    if labels:
        part["labels"], part["label_k"] = labels, label_k
    if mode == "explicit":
        part["branch"] = data["branch_true"]
    elif mode == "interleaved":
        part["branch"] = draw(st.lists(st.integers(0, 1), min_size=n, max_size=n))
    if sh["int_data"]:
        part["pressure"] = [float(i + 1) for i in range(n)] if mode != "guess" else part["pressure"]
        part["loading"] = [int(round(v * 10)) for v in part["loading"]]
        part["int_loading"] = True
    extra = {}
    if "enthalpy" in sh["extras"]:
        extra["enthalpy"] = draw(st.lists(st.floats(-50, 50).map(lambda x: (round(x, 4) if grid else x) + 0.0),
                                          min_size=n, max_size=n))
    if "note" in sh["extras"]:
        pool = draw(st.sampled_from([["a", "b", "cd", "x-1", "B2"]] * 2 + [["1", "2a", "3", "repeat", "2.5", "rep-2"]]))
        note = draw(st.lists(st.sampled_from(pool), min_size=n, max_size=n))
        # run labels that mix numbers and words. A column (CSV) or loop (AIF: one per branch) made ONLY of text that spells
        # numbers is the sniffing class of the open finding KF-C07-11, so every branch keeps at least one word
        marks = part.get("branch") or data["branch_true"]
        for b in (0, 1):
            rows = [i for i in range(n) if marks[i] == b]
            if rows and all(note[i] in ("1", "3", "2.5") for i in rows):
                note[rows[0]] = "2a"
        extra["note"] = note
    if "cycle" in sh["extras"]:
        extra["cycle"] = draw(st.lists(st.integers(0, 5), min_size=n, max_size=n))
    if extra:
        part["extra"] = extra
    part["keys"] = sh["keys"]
    return part


@st.composite
def strat_case(draw, fmt, outside=False):
    sh = draw(_shape(fmt, outside))
    kind, target = sh["kind"], sh["target"]
    u = draw(_shared()["units"])
    ads = draw(_shared()["ads"])
    if sh["t_kind"] == "table":
        pool = _T_K if u["temperature_unit"] == "K" else _T_C
        if outside:
            pool = [t for t in pool if t != 0.0]
        T = draw(st.sampled_from(pool))
    else:
        T = draw(st.floats(1.0, 1000.0)) if u["temperature_unit"] == "K" else draw(st.floats(-272.0, 700.0)) + 0.0
    hv = _healthy_value(fmt)
    mat = {"name": draw(st.sampled_from(_MAT_NAMES))}
    if sh["mshape"] in ("phys", "phys+"):
        mat["density"] = draw(st.floats(0.05, 25.0))
        mat["molar_mass"] = draw(st.floats(10.0, 5000.0))
    if sh["mshape"] in ("phys+", "props"):
        mat.update(draw(st.dictionaries(st.sampled_from(_MAT_KEYS), hv, min_size=1, max_size=2)))
    keys = _KEYS if fmt == "aif" else _KEYS + _KEYS_UNICODE
    mkeys = draw(st.lists(st.sampled_from(keys), min_size=sh["n_meta"], max_size=sh["n_meta"], unique_by=str.lower))
    meta = {k: draw(hv) for k in mkeys}
    d = {"fmt": fmt, "target": target, "kind": kind, "units": u, "adsorbate": ads, "T": T, "material": mat, "meta": meta,
         "path_kind": sh["path_kind"], "special": None}
    if fmt == "csv":
        d["sep"] = sh["sep"]
        _replace_sep(d, d["sep"])
    if sh["special"] is not None:
        cls = sh["special"]
        kstrat, vstrat = (_outside_classes(fmt) if outside else _inside_classes(fmt))[0][cls]
        key, value = draw(kstrat), draw(vstrat)
        where = sh["where"]
        if cls.startswith("key_") or cls.startswith("aif_") or cls == "plain_named_key":
            where = "meta"
        sep = d.get("sep", ",")
        if fmt == "csv" and not outside and isinstance(value, str) and sep in value:
            value = value.replace(sep, "-") or "t"
            if sniffable(value):
                value = "t" + value
        # drop a healthy entry that collides with the special key (also case-insensitively: CIF tags)
        for coll in [k for k in d["meta"] if k.lower() == key.lower()]:
            del d["meta"][coll]
        d["special"] = {"cls": cls, "key": key, "value": value, "where": where}
    # long lists last (categorical draws after long lists are skewed)
    if kind == "point":
        d["point"] = _point_part(draw, sh, outside)
    elif kind == "model":
        d["model"] = _model_part(draw, sh)
    return d


def _replace_sep(d, sep):
    """Healthy text was generated for ','; with another separator replace that character (constructive)."""
    def fix(v):
        if isinstance(v, str) and sep in v:
            v = v.replace(sep, "-")
            if sniffable(v):
                v = "t" + v
        return v
    d["meta"] = {k: fix(v) for k, v in d["meta"].items() if sep not in k}
    d["material"] = {k: (fix(v) if k != "name" else v.replace(sep, "-")) for k, v in d["material"].items() if sep not in k}
    if sep in d["adsorbate"]:
        d["adsorbate"] = "nitrogen"  # e.g. '1,2-dichloroethane': a name containing the separator is outside the CSV domain


def _row_labels(kind, k, n):
    """Row labels a table keeps after sorting / filtering / concatenating without reset_index."""
    if not kind:
        return None
    if kind == "shift":
        return [i + 1 + k % 9 for i in range(n)]
    if kind == "perm":
        return np.random.default_rng(k).permutation(n).tolist()
    if kind == "gaps":
        return [2 * i + (k % 3) + (i // 2) for i in range(n)]
    return [f"r{(7 * i + k) % 101}_{i}" for i in range(n)]


# ---- building ------------------------------------------------------------------------------------------------------------
def build(desc):
    K.reset_registries()
    mdesc = dict(desc["material"])
    meta = {k: decode(v) for k, v in desc["meta"].items()}
    sp = desc.get("special")
    if sp:
        if sp["where"] == "material":
            mdesc[sp["key"]] = decode(sp["value"])
        else:
            meta[sp["key"]] = decode(sp["value"])
    props = {k: decode(v) for k, v in mdesc.items() if k != "name"}
    material = Material(mdesc["name"], **props)
    kwargs = dict(material=material, adsorbate=desc["adsorbate"], temperature=desc["T"], **desc["units"])
    kwargs.update(meta)
    kind = desc["kind"]
    if kind == "base":
        return BaseIsotherm(**kwargs)
    if kind == "point":
        p = desc["point"]
        pk, lk = p["keys"] or ("pressure", "loading")
        data = {pk: list(p["pressure"]), lk: list(p["loading"])}
        for c, v in (p.get("extra") or {}).items():
            data[c] = list(v)
        mode = p["branch_mode"]
        index = _row_labels(p.get("labels"), p.get("label_k", 0), len(p["pressure"]))
        if mode in ("explicit", "interleaved"):
            data["branch"] = [int(b) for b in p["branch"]]
            return pygaps.PointIsotherm(isotherm_data=pd.DataFrame(data, index=index), pressure_key=pk, loading_key=lk, **kwargs)
        branch = {"guess": "guess", "all_des": "des", "all_ads": "ads"}[mode]
        return pygaps.PointIsotherm(isotherm_data=pd.DataFrame(data, index=index), pressure_key=pk, loading_key=lk, branch=branch,
                                    **kwargs)
    m = desc["model"]
    if m["route"] == "fit":
        try:
            return pygaps.ModelIsotherm(pressure=list(m["pressure"]), loading=list(m["loading"]), model=m["name"], **kwargs)
        except CalculationError:
            raise Inconclusive()
    args = {"parameters": dict(m["params"])}
    if m["route"] == "instance":
        args.update(pressure_range=tuple(m["prange"]), loading_range=tuple(m["lrange"]), rmse=m["rmse"])
    model = pgm.get_isotherm_model(m["name"], **args)
    return pygaps.ModelIsotherm(model=model, branch=m["branch"], **kwargs)


# per-case temporary directory; a memory file system is used when there is one (mkdir/rmdir cost 8 ms on the disk)
_TMP_ROOT = "/dev/shm" if os.path.isdir("/dev/shm") and os.access("/dev/shm", os.W_OK) else None


def roundtrip(desc, iso):
    """Export + import through the requested format / target. Returns the re-imported isotherm."""
    fmt, target = desc["fmt"], desc["target"]
    tmp = None
    try:
        if target == "file":
            tmp = tempfile.mkdtemp(prefix="c07_", dir=_TMP_ROOT)
            path = os.path.join(tmp, "iso." + {"csv": "csv", "xl": "xls", "aif": "aif"}[fmt])
            if desc.get("path_kind") == "Path":
                path = pathlib.Path(path)
        if fmt == "csv":
            sep = desc.get("sep", ",")
            if target == "string":
                text = pgp.isotherm_to_csv(iso, separator=sep)
                return pgp.isotherm_from_csv(text, separator=sep)
            pgp.isotherm_to_csv(iso, path, separator=sep)
            return pgp.isotherm_from_csv(path, separator=sep)
        if fmt == "xl":
            pgp.isotherm_to_xl(iso, path)
            return pgp.isotherm_from_xl(path)
        if target == "string":
            text = pgp.isotherm_to_aif(iso)
            return pgp.isotherm_from_aif(text)
        pgp.isotherm_to_aif(iso, path)
        return pgp.isotherm_from_aif(path)
    finally:
        if tmp is not None:
            shutil.rmtree(tmp, ignore_errors=True)


# ---- comparison ---------------------------------------------------------------------------------------------------------
def _is_num(v):
    return isinstance(v, (int, float, np.integer, np.floating)) and not isinstance(v, (bool, np.bool_))


def _norm_type(v):
    """Type used for 'same type': numpy.float64 counts as float, numpy ints as int, numpy bool as bool."""
    if isinstance(v, (bool, np.bool_)):
        return bool
    if isinstance(v, (int, np.integer)):
        return int
    if isinstance(v, (float, np.floating)):
        return float
    return type(v)


def same_value(a, b):
    """python equality with NaN == NaN, recursive over list / tuple / dict (container type must agree)."""
    if isinstance(a, (list, tuple)) or isinstance(b, (list, tuple)):
        return type(a) is type(b) and len(a) == len(b) and all(same_value(x, y) for x, y in zip(a, b))
    if isinstance(a, dict) or isinstance(b, dict):
        return isinstance(a, dict) and isinstance(b, dict) and set(a) == set(b) and all(same_value(a[k], b[k]) for k in a)
    if _is_num(a) and _is_num(b):
        fa, fb = float(a), float(b)
        if math.isnan(fa) or math.isnan(fb):
            return math.isnan(fa) and math.isnan(fb)
        return a == b
    if isinstance(a, (bool, np.bool_)) != isinstance(b, (bool, np.bool_)):
        return False
    if a is None or b is None:
        return a is None and b is None
    if isinstance(a, str) != isinstance(b, str):
        return False
    return bool(a == b)


def same_typed(a, b):
    if not same_value(a, b):
        return False
    if isinstance(a, (list, tuple)):
        return all(same_typed(x, y) for x, y in zip(a, b))
    if isinstance(a, dict):
        return all(same_typed(a[k], b[k]) for k in a)
    return _norm_type(a) is _norm_type(b)


class Snapshot:
    """Content of an isotherm taken before the export (so that a writer mutating its input cannot hide a change)."""

    def __init__(self, iso):
        self.cls = type(iso).__name__
        self.material_name = iso.material.name
        self.material_props = dict(iso.material.properties)
        self.adsorbate = str(iso.adsorbate)
        self.temperature = iso._temperature
        self.units = {k: getattr(iso, k) for k in K.UNIT_KEYS}
        self.properties = dict(iso.properties)
        self.frame = None
        self.model = None
        if isinstance(iso, pygaps.PointIsotherm):
            self.frame = iso.data_raw.copy(deep=True)
            self.pressure_key, self.loading_key = iso.pressure_key, iso.loading_key
        if isinstance(iso, pygaps.ModelIsotherm):
            md = iso.model.to_dict()
            self.model = {"name": md["name"], "rmse": md["rmse"], "parameters": dict(md["parameters"]),
                          "pressure_range": tuple(md["pressure_range"]), "loading_range": tuple(md["loading_range"])}
            self.branch = iso.branch


def _fmt_case(desc):
    return f"[{desc['fmt']}/{desc['target']}/{desc['kind']}]"


def compare_core(desc, x, r, skip_keys=()):
    """Everything except the special entry and isotherm equality. Raises Violation. Returns True when all compared
    content was type-identical and exactly equal (precondition of asserting ==)."""
    w = _fmt_case(desc)
    exact = True
    if type(r).__name__ != x.cls:
        raise Violation(f"{w} a {x.cls} came back as {type(r).__name__}", tag="class")
    # material
    if r.material.name != x.material_name or not isinstance(r.material.name, str):
        raise Violation(f"{w} material name {x.material_name!r} came back as {r.material.name!r}", tag="material_name")
    rp = dict(r.material.properties)
    for k, v in x.material_props.items():
        if ("material", k) in skip_keys:
            continue
        if k not in rp:
            raise Violation(f"{w} material property {k!r}={v!r} is missing after the round trip (has {rp!r})",
                            tag="material_props_keys")
        if not same_value(v, rp[k]):
            raise Violation(f"{w} material property {k!r}: {v!r} came back as {rp[k]!r}", tag="material_props_value")
        if not same_typed(v, rp[k]):
            raise Violation(f"{w} material property {k!r}: {v!r} ({type(v).__name__}) came back as {rp[k]!r} "
                            f"({type(rp[k]).__name__})", tag="material_props_type")
    extra = set(rp) - set(x.material_props) - {k for w_, k in skip_keys if w_ == "material"}
    if extra:
        raise Violation(f"{w} material gained properties {sorted(extra)} ({ {k: rp[k] for k in extra} })",
                        tag="material_props_keys")
    # adsorbate, temperature, units
    if str(r.adsorbate) != x.adsorbate:
        raise Violation(f"{w} adsorbate {x.adsorbate!r} came back as {str(r.adsorbate)!r}", tag="adsorbate")
    if not (isinstance(r._temperature, float) and r._temperature == x.temperature):
        raise Violation(f"{w} temperature {x.temperature!r} came back as {r._temperature!r}", tag="temperature")
    for k in K.UNIT_KEYS:
        if getattr(r, k) != x.units[k] or type(getattr(r, k)) is not type(x.units[k]):
            raise Violation(f"{w} unit label {k}: {x.units[k]!r} came back as {getattr(r, k)!r}", tag=f"unit:{k}")
    # metadata
    rprops = dict(r.properties)
    for k, v in x.properties.items():
        if ("meta", k) in skip_keys:
            continue
        if k not in rprops:
            raise Violation(f"{w} metadata {k!r}={v!r} is missing after the round trip (has {sorted(rprops)})",
                            tag="meta_keys")
        if not same_value(v, rprops[k]):
            raise Violation(f"{w} metadata {k!r}: {v!r} came back as {rprops[k]!r}", tag="meta_value")
        if not same_typed(v, rprops[k]):
            raise Violation(f"{w} metadata {k!r}: {v!r} ({type(v).__name__}) came back as {rprops[k]!r} "
                            f"({type(rprops[k]).__name__})", tag="meta_type")
    extra = set(rprops) - set(x.properties) - {k for w_, k in skip_keys if w_ == "meta"}
    if extra:
        raise Violation(f"{w} metadata gained keys {sorted(extra)} ({ {k: rprops[k] for k in extra} })", tag="meta_keys")
    # data
    if x.frame is not None:
        exact = _compare_frame(desc, x, r) and exact
    if x.model is not None:
        _compare_model(desc, x, r)
    return exact


def _compare_frame(desc, x, r):
    w = _fmt_case(desc)
    xf, rf = x.frame, r.data_raw
    exact = True
    ren = {x.pressure_key: "<pressure>", x.loading_key: "<loading>"}
    ren_r = {r.pressure_key: "<pressure>", r.loading_key: "<loading>"}
    xcols = [ren.get(c, c) for c in xf.columns]
    rcols = [ren_r.get(c, c) for c in rf.columns]
    if sorted(xcols) != sorted(rcols):
        raise Violation(f"{w} data columns {list(xf.columns)} came back as {list(rf.columns)}", tag="data_columns")
    if desc["fmt"] != "aif" and (r.pressure_key != x.pressure_key or r.loading_key != x.loading_key):
        raise Violation(f"{w} column keys ({x.pressure_key!r}, {x.loading_key!r}) came back as "
                        f"({r.pressure_key!r}, {r.loading_key!r})", tag="data_keys")
    if len(xf) != len(rf):
        raise Violation(f"{w} {len(xf)} data rows came back as {len(rf)}", tag="data_rows")
    xb = [int(v) for v in xf["branch"].tolist()]
    try:
        rb = [int(v) for v in rf["branch"].tolist()]
    except (TypeError, ValueError):
        raise Violation(f"{w} branch column came back as {rf['branch'].tolist()!r}", tag="branch")
    if sorted(xb) != sorted(rb):
        raise Violation(f"{w} branch marks {xb} came back as {rb}", tag="branch")
    xcol = dict(zip(xcols, xf.columns))
    rcol = dict(zip(rcols, rf.columns))
    order_bad = xb != rb
    for c in xcols:
        if c == "branch":
            continue
        xv, rv = xf[xcol[c]].tolist(), rf[rcol[c]].tolist()
        numeric = all(_is_num(v) for v in xv)
        if numeric:
            if not all(_is_num(v) for v in rv):
                raise Violation(f"{w} numeric column {c!r} {xv} came back as {rv}", tag=f"data_value:{_ck(c)}")
            ok = all(abs(float(a) - float(b)) <= 0.5 * 10 ** (-_PREC) * (1 + 1e-6) + 1e-12 * abs(float(a))
                     for a, b in zip(xv, rv))
            if not ok:
                if sorted(map(float, xv)) == sorted(map(float, rv)) or order_bad:
                    order_bad = True
                    continue
                raise Violation(f"{w} column {c!r}: {xv} came back as {rv} (more than 0.5e-8 apart)",
                                tag=f"data_value:{_ck(c)}")
            if [float(a) for a in xv] != [float(b) for b in rv]:
                exact = False
            if str(xf[xcol[c]].dtype) != str(rf[rcol[c]].dtype):
                exact = False
        else:
            if [str(a) for a in xv] != [b for b in rv]:
                if sorted(str(a) for a in xv) == sorted(str(b) for b in rv):
                    order_bad = True
                    continue
                raise Violation(f"{w} text column {c!r}: {xv} came back as {rv}", tag=f"data_value:{_ck(c)}")
            if str(xf[xcol[c]].dtype) != str(rf[rcol[c]].dtype):
                exact = False
    if order_bad:
        rows_x = list(zip(xb, xf[x.pressure_key].tolist(), xf[x.loading_key].tolist()))
        rows_r = list(zip(rb, rf[r.pressure_key].tolist(), rf[r.loading_key].tolist()))
        raise Violation(f"{w} order / branch assignment of the points changed: (branch, p, n) {rows_x} came back as {rows_r}",
                        tag="data_order")
    if str(xf["branch"].dtype) != str(rf["branch"].dtype) or list(xf.index) != list(rf.index):
        exact = False
    return exact


def _ck(c):
    return c.strip("<>")


def _compare_model(desc, x, r):
    w = _fmt_case(desc)
    md = r.model.to_dict()
    xm = x.model
    if md["name"] != xm["name"]:
        raise Violation(f"{w} model name {xm['name']!r} came back as {md['name']!r}", tag="model_name")
    if list(md["parameters"]) != list(xm["parameters"]) or not all(
            _is_num(md["parameters"][k]) and same_value(md["parameters"][k], v) for k, v in xm["parameters"].items()):
        raise Violation(f"{w} model parameters {xm['parameters']} came back as {md['parameters']}", tag="model_params")
    for rk in ("pressure_range", "loading_range"):
        got = list(md[rk])
        if len(got) != 2 or not all(_is_num(g) and same_value(g, v) for g, v in zip(got, xm[rk])):
            raise Violation(f"{w} model {rk} {xm[rk]} came back as {md[rk]!r}", tag="model_range")
    if not (_is_num(md["rmse"]) and same_value(md["rmse"], xm["rmse"])):
        raise Violation(f"{w} model rmse {xm['rmse']!r} came back as {md['rmse']!r}", tag="model_rmse")
    if r.branch != x.branch:
        raise Violation(f"{w} model isotherm branch {x.branch!r} came back as {r.branch!r}", tag="model_branch")


def _special_lookup(sp, iso_like_props, mat_props):
    src = mat_props if sp["where"] == "material" else iso_like_props
    return sp["key"] in src, src.get(sp["key"])


def _labels(desc, ctx):
    ctx.label("kind:" + desc["kind"], "target:" + desc["target"])
    u = desc["units"]
    if u["pressure_mode"] != "absolute":
        ctx.label("units:relative_pressure")
    if u["loading_basis"] in ("fraction", "percent"):
        ctx.label("units:fraction_loading")
    if u["temperature_unit"] != "K":
        ctx.label("units:degC")
    if desc["kind"] == "point":
        p = desc["point"]
        ctx.label("branch:" + p["branch_mode"], "grid:" + str(p["grid"]))
        for c in (p.get("extra") or {}):
            ctx.label("extra:" + c)
    if desc["kind"] == "model":
        ctx.label("model_route:" + desc["model"]["route"])
    if desc["special"]:
        ctx.label("special:" + desc["special"]["cls"])
    ctx.label(f"n_meta:{min(len(desc['meta']), 3)}")
    for v in list(desc["meta"].values()) + [v for k, v in desc["material"].items() if k not in ("name", "density", "molar_mass")]:
        ctx.label("value:" + type(v).__name__)
    if desc.get("sep", ",") != ",":
        ctx.label("csv_sep:other")
    if (desc.get("point") or {}).get("keys"):
        ctx.label("custom_column_keys")
    if (desc.get("point") or {}).get("int_loading"):
        ctx.label("int_loading")


# ---- check: round trip inside the domain -------------------------------------------------------------------------------
def check_roundtrip(desc, ctx):
    iso = build(desc)
    x = Snapshot(iso)
    sp = desc.get("special")
    w = _fmt_case(desc)
    try:
        r = roundtrip(desc, iso)
    except pgError as e:
        raise Violation(f"{w} content inside the format's domain was refused with {type(e).__name__}: {str(e)[:160]} "
                        f"(special={sp}, meta={desc['meta']})", tag=_t(sp, "refused"))
    skip = ()
    if sp:
        skip = ((sp["where"], sp["key"]),)
    exact = compare_core(desc, x, r, skip_keys=skip)
    if sp:
        want = x.material_props[sp["key"]] if sp["where"] == "material" else x.properties[sp["key"]]
        has, got = _special_lookup(sp, dict(r.properties), dict(r.material.properties))
        if not has:
            raise Violation(f"{w} {sp['where']} entry {sp['key']!r}={want!r} ({sp['cls']}) is missing after the round trip: "
                            f"metadata {dict(r.properties)}, material {r.material.to_dict()}", tag=_t(sp, "missing"))
        if not same_value(want, got):
            raise Violation(f"{w} {sp['where']} entry {sp['key']!r} ({sp['cls']}): {want!r} came back as {got!r}",
                            tag=_t(sp, "value"))
        if not same_typed(want, got):
            if desc["fmt"] == "xl" and _norm_type(want) is int and _norm_type(got) is float:
                # Excel has no integer cell type; the value is the same. The equality clause below still applies.
                exact = False
            else:
                raise Violation(f"{w} {sp['where']} entry {sp['key']!r} ({sp['cls']}): {want!r} ({type(want).__name__}) came "
                                f"back as {got!r} ({type(got).__name__})", tag=_t(sp, "type"))
    # equality
    if exact:
        ctx.label("eq:asserted")
        if not (r == iso) or not (iso == r):
            raise Violation(f"{w} re-imported isotherm != original although every compared field is identical in value and "
                            f"type: to_dict {iso.to_dict()} vs {r.to_dict()}", tag="eq")
        if not sp:
            # the same object edited in place after that first export (a metadata entry added; a measured value
            # overwritten) and exported again: the clause holds for the isotherm as it now stands
            iso.properties["zzedit"] = "again"
            if isinstance(iso, pygaps.PointIsotherm) and len(iso.data_raw) >= 2:
                col = iso.data_raw.columns.get_loc(iso.loading_key)
                iso.data_raw.iloc[0, col] = iso.data_raw.iloc[1, col]
            x2 = Snapshot(iso)
            try:
                r2 = roundtrip(desc, iso)
            except pgError as e:
                raise Violation(f"{w} second export (after an in-place edit) refused with {type(e).__name__}: {str(e)[:160]}",
                                tag="second_export_refused")
            if compare_core(desc, x2, r2):
                ctx.label("eq:asserted_after_edit")
                if not (r2 == iso) or not (iso == r2):
                    raise Violation(f"{w} isotherm edited in place after a first export, exported again: the re-imported "
                                    f"isotherm != the edited original although every compared field is identical in value "
                                    f"and type: to_dict {iso.to_dict()} vs {r2.to_dict()}", tag="eq_after_edit")
    elif sp and desc["fmt"] == "xl" and sp["cls"] == "int":
        ctx.label("eq:int_as_float")
        if _content_python_equal(iso, r) and not (r == iso):
            raise Violation(f"{w} content is equal ({sp['key']!r}: {decode(sp['value'])!r} == {got!r}) but the re-imported "
                            f"isotherm != original", tag="eq_int_as_float")
    else:
        ctx.label("eq:not_asserted")
    _labels(desc, ctx)
    if desc["meta"] or len(desc["material"]) > 1 or sp:
        ctx.nt([desc["fmt"], h16(desc)], desc)


def _content_python_equal(a, b):
    da, db = a.to_dict(), b.to_dict()
    if da != db:
        return False
    if isinstance(a, pygaps.PointIsotherm):
        fa, fb = a.data_raw, b.data_raw
        return list(fa.columns) == list(fb.columns) and all(fa[c].tolist() == fb[c].tolist() for c in fa.columns)
    if isinstance(a, pygaps.ModelIsotherm):
        ma, mb = a.model.to_dict(), b.model.to_dict()
        return all(same_value(list(ma[k]) if isinstance(ma[k], (tuple, list)) else ma[k],
                              list(mb[k]) if isinstance(mb[k], (tuple, list)) else mb[k]) for k in ma)
    return True


def _t(sp, what):
    return f"special:{sp['cls']}:{what}" if sp else what


# ---- check: outside the domain -----------------------------------------------------------------------------------------
def check_outside(desc, ctx):
    sp = desc["special"]
    w = _fmt_case(desc)
    try:
        iso = build(desc)
    except pgError:
        return  # the constructor itself refuses the entry: nothing reaches the format
    x = Snapshot(iso)
    want = x.material_props.get(sp["key"]) if sp["where"] == "material" else x.properties.get(sp["key"])
    try:
        r = roundtrip(desc, iso)
    except pgError:
        ctx.label("refused:" + sp["cls"])
        ctx.nt([desc["fmt"], "refused", h16(desc)], desc)
        return
    except Violation:
        raise
    except Exception as e:  # noqa  (the property names the allowed exception class)
        raise Violation(f"{w} {sp['where']} entry {sp['key']!r}={want!r} ({sp['cls']}) outside the format's domain raised "
                        f"{type(e).__name__}: {str(e)[:120]!r} instead of a pyGAPS error",
                        tag=f"outside:{sp['cls']}:foreign:{type(e).__name__}")
    # completed: must be exact
    has, got = _special_lookup(sp, dict(r.properties), dict(r.material.properties))
    if not has:
        raise Violation(f"{w} {sp['where']} entry {sp['key']!r}={want!r} ({sp['cls']}) was silently dropped / renamed: "
                        f"metadata {dict(r.properties)}, material {r.material.to_dict()}", tag=f"outside:{sp['cls']}:dropped")
    if not same_typed(want, got):
        raise Violation(f"{w} {sp['where']} entry {sp['key']!r}: {want!r} ({type(want).__name__}, {sp['cls']}) was silently "
                        f"changed to {got!r} ({type(got).__name__})", tag=f"outside:{sp['cls']}:changed")
    try:
        compare_core(desc, x, r, skip_keys=((sp["where"], sp["key"]),))
    except Violation as v:
        raise Violation(f"(with {sp['cls']} entry {sp['key']!r}={want!r}) " + v.message, tag=f"outside:collateral:{v.tag}")
    ctx.label("exact:" + sp["cls"])
    ctx.label("kind:" + desc["kind"], "target:" + desc["target"], "where:" + sp["where"])
    ctx.nt([desc["fmt"], "exact", h16(desc)], desc)


# ---- coverage-guided campaign on the CSV codec (thorough tier; subprocess: pbt/atheris_C07.py) --------------------------
def classify_value(v, sep=","):
    """'in:<cls>' / 'out:<cls>' for an arbitrary python scalar against the CSV / AIF value domain (python rules only)."""
    if isinstance(v, bool):
        return "in:bool"
    if isinstance(v, int):
        return "in:negint" if v < 0 else "in:int"
    if isinstance(v, float):
        return "in:float" if math.isfinite(v) else "out:nonfinite"
    if v is None:
        return "out:none"
    if not isinstance(v, str):
        return "out:other"
    if v == "":
        return "out:empty_text"
    if "\n" in v or "\r" in v:
        return "out:newline"
    if not v.isprintable():
        return "out:control"
    if sep in v:
        return "out:separator"
    if "'" in v or '"' in v:
        return "out:quote"
    if v != v.strip():
        return "out:edge_blank"
    if v.lower() in ("true", "false"):
        return "out:booltext"
    if v.lower() == "none":
        return "out:nonetext"
    if v[0] in "[(" or v[-1] in "])":
        return "out:listtext"
    if sniffable(v):
        return "out:numtext"
    return "in:text"


def minimal_case(fmt, key, value, cls, target="string"):
    """Metadata-only isotherm descriptor with one entry (used by the fuzz campaign and for replay of its findings)."""
    d = {"fmt": fmt, "target": target if fmt != "xl" else "file", "kind": "base", "adsorbate": "nitrogen", "T": 77.0,
         "units": {"pressure_mode": "absolute", "pressure_unit": "bar", "loading_basis": "molar", "loading_unit": "mmol",
                   "material_basis": "mass", "material_unit": "g", "temperature_unit": "K"},
         "material": {"name": "m-1"}, "meta": {}, "path_kind": "str",
         "special": {"cls": cls, "key": key, "value": value, "where": "meta"}}
    if fmt == "csv":
        d["sep"] = ","
    return d


def check_fuzz_campaign(desc, ctx):
    """desc = {"runs": N, "seed": S, "corpus": "seeded"|"empty"}: run the atheris campaign in a subprocess and report the
    violations it printed. Skipped (counted inconclusive) when atheris cannot be imported."""
    import json
    import subprocess
    import sys
    env = dict(os.environ)
    probe = subprocess.run([sys.executable, "-c", "import atheris"], env=env, capture_output=True)
    if probe.returncode != 0:
        ctx.label("atheris_unavailable")
        raise Inconclusive()
    cmd = [sys.executable, "-W", "ignore", "-m", "pbt.atheris_C07", "--runs", str(desc["runs"]), "--seed", str(desc["seed"]),
           "--corpus", desc["corpus"]]
    p = subprocess.run(cmd, env=env, capture_output=True, text=True, cwd=os.path.dirname(os.path.dirname(os.path.dirname(
        os.path.abspath(__file__)))), timeout=3600)
    out = p.stdout + "\n" + p.stderr
    stats = None
    viols = []
    for line in out.splitlines():
        if line.startswith("FUZZ-STATS "):
            stats = json.loads(line[len("FUZZ-STATS "):])
        elif line.startswith("VIOLATION "):
            viols.append(json.loads(line[len("VIOLATION "):]))
    if stats is None:
        from pbt.core import HarnessError
        raise HarnessError(f"fuzz campaign produced no statistics (exit {p.returncode}): {out[-1500:]}")
    for k, v in stats.items():
        ctx.labels[f"fuzz_{k}"] += v
    if viols:
        v = viols[0]
        raise Violation(f"atheris campaign ({desc}) found {len(viols)} class(es); first: check {v['check']} case "
                        f"{json.dumps(v['case'], ensure_ascii=False)}: {v['message']}", tag="fuzz:" + v["tag"])
    ctx.nt(["fuzz", desc["runs"], desc["seed"], desc["corpus"], stats["runs"]], dict(desc, stats=stats))


def cases_fuzz(tier, seed):
    if tier != "thorough":
        return []
    return [{"runs": 60000, "seed": int(seed) % (2 ** 31 - 1) + 1, "corpus": "seeded"},
            {"runs": 60000, "seed": int(seed) % (2 ** 31 - 1) + 2, "corpus": "empty"}]


def _mk(fmt, outside):
    return lambda: strat_case(fmt, outside=outside)


CHECKS = []
for _f in FORMATS:
    CHECKS.append(Check(f"{_f}_roundtrip", check_roundtrip, strategy=_mk(_f, False),
                        budget={"quick": 2400, "thorough": 40000},
                        rule=f"{_f}: isotherm_from_{_f}(isotherm_to_{_f}(x)) field by field and ==, content inside the domain"))
for _f in FORMATS:
    CHECKS.append(Check(f"{_f}_outside", check_outside, strategy=_mk(_f, True),
                        budget={"quick": 1200, "thorough": 20000},
                        rule=f"{_f}: one entry outside the value domain: pgError or exact round trip"))


# ---- known-finding classes (narrow: one input class + the violation it produces) ----------------------------------------
def _sp(desc):
    return desc.get("special") or {}


def _exc(viol):
    """Exception type named by a crash / foreign-exception tag."""
    t = viol.tag
    if t.startswith("crash:"):
        return t.split(":")[1]
    if ":foreign:" in t:
        return t.rsplit(":", 1)[1]
    return None


def _inner(tag):
    """Tag of the underlying clause (the outside checks prefix collateral violations)."""
    return tag.split(":collateral:", 1)[1] if ":collateral:" in tag else tag


def _route(desc):
    return (desc.get("model") or {}).get("route")


# -- repairable (findings/proposed/C07-<n>.diff) ---------------------------------------------------------------------------
def kf_csv_section_prefix(check_name, desc, viol):
    """C07-1: CSV reader stops the metadata loop at any key starting with data/model; the rest of the file is misread
    (dropped keys, wrong class, IndexError / ParserError / ValueError...)."""
    return desc["fmt"] == "csv" and _sp(desc).get("cls") in ("key_data_prefix", "key_model_prefix") and \
        _sp(desc).get("where") == "meta"


def kf_csv_model_rmse_string(check_name, desc, viol):
    """C07-2: CSV reader keeps the model rmse as text."""
    return desc["fmt"] == "csv" and desc["kind"] == "model" and _inner(viol.tag) == "model_rmse" and \
        "came back as '" in viol.message


def kf_aif_to_numeric(check_name, desc, viol):
    """C07-3: pandas 3 has no to_numeric(errors='ignore'): no AIF data loop can be read."""
    return desc["fmt"] == "aif" and desc["kind"] == "point" and _exc(viol) == "ValueError" and \
        "invalid error value specified" in viol.message


def kf_aif_source_detection(check_name, desc, viol):
    """C07-4: AIF text passed as a string raises OSError from Path.exists(); unparsable AIF files raise ValueError."""
    if desc["fmt"] != "aif":
        return False
    if desc["target"] == "string":
        return (_exc(viol) == "OSError" and "File name too long" in viol.message) or \
            (_exc(viol) == "ValueError" and "embedded null" in viol.message)
    return check_name == "aif_outside" and _exc(viol) in ("ValueError", "RuntimeError") and "iso.aif:" in viol.message


def kf_xl_model_ranges(check_name, desc, viol):
    """C07-5: Excel model ranges go through str(tuple) / ast.literal_eval (numpy reprs, nan)."""
    return desc["fmt"] == "xl" and desc["kind"] == "model" and _route(desc) in ("fit", "instance_defaults") and \
        _exc(viol) == "ValueError" and "malformed node or string" in viol.message


def kf_csv_model_nan_ranges(check_name, desc, viol):
    """C07-6: CSV reader cannot read the '(nan nan)' ranges of a model instance without ranges."""
    return desc["fmt"] == "csv" and desc["kind"] == "model" and _route(desc) == "instance_defaults" and \
        _exc(viol) == "ValueError" and "malformed node or string" in viol.message


def kf_cast_string_int(check_name, desc, viol):
    """C07-7: cast_string turns negative ints into floats and raises ValueError on isnumeric() text that is no int."""
    if desc["fmt"] not in ("csv", "aif"):
        return False
    if _sp(desc).get("cls") == "negint" and viol.tag == "special:negint:type":
        return True
    return desc["fmt"] == "aif" and _sp(desc).get("cls") == "numtext" and _exc(viol) == "ValueError" and \
        "invalid literal for int()" in viol.message


def kf_aif_section_prefix(check_name, desc, viol):
    """C07-8: AIF reader takes any key starting with data/model for a data / model part."""
    cls = _sp(desc).get("cls")
    if desc["fmt"] != "aif" or _sp(desc).get("where") != "meta":
        return False
    if cls == "key_data_prefix":
        return viol.tag == "special:key_data_prefix:refused" and "isotherm_data" in viol.message
    if cls == "key_model_prefix":
        return _exc(viol) == "KeyError" and "model_name" in viol.message
    return False


def kf_xl_zero_temperature(check_name, desc, viol):
    """C07-9: Excel writer drops a temperature of exactly 0."""
    return desc["fmt"] == "xl" and desc["T"] == 0 and viol.tag.endswith("refused") and "MUST have" in viol.message


def kf_cast_string_list_errors(check_name, desc, viol):
    """C07-10: list-looking values that cannot be evaluated raise SyntaxError / ValueError (AIF reader does not wrap)."""
    return desc["fmt"] == "aif" and check_name == "aif_outside" and \
        _sp(desc).get("cls") in ("list_int", "list_float", "list_text", "list_nested", "listtext") and \
        _exc(viol) in ("SyntaxError", "ValueError") and \
        ("invalid syntax" in viol.message or "malformed node or string" in viol.message or "unterminated" in viol.message
         or "was never closed" in viol.message or "unmatched" in viol.message)


def kf_csv_nul_in_text(check_name, desc, viol):
    """C07-11: a CSV text with a NUL character makes open() raise ValueError in isotherm_from_csv."""
    return desc["fmt"] == "csv" and desc["target"] == "string" and _exc(viol) == "ValueError" and \
        "embedded null byte" in viol.message and "\x00" in str(_sp(desc).get("value"))


# -- open ---------------------------------------------------------------------------------------------------------------
_SNIFFED = ("numtext", "booltext", "nonetext", "listtext", "empty_text")


def kf_sniffed_text(check_name, desc, viol):
    """CSV / AIF: text that spells a number / bool / none / list (or is empty) silently comes back retyped."""
    cls = _sp(desc).get("cls")
    return desc["fmt"] in ("csv", "aif") and cls in _SNIFFED and viol.tag == f"outside:{cls}:changed"


def kf_nonscalar_stringified(check_name, desc, viol):
    """CSV / AIF: dicts and tuples silently come back as their text; AIF lists of text with blanks come back changed."""
    cls = _sp(desc).get("cls")
    if desc["fmt"] not in ("csv", "aif") or viol.tag != f"outside:{cls}:changed":
        return False
    return cls in ("dict", "tuple") or (desc["fmt"] == "aif" and cls == "list_text")


def kf_csv_line_structure(check_name, desc, viol):
    """CSV: edge blanks / line breaks in values and blanks at the edge of keys are silently stripped or split the line."""
    cls = _sp(desc).get("cls")
    return desc["fmt"] == "csv" and (
        (cls in ("edge_blank", "newline", "control") and viol.tag in (f"outside:{cls}:changed", f"outside:{cls}:dropped"))
        or (cls == "key_blank" and viol.tag == "outside:key_blank:dropped"))


def kf_aif_quotes_and_key_blanks(check_name, desc, viol):
    """AIF: quotes at the edge of a value are stripped, blanks in keys become underscores - silently."""
    cls = _sp(desc).get("cls")
    return desc["fmt"] == "aif" and ((cls == "quote" and viol.tag == "outside:quote:changed")
                                     or (cls == "key_blank" and viol.tag == "outside:key_blank:dropped"))


def kf_reserved_prefix_moved(check_name, desc, viol):
    """Metadata keys starting with the prefix the writer uses for material properties (_material_ in CSV / Excel,
    sample_ in AIF) silently become material properties."""
    cls = _sp(desc).get("cls")
    key = _sp(desc).get("key", "")
    ok = (desc["fmt"] in ("csv", "xl") and cls == "key_material_prefix" and key.startswith("_material_")) or \
         (desc["fmt"] == "aif" and cls == "key_sample_prefix")
    return ok and viol.tag in ("material_props_keys", f"special:{cls}:missing")


def kf_aif_typed_keys(check_name, desc, viol):
    """AIF: the seven metadata names with an own AIF tag are forced to that tag's type: numbers under text tags come back
    as text, ints under float tags as floats, text under float tags is dropped with a log message."""
    cls = _sp(desc).get("cls")
    return desc["fmt"] == "aif" and (cls, viol.tag) in (
        ("aif_text_key_number", "special:aif_text_key_number:value"),
        ("aif_text_key_number", "special:aif_text_key_number:type"),
        ("aif_float_key_int", "special:aif_float_key_int:type"),
        ("aif_float_key_text", "special:aif_float_key_text:missing"))


def kf_aif_interleaved_order(check_name, desc, viol):
    """AIF: points are written as an adsorption loop followed by a desorption loop: interleaved branch marks lose their
    row order silently."""
    p = desc.get("point") or {}
    if desc["fmt"] != "aif" or p.get("branch_mode") != "interleaved" or _inner(viol.tag) != "data_order":
        return False
    b = p["branch"]
    return b != sorted(b)


def kf_xl_int_as_float(check_name, desc, viol):
    """Excel: ints come back as floats (value-equal), the isotherm is no longer == the original."""
    return desc["fmt"] == "xl" and _sp(desc).get("cls") == "int" and viol.tag == "eq_int_as_float"


def kf_xl_bigint(check_name, desc, viol):
    """Excel: ints beyond 2**53 silently lose digits."""
    return desc["fmt"] == "xl" and _sp(desc).get("cls") == "bigint" and viol.tag == "special:bigint:value"


def kf_xl_silent_nonscalar(check_name, desc, viol):
    """Excel: '' and [] come back as None, a list of text as the concatenated text - silently."""
    cls = _sp(desc).get("cls")
    if desc["fmt"] != "xl" or viol.tag != f"outside:{cls}:changed":
        return False
    if cls == "list_int":
        return decode(_sp(desc)["value"]) == []
    return cls in ("empty_text", "list_text")


def kf_xl_foreign_exception(check_name, desc, viol):
    """Excel: values xlwt cannot write (lists of numbers, tuples, dicts, text > 32767 chars) raise a bare Exception."""
    cls = _sp(desc).get("cls")
    return desc["fmt"] == "xl" and cls in ("list_int", "list_float", "list_nested", "list_text", "tuple", "dict", "long_text") \
        and viol.tag == f"outside:{cls}:foreign:Exception"
CHECKS.append(Check("csv_codec_fuzz", check_fuzz_campaign, mode="enum", cases=cases_fuzz, max_shards=2,
                    rule="thorough tier only: atheris/libFuzzer campaign (hypothesis fuzz_one_input as mutator, fixed -runs and "
                         "-seed, seeded and empty corpus) on one-entry CSV round trips; coverage from string_utilities and "
                         "parsing.csv; oracle and known-finding classes identical to csv_roundtrip / csv_outside"))



# ---- isotherms brought into their representation by a permanent conversion ------------------------------------------------
# (labels such as loading_unit = None for fraction / percent or pressure_unit = None for relative modes then come from
#  convert_*, not from the constructor; "every unit label" must survive the three formats for these as well)
def strat_converted():
    return st.builds(lambda fmt, iso, p, l, t: {"fmt": fmt, "iso": iso, "to_p": p, "to_l": l, "to_t": t},
                     st.sampled_from(["csv", "xl", "aif"]),
                     S.point_desc(min_points=1, max_points=8, extras=False, meta=False),
                     st.one_of(st.none(), S.p_rep()),
                     st.sampled_from([None, ("fraction", None), ("percent", None), ("fraction", None), ("percent", None),
                                      ("molar", "mol"), ("volume_liquid", "cm3")]),
                     st.sampled_from([None, "K", "°C"]))


def check_converted(desc, ctx):
    K.reset_registries()
    if desc["fmt"] == "csv" and "," in desc["iso"]["adsorbate"]:
        ctx.label("adsorbate_name_contains_separator_skipped")  # refused with ParsingError, which the property allows
        return
    x = K.build_point(desc["iso"])
    if desc["to_p"]:
        x.convert_pressure(mode_to=desc["to_p"][0], unit_to=desc["to_p"][1])
    if desc["to_l"]:
        x.convert_loading(basis_to=desc["to_l"][0], unit_to=desc["to_l"][1])
    if desc["to_t"]:
        x.convert_temperature(desc["to_t"])
    units = dict(x.units)
    fmt = desc["fmt"]
    tmp = tempfile.mkdtemp(prefix="c07conv_", dir="/dev/shm" if os.path.isdir("/dev/shm") else None)
    try:
        if fmt == "csv":
            r = pgp.isotherm_from_csv(pgp.isotherm_to_csv(x))
        elif fmt == "xl":
            path = os.path.join(tmp, "iso.xls")
            pgp.isotherm_to_xl(x, path)
            r = pgp.isotherm_from_xl(path)
        else:
            path = os.path.join(tmp, "iso.aif")
            pgp.isotherm_to_aif(x, path)
            r = pgp.isotherm_from_aif(path)
    finally:
        shutil.rmtree(tmp, ignore_errors=True)
    if not isinstance(r, pygaps.PointIsotherm):
        raise Violation(f"[{fmt}] a converted PointIsotherm ({len(x.data_raw)} points) came back as {type(r).__name__}",
                        tag=f"converted_class:{fmt}")
    got = dict(r.units)
    if got != units:
        diff = {k: (units[k], got.get(k)) for k in units if units[k] != got.get(k)}
        raise Violation(f"[{fmt}] isotherm converted to {units}: unit labels after the round trip differ: {diff}",
                        tag=f"converted_units:{fmt}")
    for col in (x.pressure_key, x.loading_key):
        a = x.data_raw[col].to_numpy(dtype=float)
        b = r.data_raw[r.pressure_key if col == x.pressure_key else r.loading_key].to_numpy(dtype=float)
        if a.shape != b.shape or not np.all(np.abs(a - b) <= 0.5e-8 + 1e-12 * np.abs(a)):
            raise Violation(f"[{fmt}] isotherm converted to {units}: column {col!r} {a.tolist()} came back as {b.tolist()}",
                            tag=f"converted_data:{fmt}")
    marks = [int(v) for v in x.data_raw["branch"]]
    if marks != [int(v) for v in r.data_raw["branch"]]:
        # AIF stores an adsorption loop followed by a desorption loop: interleaved marks are the open finding KF-C07-17
        if not (fmt == "aif" and sorted(marks) != marks):
            raise Violation(f"[{fmt}] isotherm converted to {units}: branch marks changed", tag=f"converted_branch:{fmt}")
    if str(r.adsorbate) != str(x.adsorbate) or str(r.material) != str(x.material) or \
            abs(float(r._temperature) - float(x._temperature)) > 1e-8 * max(1.0, abs(float(x._temperature))):
        raise Violation(f"[{fmt}] isotherm converted to {units}: adsorbate / material / temperature changed",
                        tag=f"converted_core:{fmt}")
    ctx.label(fmt, "lu_none" if units["loading_unit"] is None else "lu_set", "pu_none" if units["pressure_unit"] is None else "pu_set")
    ctx.nt([fmt, units, desc["iso"]["pressure"]], desc)


CHECKS.append(Check("converted_labels", check_converted, strategy=strat_converted, budget={"quick": 900, "thorough": 12000},
                    rule="point isotherms permanently converted (relative modes, fraction / percent, temperature unit) before "
                         "export: unit labels, data columns, branch marks and core fields after each format's round trip"))
