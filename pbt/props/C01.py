"""C01 - unit, pressure-mode and basis conversions are physically correct and consistent."""
import itertools

import numpy as np
import pandas as pd
from hypothesis import strategies as st

from pygaps.units import converter_mode as cm
from pygaps.utilities.exceptions import ParameterError

from pbt import case as K
from pbt import ref_units as ru
from pbt.core import Check, Violation, allclose

LEVEL = "exploration"
RULE = (
    "Cases = hypothesis-drawn (backend adsorbate, temperature inside (Tt,Tc), material density / molar mass, value "
    "vector); inside every case ALL ordered pairs and ALL ordered triples of the 10 pressure / 27 loading (x 19 "
    "material representations for the pairs) / 19 material representations are enumerated (finite sub-space "
    "exhaustive per case). Oracles: identity (exact), inverse and path independence (rel 1e-12), agreement with the "
    "independent canonical-form SI/CoolProp reference (rel 1e-9; 2e-4 where the library table holds a rounded "
    "constant), scalar/0-d/1-d/Series agreement and container preservation; refusals must be ParameterError. "
    "Non-trivial = a (pair-or-triple family, adsorbate, temperature, material) combination with non-identical "
    "representations; distinct by (check, adsorbate, rounded T, material, values)."
)
ASSUMPTIONS = [
    "CoolProp HEOS (high-level PropsSI) is the source of thermophysical truth for saturation pressure, molar mass "
    "and saturated liquid/vapour densities",
    "STP molar volume 22413.969 cm3/mol, mmHg 133.322387 Pa, amu 1.66053907e-24 g; library constants rounded to 4-6 "
    "digits are accepted within 2e-4",
    "a same-basis call with unit_to=None means 'keep the unit' (documented use at every call site), so it is not "
    "required to be refused",
]

TOL_ALG = 1e-12


def worker_init():
    K.reset_registries()


# ---------------------------------------------------------------------------------------------------------------------
_values = st.lists(
    st.one_of(
        st.just(0.0),
        st.floats(min_value=1e-12, max_value=1e12, allow_nan=False, allow_infinity=False),
        st.floats(min_value=-1e12, max_value=-1e-12, allow_nan=False, allow_infinity=False),
        st.integers(min_value=-1000, max_value=1000).map(float),
    ), min_size=1, max_size=4)


def _ads_T():
    tab = K.backend_table()
    return st.tuples(st.integers(0, len(tab) - 1), st.floats(0, 1)).map(
        lambda t: {"adsorbate": tab[t[0]][0], "T": K.temperature_for(tab[t[0]], t[1])})


def _entry(name):
    return next(e for e in K.backend_table() if e[0] == name)


def _ads_T_ends():
    """The far ends of "any temperature between its triple and critical point": a few hundredths of a kelvin below the
    critical temperature / above the lower end of the backend's saturation curve."""
    tab = K.backend_table()
    return st.tuples(st.integers(0, len(tab) - 1), st.sampled_from([-0.08, -0.05, -0.02, -0.005, 0.005, 0.05])).map(
        lambda t: {"adsorbate": tab[t[0]][0], "T": (tab[t[0]][3] + t[1]) if t[1] < 0 else (tab[t[0]][2] + t[1])})


def strat_pressure():
    return st.builds(lambda at, x: dict(at, x=x),
                     st.sampled_from([0, 0, 0, 0, 1]).flatmap(lambda k: _ads_T_ends() if k else _ads_T()), _values)


def strat_loading():
    return st.builds(lambda at, x, m: dict(at, x=x, mrep=m), _ads_T(), _values, st.integers(0, 18))


def strat_material():
    return st.builds(lambda d, mm, x: {"density": d, "molar_mass": mm, "x": x},
                     st.floats(0.05, 25.0), st.floats(10.0, 5000.0), _values)


# ---------------------------------------------------------------------------------------------------------------------
def _cmp(lib, ref, tol, what, tag):
    if not allclose(lib, ref, rel=tol):
        raise Violation(f"{what}: library {np.asarray(lib).tolist()} != expected {np.asarray(ref).tolist()} (rel tol {tol})",
                        tag=tag)


def check_pressure(desc, ctx):
    ads = K.get_adsorbate(desc["adsorbate"])
    fluid = _entry(desc["adsorbate"])[1]
    T = desc["T"]
    x = np.array(desc["x"], dtype=float)

    def conv(v, a, b):
        return cm.c_pressure(v, a[0], b[0], a[1], b[1], adsorbate=ads, temp=T)

    reps = ru.P_REPS
    if int(round(T * 1e6)) % 3 == 0:
        # earlier in the process: a user's private adsorbate of the SAME NAME (no backend, own vapour pressure) went
        # through the same conversions at the same temperature; the factor is the saturation pressure of the adsorbate
        # PASSED IN, whatever was converted before
        import pygaps
        priv = pygaps.Adsorbate(desc["adsorbate"], store=False, saturation_pressure=12345.6)
        for a in reps:
            if a[0] == "absolute":
                got = float(cm.c_pressure(1.0, "relative", "absolute", None, a[1], adsorbate=priv, temp=T))
                want = ru.conv_pressure(12345.6, ("absolute", "Pa"), a, fluid, T)
                if not abs(got - want) <= ru.tol_for(("absolute", "Pa"), a) * abs(want):
                    raise Violation(f"pressure relative->{a} with a private adsorbate {desc['adsorbate']!r} (saturation "
                                    f"pressure 12345.6 Pa given by the user): 1.0 -> {got!r}, expected {want!r}",
                                    tag="private_namesake")
        ctx.label("after_private_namesake")
    direct = {}
    for a in reps:
        for b in reps:
            y = conv(x, a, b)
            direct[a, b] = y
            if a == b:
                if not np.array_equal(y, x):
                    raise Violation(f"pressure identity {a}: {x.tolist()} -> {np.asarray(y).tolist()}", tag="identity")
                continue
            ref = np.array([ru.conv_pressure(v, a, b, fluid, T) for v in x])
            _cmp(y, ref, ru.tol_for(a, b), f"pressure {a}->{b} ({desc['adsorbate']} at {T} K)", "reference")
            back = conv(y, b, a)
            _cmp(back, x, TOL_ALG, f"pressure inverse {a}->{b}->{a}", "inverse")
    for a, b, c in itertools.product(reps, repeat=3):
        via = conv(direct[a, b], b, c)
        _cmp(via, direct[a, c], TOL_ALG, f"pressure path {a}->{b}->{c} vs direct", "triangle")
    ctx.label("pressure_case")
    ctx.nt(["P", desc["adsorbate"], round(T, 6), desc["x"]], desc)


def check_loading(desc, ctx):
    ads = K.get_adsorbate(desc["adsorbate"])
    fluid = _entry(desc["adsorbate"])[1]
    T = desc["T"]
    x = np.array(desc["x"], dtype=float)

    def conv(v, a, b, m):
        return cm.c_loading(v, a[0], b[0], a[1], b[1], adsorbate=ads, temp=T, basis_material=m[0], unit_material=m[1])

    reps = ru.L_REPS
    direct_m = None
    m_tri = ru.M_REPS[desc["mrep"]]
    for m in ru.M_REPS:
        direct = {}
        for a in reps:
            for b in reps:
                frac = a[1] is None or b[1] is None
                if not frac and m is not ru.M_REPS[0] and m is not m_tri:
                    continue  # the material representation is irrelevant for dimensional pairs: visit them twice only
                y = conv(x, a, b, m)
                direct[a, b] = y
                if a == b:
                    if not np.array_equal(y, x):
                        raise Violation(f"loading identity {a} (material {m}): {x.tolist()} -> {np.asarray(y).tolist()}",
                                        tag="identity")
                    continue
                ref = np.array([ru.conv_loading(v, a, b, fluid, T, m) for v in x])
                _cmp(y, ref, ru.tol_for(a, b, m if frac else None),
                     f"loading {a}->{b} material {m} ({desc['adsorbate']} at {T} K)", "reference")
                back = conv(y, b, a, m)
                _cmp(back, x, TOL_ALG, f"loading inverse {a}->{b}->{a} material {m}", "inverse")
        if m is m_tri:
            direct_m = direct
    for a, b, c in itertools.product(reps, repeat=3):
        via = conv(direct_m[a, b], b, c, m_tri)
        _cmp(via, direct_m[a, c], 4 * TOL_ALG, f"loading path {a}->{b}->{c} material {m_tri} vs direct", "triangle")
    ctx.label("loading_case")
    ctx.nt(["L", desc["adsorbate"], round(T, 6), desc["mrep"], desc["x"]], desc)


def check_material(desc, ctx):
    mat = K.FakeMaterial(desc["density"], desc["molar_mass"])
    x = np.array(desc["x"], dtype=float)

    def conv(v, a, b):
        return cm.c_material(v, a[0], b[0], a[1], b[1], material=mat)

    reps = ru.M_REPS
    direct = {}
    for a in reps:
        for b in reps:
            y = conv(x, a, b)
            direct[a, b] = y
            if a == b:
                if not np.array_equal(y, x):
                    raise Violation(f"material identity {a}: {x.tolist()} -> {np.asarray(y).tolist()}", tag="identity")
                continue
            ref = np.array([ru.conv_material(v, a, b, desc["density"], desc["molar_mass"]) for v in x])
            _cmp(y, ref, ru.tol_for(a, b), f"material {a}->{b} (density {desc['density']}, M {desc['molar_mass']})",
                 "reference")
            _cmp(conv(y, b, a), x, TOL_ALG, f"material inverse {a}->{b}->{a}", "inverse")
    for a, b, c in itertools.product(reps, repeat=3):
        _cmp(conv(direct[a, b], b, c), direct[a, c], 4 * TOL_ALG, f"material path {a}->{b}->{c} vs direct", "triangle")
    # the real Material class exposes the same two attributes
    ctx.label("material_case")
    ctx.nt(["M", round(desc["density"], 9), round(desc["molar_mass"], 9), desc["x"]], desc)


def check_temperature(desc, ctx):
    x = np.array(desc["x"], dtype=float)
    for a in ru.TEMPERATURE_UNITS:
        for b in ru.TEMPERATURE_UNITS:
            y = cm.c_temperature(x, a, b)
            if a == b:
                if not np.array_equal(y, x):
                    raise Violation(f"temperature identity {a}", tag="identity")
                continue
            ref = np.array([ru.conv_temperature(v, a, b) for v in x])
            # affine: absolute tolerance of a few ulp of the larger operand
            if not np.all(np.abs(y - ref) <= 1e-12 * np.maximum(np.abs(x), 273.15)):
                raise Violation(f"temperature {a}->{b}: {x.tolist()} -> {np.asarray(y).tolist()} expected {ref.tolist()}",
                                tag="reference")
            back = cm.c_temperature(y, b, a)
            if not np.all(np.abs(back - x) <= 1e-12 * np.maximum(np.abs(x), 273.15)):
                raise Violation(f"temperature inverse {a}->{b}->{a}", tag="inverse")
    # spelling variants accepted by the library for Celsius must behave as °C
    for alias in ("C", "c", "°C"):
        y = cm.c_temperature(x, "K", alias)
        if not np.all(np.abs(y - (x - 273.15)) <= 1e-12 * np.maximum(np.abs(x), 273.15)):
            raise Violation(f"temperature K->{alias!r} wrong", tag="reference")
    ctx.nt(["T", desc["x"]], desc)


# ---- scalar / array agreement -------------------------------------------------------------------------------------
def strat_containers():
    tab_n = len(K.backend_table())
    return st.builds(
        lambda at, x, q, i, j, m, d, mm: dict(at, x=x, quantity=q, i=i, j=j, mrep=m, density=d, molar_mass=mm),
        _ads_T(), _values, st.sampled_from(["pressure", "loading", "material"]),
        st.integers(0, 26), st.integers(0, 26), st.integers(0, 18), st.floats(0.05, 25.0), st.floats(10.0, 5000.0))


def check_containers(desc, ctx):
    ads = K.get_adsorbate(desc["adsorbate"])
    T = desc["T"]
    q = desc["quantity"]
    if q == "pressure":
        reps = ru.P_REPS
        a, b = reps[desc["i"] % len(reps)], reps[desc["j"] % len(reps)]

        def conv(v):
            return cm.c_pressure(v, a[0], b[0], a[1], b[1], adsorbate=ads, temp=T)
    elif q == "loading":
        reps = ru.L_REPS
        a, b = reps[desc["i"] % len(reps)], reps[desc["j"] % len(reps)]
        m = ru.M_REPS[desc["mrep"]]

        def conv(v):
            return cm.c_loading(v, a[0], b[0], a[1], b[1], adsorbate=ads, temp=T, basis_material=m[0],
                                unit_material=m[1])
    else:
        reps = ru.M_REPS
        a, b = reps[desc["i"] % len(reps)], reps[desc["j"] % len(reps)]
        mat = K.FakeMaterial(desc["density"], desc["molar_mass"])

        def conv(v):
            return cm.c_material(v, a[0], b[0], a[1], b[1], material=mat)

    xs = desc["x"]
    arr = np.array(xs, dtype=float)
    y_arr = conv(arr)
    if not isinstance(y_arr, np.ndarray) or y_arr.shape != arr.shape:
        raise Violation(f"{q} {a}->{b}: ndarray in, {type(y_arr).__name__} out", tag="container")
    ser = pd.Series(xs, index=[f"r{k}" for k in range(len(xs))], dtype=float)
    y_ser = conv(ser)
    if not isinstance(y_ser, pd.Series) or list(y_ser.index) != list(ser.index):
        raise Violation(f"{q} {a}->{b}: Series in, {type(y_ser).__name__} out / index changed", tag="container")
    if not allclose(y_ser.to_numpy(), y_arr, rel=1e-15):
        raise Violation(f"{q} {a}->{b}: Series and ndarray results differ", tag="elementwise")
    for k, v in enumerate(xs):
        y_f = conv(float(v))
        y_0 = conv(np.float64(v))
        y_0d = conv(np.array(float(v)))
        if not (np.ndim(y_f) == 0 and np.ndim(y_0) == 0 and np.ndim(y_0d) == 0):
            raise Violation(f"{q} {a}->{b}: scalar in, non-scalar out", tag="container")
        if not (allclose(y_f, y_arr[k], rel=1e-15) and allclose(y_0, y_arr[k], rel=1e-15) and
                allclose(float(y_0d), y_arr[k], rel=1e-15)):
            raise Violation(f"{q} {a}->{b}: scalar result {y_f} differs from array element {y_arr[k]}", tag="elementwise")
        if float(v).is_integer():
            y_i = conv(int(v))
            if not allclose(y_i, y_arr[k], rel=1e-15):
                raise Violation(f"{q} {a}->{b}: int input {int(v)} gives {y_i}, float gives {y_arr[k]}", tag="elementwise")
    # input must not be modified in place
    if not np.array_equal(arr, np.array(xs, dtype=float)) or not np.array_equal(ser.to_numpy(), np.array(xs, dtype=float)):
        raise Violation(f"{q} {a}->{b}: input container modified in place", tag="inplace")
    if a != b:
        ctx.nt([q, a, b, desc["adsorbate"]], desc)
    ctx.label(q)


# ---- refusals -----------------------------------------------------------------------------------------------------------
_UNKNOWN = ["", "xx", "Bar", "MMOL", "gram", "kelvin", "volume", "absolut", "relative %", "percentage", "mmol", "g",
            "cm3", "bar", "K", "molar", "mass",
            # names that are valid in ANOTHER slot / table (a basis of another quantity, a mode, a unit of another basis)
            "volume_gas", "volume_liquid", "percent", "fraction", "relative", "absolute", "relative%", "torr", "kg",
            "cm3(STP)", "mol", "°C"]


def strat_refusal():
    return st.builds(
        lambda at, q, i, j, m, slot, bad, x: dict(at, quantity=q, i=i, j=j, mrep=m, slot=slot, bad=bad, x=x),
        _ads_T(), st.sampled_from(["pressure", "loading", "material", "temperature"]),
        st.integers(0, 26), st.integers(0, 26), st.integers(0, 18),
        st.sampled_from(["mode_from", "mode_to", "unit_from", "unit_to", "unit_both", "basis_material", "unit_material"]),
        st.one_of(st.none(), st.sampled_from(_UNKNOWN)),
        st.floats(1e-3, 1e3))


def check_refusal(desc, ctx):
    """Corrupt exactly one argument of an otherwise valid call so that a unit / mode / basis the conversion has to
    consult is missing or unknown: the call must raise ParameterError."""
    ads = K.get_adsorbate(desc["adsorbate"])
    T = desc["T"]
    q, slot, bad, x = desc["quantity"], desc["slot"], desc["bad"], desc["x"]
    if q == "temperature":
        units = list(ru.TEMPERATURE_UNITS)
        a, b = units[desc["i"] % 2], units[desc["j"] % 2]
        if slot not in ("unit_from", "unit_to"):
            return
        if bad is not None and ("c" in bad.lower() or bad in units):
            return
        args = {"unit_from": a, "unit_to": b}
        args[slot] = bad
        call = lambda: cm.c_temperature(x, args["unit_from"], args["unit_to"])  # noqa
        label = f"c_temperature({args})"
    else:
        if q == "pressure":
            reps, modes, tables = ru.P_REPS, ru.PRESSURE_MODES, {"absolute": ru.PRESSURE_PA}
        elif q == "loading":
            reps, modes, tables = ru.L_REPS, tuple(ru.LOADING_BASES), ru.LOADING_BASES
        else:
            reps, modes, tables = ru.M_REPS, tuple(ru.MATERIAL_BASES), ru.MATERIAL_BASES
        a, b = reps[desc["i"] % len(reps)], reps[desc["j"] % len(reps)]
        m = ru.M_REPS[desc["mrep"]]
        args = {"mode_from": a[0], "mode_to": b[0], "unit_from": a[1], "unit_to": b[1],
                "basis_material": m[0], "unit_material": m[1]}
        if slot in ("mode_from", "mode_to"):
            if bad in modes:
                return
            # an unknown mode/basis is always consulted
        elif slot == "unit_both":
            # the same unknown unit on both sides: still an unknown unit that the conversion is asked to honour
            if not bad or all(bad in t for t in tables.values() if t is not None and
                              (tables.get(args["mode_from"]) is t or tables.get(args["mode_to"]) is t)):
                return
            if tables.get(args["mode_from"]) is None and tables.get(args["mode_to"]) is None:
                return  # both sides dimensionless: no unit is consulted
            bad_from = tables.get(args["mode_from"]) is not None and bad not in tables[args["mode_from"]]
            bad_to = tables.get(args["mode_to"]) is not None and bad not in tables[args["mode_to"]]
            if not (bad_from or bad_to):
                return
            args["unit_from"] = bad
            args["unit_to"] = bad
            slot = "unit_to"
        elif slot in ("unit_from", "unit_to"):
            side_mode = args["mode_from"] if slot == "unit_from" else args["mode_to"]
            table = tables.get(side_mode)
            if table is None:
                return  # dimensionless side: its unit is not consulted
            if bad is not None and bad in table:
                return
            same = args["mode_from"] == args["mode_to"]
            if same:
                # same mode/basis: unit_to=None means "keep"; the units are consulted only when a (different)
                # target unit is requested
                if slot == "unit_to" and not bad:
                    return
                if slot == "unit_from" and (not args["unit_to"] or args["unit_to"] == bad):
                    return
        else:
            if q != "loading":
                return
            fr = (args["mode_from"] in ("fraction", "percent")) != (args["mode_to"] in ("fraction", "percent"))
            if not fr:
                return  # the material representation is consulted only between fraction/percent and a dimensional basis
            if slot == "basis_material":
                if bad in ru.MATERIAL_BASES:
                    return
            else:
                if bad is not None and bad in ru.MATERIAL_BASES[args["basis_material"]]:
                    return
        if desc["slot"] != "unit_both":
            args[slot] = bad
        if q == "pressure":
            call = lambda: cm.c_pressure(x, args["mode_from"], args["mode_to"], args["unit_from"], args["unit_to"],  # noqa
                                         adsorbate=ads, temp=T)
        elif q == "loading":
            call = lambda: cm.c_loading(x, args["mode_from"], args["mode_to"], args["unit_from"], args["unit_to"],  # noqa
                                        adsorbate=ads, temp=T, basis_material=args["basis_material"],
                                        unit_material=args["unit_material"])
        else:
            mat = K.FakeMaterial(1.3, 250.0)
            call = lambda: cm.c_material(x, args["mode_from"], args["mode_to"], args["unit_from"], args["unit_to"],  # noqa
                                         material=mat)
        label = f"c_{q}({args})"
    try:
        res = call()
    except ParameterError:
        ctx.label("refused_" + q)
        ctx.nt([q, slot, bad, desc["i"], desc["j"]], desc)
        return
    except Exception as e:  # noqa
        raise Violation(f"{label}: refused with {type(e).__name__} ({e}) instead of ParameterError",
                        tag=f"refusal_type:{q}:{slot}:{type(e).__name__}")
    raise Violation(f"{label}: returned {res!r} instead of raising ParameterError", tag=f"refusal_number:{q}:{slot}")


CHECKS = [
    Check("pressure_laws", check_pressure, strategy=strat_pressure, budget={"quick": 96, "thorough": 1600},
          exhaustive=True, rule="all 100 ordered pairs and 1000 ordered triples of pressure representations per case"),
    Check("loading_laws", check_loading, strategy=strat_loading, budget={"quick": 64, "thorough": 800},
          exhaustive=True, shrink_quick=False,
          rule="all 729 ordered pairs (fraction/percent pairs x all 19 material representations) and 19683 ordered "
               "triples of loading representations per case"),
    Check("material_laws", check_material, strategy=strat_material, budget={"quick": 96, "thorough": 1600},
          exhaustive=True, rule="all 361 ordered pairs and 6859 ordered triples of material representations per case"),
    Check("temperature_laws", check_temperature, strategy=lambda: _values.map(lambda x: {"x": x}),
          budget={"quick": 200, "thorough": 3000}, rule="K / degC pairs incl. the 'C' spelling"),
    Check("containers", check_containers, strategy=strat_containers, budget={"quick": 3000, "thorough": 60000},
          rule="python float/int, numpy scalar, 0-d, 1-d array and pandas Series through one generated pair"),
    Check("refusals", check_refusal, strategy=strat_refusal, budget={"quick": 6000, "thorough": 100000},
          rule="one consulted unit/mode/basis argument missing or unknown -> ParameterError"),
]
