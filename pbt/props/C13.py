"""C13 - IAST results satisfy the IAST equations and known closed forms."""
import itertools
import math

import numpy as np
from hypothesis import strategies as st

import pygaps
from pygaps.iast import pgiast
from pygaps.modelling import get_isotherm_model
from pygaps.utilities.exceptions import CalculationError

from pbt import case as K
from pbt import ref_iast_C13 as R
from pbt.core import Check, Inconclusive, Violation

LEVEL = "exploration"
RULE = (
    "Cases = hypothesis-drawn mixtures of 2-4 components; every component is a ModelIsotherm built from a model "
    "instance (Henry, Langmuir, DSLangmuir, TSLangmuir, Quadratic with Ka>0,Kb>=0, BET with N=0, TemkinApprox with "
    "0<=tht<=3, Toth, JensenSeaton: the IAST whitelist restricted to spreading pressures defined for all p>0) with "
    "log-uniform parameters (capacity scale 1e-2..1e2 x 0.2..2, affinities 3e-2..3e1, exponents 0.3..3), or a "
    "PointIsotherm sampled from such a model on a geometric grid of 20-120 points spanning 1e-6..1e-3 to 1e4..1e7; "
    "partial pressures log-uniform in 1e-2..3e1 (optionally one component scaled down to make it a trace); starting "
    "guess default / random simplex point / perturbed solution. Oracles: recomputed residuals of the IAST equations "
    "with the isotherms' own spreading_pressure_at / loading_at, agreement with an independent one-dimensional "
    "bracketing reference solver, the Henry and extended-Langmuir closed forms, all permutations of the components, "
    "reverse_iast -> iast_point_fraction round trip (dyadic adsorbed fractions), bit-exact agreement of the fraction "
    "/ selectivity / vapour-liquid helpers with the point calculation. Non-trivial = the library call returned and "
    "the reference solution has min x >= 1e-9; distinct by the full descriptor."
)
ASSUMPTIONS = [
    "the pure-component spreading pressure is the isotherm's own spreading_pressure_at (its correctness is C11): a "
    "TemkinApprox component is judged with the library's (offset) antiderivative on both sides",
    "the IAST solution is unique because every spreading pressure used is strictly increasing in p",
    "tolerances: spreading pressures equal within 1e-6 of their mean (the lm solver's xtol/ftol are 1.49e-8; two "
    "decades of slack); mole fractions vs reference within 2e-6*Pi/n0_i relative (what a 1e-6 spread of Pi implies "
    "through dln p0/dPi = 1/n0) + 1e-9; total loading (mixing rule, pure arithmetic) 1e-10; permutations and round "
    "trips twice the single-solve tolerance; helper functions bit-exact",
    "the property is conditional on the calculation returning: any exception raised by the IAST entry point "
    "(CalculationError from the solver checks or a point isotherm's range guard, scipy's ValueError when a point "
    "isotherm is interpolated outside its data, TypeError/ZeroDivisionError/OverflowError from the Toth and "
    "Jensen-Seaton quadrature when an lm iterate has a negative mole fraction) makes no claim; counted as "
    "inconclusive and labelled per exception type",
    "components with reference mole fraction below ~1e-87 (fictitious pressure beyond e^200) are outside the explored domain",
]

ADS = ["methane", "ethane", "propane", "butane"]
TRACE = 1e-4          # a component with reference mole fraction below this is called a trace (evidence label, KF class)
EPS_PI = 1e-6         # relative spread allowed between the components' spreading pressures
ISO_UNITS = dict(pressure_mode="absolute", pressure_unit="bar", loading_basis="molar", loading_unit="mmol",
                 material_basis="mass", material_unit="g", temperature_unit="K")


def worker_init():
    K.reset_registries()


def self_validate():
    R.self_validate()


# ---------------------------------------------------------------------------------------------------------------------
# generators
def _r6(v):
    return float(f"{v:.6g}")


def _lg(lo, hi):
    return st.floats(math.log10(lo), math.log10(hi)).map(lambda e: _r6(10 ** e))


def _params(draw, name, s):
    cap = lambda a=0.5, b=2.0: _r6(s * draw(_lg(a, b)))  # noqa
    aff = lambda: draw(_lg(3e-2, 3e1))  # noqa
    expo = lambda: draw(_lg(0.3, 3.0))  # noqa
    if name == "Henry":
        return {"K": _r6(s * aff())}
    if name == "Langmuir":
        return {"K": aff(), "n_m": cap()}
    if name == "DSLangmuir":
        return {"n_m1": cap(0.2, 1.5), "K1": aff(), "n_m2": cap(0.2, 1.5), "K2": aff()}
    if name == "TSLangmuir":
        return {"n_m1": cap(0.2, 1.5), "K1": aff(), "n_m2": cap(0.2, 1.5), "K2": aff(), "n_m3": cap(0.2, 1.5), "K3": aff()}
    if name == "Quadratic":
        return {"n_m": cap(0.2, 2), "Ka": aff(), "Kb": draw(st.one_of(st.just(0.0), _lg(1e-4, 1e2)))}
    if name == "BET":
        return {"n_m": cap(), "C": aff(), "N": 0.0}
    if name == "TemkinApprox":
        return {"n_m": cap(), "K": aff(), "tht": _r6(draw(st.floats(0.0, 3.0)))}
    if name == "Toth":
        return {"n_m": cap(), "K": aff(), "t": expo()}
    if name == "JensenSeaton":
        return {"K": _r6(s * aff()), "a": cap(), "b": draw(_lg(1e-4, 1e-1)), "c": expo()}
    raise KeyError(name)


ALL_MODELS = ["Langmuir", "DSLangmuir", "Toth", "Quadratic", "TemkinApprox", "Henry", "JensenSeaton", "TSLangmuir", "BET"]
CHEAP_MODELS = ["Langmuir", "DSLangmuir", "Quadratic", "TemkinApprox", "Henry", "TSLangmuir", "BET"]


@st.composite
def _component(draw, s, models, kinds):
    name = draw(st.sampled_from(models))
    comp = {"kind": draw(st.sampled_from(kinds)), "model": name, "params": _params(draw, name, s)}
    if comp["kind"] == "point":
        # the first data pressure is usually far below every partial pressure; in 1 of 5 point isotherms it is not, so
        # that fictitious pressures below the measured range occur (the library refuses there, or - if it answers - the
        # answer must obey the equations with the Henry continuation of the data)
        lo = draw(_lg(0.05, 2.0)) if draw(st.sampled_from([False, False, False, False, True])) else draw(_lg(1e-6, 1e-3))
        comp["grid"] = [lo, draw(_lg(1e4, 1e7)), draw(st.integers(20, 120))]
        comp["prime"] = draw(st.booleans())
        # one measured isotherm in three also carries a desorption leg on ANOTHER curve (hysteresis): the default
        # calculation is about the adsorption branch, whatever else the table holds
        comp["hysteresis"] = draw(st.sampled_from([0.0, 0.0, 1.25]))
    return comp


@st.composite
def _guess(draw, n):
    mode = draw(st.sampled_from(["default", "default", "default", "near", "near", "simplex"]))
    if mode == "default":
        return None
    w = [draw(st.floats(0.02, 1.0)) for _ in range(n)]
    return {"mode": mode, "w": [_r6(v) for v in w]}


@st.composite
def _mixture(draw, n_min=2, n_max=4, models=ALL_MODELS, kinds=("model", "model", "point"), pressures=True):
    n = draw(st.integers(n_min, n_max))
    s = draw(_lg(1e-2, 1e2))
    comps = [draw(_component(s, models, kinds)) for _ in range(n)]
    d = {"comps": comps}
    if pressures:
        p = [draw(_lg(1e-2, 3e1)) for _ in range(n)]
        if draw(st.integers(0, 6)) == 0:  # one deliberate trace component
            j = draw(st.integers(0, n - 1))
            p[j] = _r6(max(1e-3, p[j] * draw(_lg(1e-6, 1e-2)))) if comps[j]["kind"] == "point" else \
                _r6(p[j] * draw(_lg(1e-8, 1e-2)))
        d["p"] = p
        d["guess"] = draw(_guess(n))
        d["as_list"] = draw(st.booleans())
        d["warningoff"] = draw(st.booleans())
    return d


# ---------------------------------------------------------------------------------------------------------------------
# building
def _model(comp):
    return get_isotherm_model(comp["model"], parameters=dict(comp["params"]), pressure_range=(1e-3, 1e2),
                              loading_range=(0.0, 1.0))


def build(comp, i):
    """descriptor -> (library isotherm, reference pure component)."""
    m = _model(comp)
    if comp["kind"] == "model":
        iso = pygaps.ModelIsotherm(model=m, branch="ads", material="m-0", adsorbate=ADS[i % 4], temperature=300.0,
                                   **ISO_UNITS)
        return iso, R.ModelPure(iso)
    lo, hi, npts = comp["grid"]
    P = np.geomspace(lo, hi, int(npts))
    L = np.asarray(m.loading(P), dtype=float)
    if comp.get("hysteresis"):
        Pd = P[::-1][1:]
        Ld = np.asarray(m.loading(Pd), dtype=float) * comp["hysteresis"]
        iso = pygaps.PointIsotherm(pressure=P.tolist() + Pd.tolist(), loading=L.tolist() + Ld.tolist(),
                                   branch=[False] * len(P) + [True] * len(Pd), material="m-0", adsorbate=ADS[i % 4],
                                   temperature=300.0, **ISO_UNITS)
    else:
        iso = pygaps.PointIsotherm(pressure=P.tolist(), loading=L.tolist(), branch="guess", material="m-0",
                                   adsorbate=ADS[i % 4], temperature=300.0, **ISO_UNITS)
    if comp.get("prime"):
        iso.loading_at(float(P[len(P) // 2]))  # creates the cached interpolator (activates the range guard)
    return iso, R.PointPure(P, L)


def build_all(comps, order=None):
    order = list(range(len(comps))) if order is None else order
    pairs = [build(comps[j], j) for j in order]
    return [a for a, _ in pairs], [b for _, b in pairs]


def reference(pures, p, ctx):
    try:
        return R.ref_iast(pures, p)
    except R.OutOfDomain:
        ctx.label("outside_domain(no representable solution / beyond point data)")
        return None


def make_guess(g, ref, n):
    if g is None:
        return None
    w = np.asarray(g["w"][:n], dtype=float)
    if g["mode"] == "near" and ref is not None:
        w = ref["x"] * (0.5 + w)
    w = np.maximum(w, 1e-300)
    return (w / w.sum()).tolist()


def call(fn, ctx, *a, **kw):
    """Run a library IAST entry point. The property speaks about calculations that RETURN: a raised exception of any
    kind (CalculationError from the solver checks; scipy's ValueError when a point isotherm is asked outside its data;
    TypeError / ZeroDivisionError / OverflowError from Toth / Jensen-Seaton quadrature when an lm iterate has a
    negative mole fraction) makes no claim. Counted per exception type in the evidence labels."""
    try:
        return fn(*a, **kw)
    except Exception as e:  # noqa - see docstring; only the single library call is inside this try
        ctx.label(f"refused:{type(e).__name__}")
        raise Inconclusive()


# models whose spreading pressure is re-integrated independently (TemkinApprox: open finding of C11, constant offset; BET:
# pole at 1/K inside the range of fictitious pressures)
_SP_BY_QUADRATURE = ("Henry", "Langmuir", "DSLangmuir", "TSLangmuir", "Quadratic", "Toth", "JensenSeaton")


def _sp_quadrature(iso, p0):
    """int_0^p0 n(p)/p dp = int_{-inf}^{ln p0} n(e^u) du with the Henry tail below e^(u_lo) added in closed form."""
    from scipy import integrate
    u_hi = math.log(p0)
    u_lo = u_hi - 60.0

    def f(u):
        return float(np.ravel(np.asarray(iso.loading_at(math.exp(u)), dtype=float))[0])

    try:
        with np.errstate(all="ignore"):
            val, err = integrate.quad(f, u_lo, u_hi, limit=400, epsabs=0.0, epsrel=1e-10)
            tail = f(u_lo)
    except Exception:  # noqa - a model that cannot be evaluated there makes no reference
        return None
    if not (math.isfinite(val) and math.isfinite(tail)) or err > 1e-7 * abs(val):
        return None
    return val + tail


def _xmin_label(ref):
    xm = float(ref["x"].min())
    if xm >= 1e-2:
        return "xmin>=1e-2"
    if xm >= TRACE:
        return "xmin 1e-4..1e-2"
    if xm >= 1e-9:
        return "trace 1e-9..1e-4"
    return "trace <1e-9"


def tol_x(ref):
    """Relative tolerance on each mole fraction implied by a relative spread EPS_PI of the spreading pressures."""
    return 2.0 * EPS_PI * ref["pi"] / ref["n0"] + 1e-9


def _fmt(v):
    return np.asarray(v, dtype=float).tolist()


def assess(isos, pures, p, loadings, ref, what, ctx):
    """All clauses of 'the returned loadings satisfy the IAST equations' for one returned result."""
    p = np.asarray(p, dtype=float)
    n = len(isos)
    detail = {"min_x_ref": float(ref["x"].min())} if ref is not None else {}
    l = np.asarray(loadings, dtype=float)
    if l.shape != (n,):
        raise Violation(f"{what}: returned shape {l.shape} for {n} components", tag="shape", detail=detail)
    if not np.all(np.isfinite(l)):
        raise Violation(f"{what}: returned loadings {_fmt(l)} are not finite (p={_fmt(p)})", tag="nonfinite", detail=detail)
    if np.any(l < 0) or not l.sum() > 0:
        raise Violation(f"{what}: returned loadings {_fmt(l)} give adsorbed mole fractions outside [0,1] (p={_fmt(p)})",
                        tag="fraction_range", detail=detail)
    x = l / l.sum()
    detail["min_x_ret"] = float(x.min())
    if abs(float(x.sum()) - 1.0) > 1e-12 or np.any(x > 1.0):
        raise Violation(f"{what}: mole fractions {_fmt(x)} do not sum to one", tag="fraction_range", detail=detail)
    if np.any(x == 0.0):
        raise Violation(f"{what}: a component with positive partial pressure has zero loading: {_fmt(l)} (p={_fmt(p)})",
                        tag="nonfinite", detail=detail)
    p0 = p / x
    sp = np.empty(n)
    n0 = np.empty(n)
    for i in range(n):
        try:
            try:
                sp[i] = float(isos[i].spreading_pressure_at(p0[i], branch="ads"))
            except CalculationError:
                sp[i] = pures[i].sp(float(p0[i]))  # library range guard (depends on its cache); same function, own code
                ctx.label("sp_by_reference_formula")
            try:
                n0[i] = float(isos[i].loading_at(p0[i], branch="ads"))
            except ValueError:
                # p_i/x_i recomputed here from the returned loadings can fall an ulp outside the data range of a point
                # isotherm (the library evaluated its own p_i/x_i): same function, own code
                n0[i] = pures[i].load(float(p0[i]))
                ctx.label("n0_by_reference_formula")
        except (OverflowError, ZeroDivisionError, R.OutOfDomain) as e:
            raise Violation(f"{what}: the pure isotherm {i} cannot be evaluated at the fictitious pressure p_i/x_i = "
                            f"{p0[i]!r} implied by the returned loadings {_fmt(l)} ({type(e).__name__}); p={_fmt(p)}",
                            tag="nonfinite", detail=detail)
    if not (np.all(np.isfinite(sp)) and np.all(np.isfinite(n0)) and np.all(n0 > 0)):
        raise Violation(f"{what}: spreading pressures {_fmt(sp)} / pure loadings {_fmt(n0)} at the fictitious pressures "
                        f"{_fmt(p0)} are not finite; returned loadings {_fmt(l)}, p={_fmt(p)}", tag="nonfinite",
                        detail=detail)
    # the spreading pressure of a MODEL component is the integral of its own loading over ln p (the definition the clause
    # relies on): the library's closed form / quadrature is compared with an independent quadrature of loading_at
    for i in range(n):
        iso = isos[i]
        if isinstance(pures[i], R.ModelPure) and iso.model.name in _SP_BY_QUADRATURE and p0[i] < 1e6:
            ref_sp = _sp_quadrature(iso, float(p0[i]))
            if ref_sp is not None and not abs(sp[i] - ref_sp) <= 1e-6 * abs(ref_sp) + 1e-12:
                raise Violation(f"{what}: component {i} ({iso.model.name} {dict(iso.model.params)}): spreading pressure "
                                f"{sp[i]!r} at p_i/x_i = {p0[i]!r} is not the integral of loading/p over (0, p] = {ref_sp!r}",
                                tag="sp_not_the_integral", detail=detail)
    mean = float(np.mean(np.abs(sp)))
    spread = float(sp.max() - sp.min())
    if not spread <= EPS_PI * mean:
        raise Violation(
            f"{what}: spreading pressures at the fictitious pressures p_i/x_i differ: {_fmt(sp)} (rel. spread "
            f"{spread / mean:.3g} > {EPS_PI}); p={_fmt(p)}, returned loadings {_fmt(l)}"
            + (f", reference solution x={_fmt(ref['x'])} loadings={_fmt(ref['loadings'])}" if ref is not None else ""),
            tag="sp_unequal", detail=detail)
    nt = 1.0 / float(np.sum(x / n0))
    if not abs(nt - float(l.sum())) <= 1e-10 * nt:
        raise Violation(f"{what}: total loading {float(l.sum())!r} != 1/sum(x_i/n_i0(p_i0)) = {nt!r} (x={_fmt(x)}, "
                        f"n0={_fmt(n0)})", tag="mixing_rule", detail=detail)
    if ref is not None:
        tol = tol_x(ref)
        bad = np.abs(x - ref["x"]) > tol * ref["x"]
        if np.any(bad):
            raise Violation(f"{what}: mole fractions {_fmt(x)} differ from the reference solution {_fmt(ref['x'])} "
                            f"(rel. tolerance {_fmt(tol)}); p={_fmt(p)}", tag="x_vs_ref", detail=detail)
        if not abs(float(l.sum()) - ref["n_total"]) <= 4.0 * float(tol.max()) * ref["n_total"]:
            raise Violation(f"{what}: total loading {float(l.sum())!r} differs from the reference {ref['n_total']!r}",
                            tag="total_vs_ref", detail=detail)
    return x


def _classify(desc, ref, ctx):
    ctx.label(f"n={len(desc['comps'])}")
    kinds = {c["kind"] for c in desc["comps"]}
    ctx.label("kinds:" + "+".join(sorted(kinds)))
    for c in desc["comps"]:
        ctx.label("model:" + c["model"])
    if ref is not None:
        ctx.label(_xmin_label(ref))
    g = desc.get("guess")
    ctx.label("guess:" + (g["mode"] if g else "default"))


def _nt(desc, ref, ctx):
    if ref is not None and float(ref["x"].min()) >= 1e-9:
        ctx.nt(desc, desc)


# ---------------------------------------------------------------------------------------------------------------------
# 1. the equations
def strat_equations():
    # one case in five: measured isotherms only (the shape that can be converted in place between two calculations)
    return st.sampled_from([0, 0, 0, 0, 1]).flatmap(lambda k: _mixture(n_max=3, kinds=("point",)) if k else _mixture())


def check_equations(desc, ctx):
    isos, pures = build_all(desc["comps"])
    p = desc["p"]
    ref = reference(pures, p, ctx)
    _classify(desc, ref, ctx)
    if ref is None:
        raise Inconclusive()
    guess = make_guess(desc["guess"], ref, len(isos))
    arg = list(p) if desc["as_list"] else np.array(p)
    l = call(pgiast.iast_point, ctx, isos, arg, warningoff=desc["warningoff"], adsorbed_mole_fraction_guess=guess)
    ctx.label("returned", "returned:" + _xmin_label(ref))
    assess(isos, pures, p, l, ref, "iast_point", ctx)
    if all(c["kind"] == "point" for c in desc["comps"]):
        # the same isotherm objects converted in place to another pressure unit, then the same physical state asked
        # again in that unit: the equations hold for the isotherms as they now stand
        f = 1.0 / 1.01325
        for iso in isos:
            iso.convert_pressure(unit_to="atm")
        pures2 = [R.PointPure(pu.P * f, pu.L) for pu in pures]
        p2 = [v * f for v in p]
        arg2 = list(p2) if desc["as_list"] else np.array(p2)
        l2 = call(pgiast.iast_point, ctx, isos, arg2, warningoff=desc["warningoff"], adsorbed_mole_fraction_guess=guess)
        ctx.label("returned_after_inplace_conversion")
        x2 = assess(isos, pures2, p2, l2, ref, "iast_point after convert_pressure('atm') of the same objects", ctx)
        for i, iso in enumerate(isos):
            q = float(p2[i] / x2[i])
            if q <= pures2[i].pmax:
                got, want = float(iso.spreading_pressure_at(q)), pures2[i].sp(q)
                if not abs(got - want) <= 1e-9 * abs(want):
                    raise Violation(f"component {i} after convert_pressure('atm'): spreading_pressure_at({q!r}) = {got!r}, "
                                    f"integral of the converted data = {want!r}", tag="sp_stale_after_conversion")
    _nt(desc, ref, ctx)


# ---------------------------------------------------------------------------------------------------------------------
# 2. closed forms
@st.composite
def strat_closed(draw):
    n = draw(st.integers(2, 4))
    form = draw(st.sampled_from(["henry", "langmuir"]))
    d = {"form": form, "K": [draw(_lg(1e-2, 1e2)) for _ in range(n)], "p": [draw(_lg(1e-2, 1e2)) for _ in range(n)],
         "guess": draw(_guess(n))}
    if form == "langmuir":
        d["n_m"] = draw(_lg(1e-2, 1e2))
        # a Langmuir component may be written as the Toth model with t = 1 (same equation, numerical spreading pressure)
        d["as_toth"] = [draw(st.sampled_from([False, False, True])) for _ in range(n)]
    if draw(st.integers(0, 5)) == 0:
        j = draw(st.integers(0, n - 1))
        d["p"][j] = _r6(d["p"][j] * draw(_lg(1e-8, 1e-2)))
    # how the partial pressures are handed over: float array (usual), or integral values as python ints / integer arrays
    d["ptype"] = draw(st.sampled_from(["float_array"] * 4 + ["float_list", "int_list", "int_tuple", "int_array"]))
    if d["ptype"].startswith("int"):
        d["p"] = [draw(st.integers(1, 30)) for _ in range(n)]
    return d


def _as_ptype(p, ptype):
    if ptype == "int_list":
        return [int(v) for v in p]
    if ptype == "int_tuple":
        return tuple(int(v) for v in p)
    if ptype == "int_array":
        return np.array([int(v) for v in p], dtype=np.int64)
    if ptype == "float_list":
        return [float(v) for v in p]
    return np.array(p, dtype=float)


def check_closed(desc, ctx):
    n = len(desc["K"])
    if desc["form"] == "henry":
        comps = [{"kind": "model", "model": "Henry", "params": {"K": k}} for k in desc["K"]]
        want = R.henry_mixture(desc["K"], desc["p"])
    else:
        as_toth = desc.get("as_toth") or [False] * n
        comps = [{"kind": "model", "model": "Toth", "params": {"K": k, "n_m": desc["n_m"], "t": 1.0}} if tt else
                 {"kind": "model", "model": "Langmuir", "params": {"K": k, "n_m": desc["n_m"]}}
                 for k, tt in zip(desc["K"], as_toth)]
        if any(as_toth):
            ctx.label("langmuir_written_as_toth")
        want = R.extended_langmuir(desc["n_m"], desc["K"], desc["p"])
    isos, pures = build_all(comps)
    xw = want / want.sum()
    # tolerance from the closed form itself: Pi/n0_i at the solution
    kp = float(np.sum(np.asarray(desc["K"]) * np.asarray(desc["p"])))
    if desc["form"] == "henry":
        ratio = np.ones(n)  # Pi = n0
    else:
        ratio = np.full(n, math.log1p(kp) / (kp / (1.0 + kp)))  # all n0_i equal n_m*S/(1+S) at the common p0*K
    tol = 2.0 * EPS_PI * ratio + 1e-9
    detail = {"min_x_ref": float(xw.min())}
    ctx.label(desc["form"], f"n={n}", "guess:" + (desc["guess"]["mode"] if desc["guess"] else "default"))
    ctx.label("trace" if xw.min() < TRACE else "no_trace")
    guess = make_guess(desc["guess"], {"x": xw}, n)
    ctx.label("ptype:" + desc.get("ptype", "float_array"))
    l = call(pgiast.iast_point, ctx, isos, _as_ptype(desc["p"], desc.get("ptype", "float_array")), warningoff=True,
             adsorbed_mole_fraction_guess=guess)
    l = np.asarray(l, dtype=float)
    if not np.all(np.isfinite(l)) or np.any(l <= 0):
        raise Violation(f"{desc['form']} mixture K={desc['K']} p={desc['p']}: returned loadings {_fmt(l)}",
                        tag="nonfinite", detail=detail)
    x = l / l.sum()
    detail["min_x_ret"] = float(x.min())
    if np.any(np.abs(x - xw) > tol * xw) or abs(l.sum() - want.sum()) > 4 * tol.max() * want.sum():
        raise Violation(
            f"{desc['form']} mixture K={desc['K']}" + (f" n_m={desc['n_m']}" if desc["form"] == "langmuir" else "")
            + f" p={desc['p']}: iast_point returned {_fmt(l)}, closed form "
            + ("n_i=K_i p_i" if desc["form"] == "henry" else "n_i=n_m K_i p_i/(1+sum K_j p_j)") + f" gives {_fmt(want)}",
            tag="closed_form", detail=detail)
    if xw.min() >= 1e-9:
        ctx.nt(desc, desc)


# ---------------------------------------------------------------------------------------------------------------------
# 3. permutations
def strat_permutation():
    return _mixture()


def check_permutation(desc, ctx):
    comps, p = desc["comps"], desc["p"]
    n = len(comps)
    isos, pures = build_all(comps)
    ref = reference(pures, p, ctx)
    _classify(desc, ref, ctx)
    if ref is None:
        raise Inconclusive()
    detail = {"min_x_ref": float(ref["x"].min())}
    guess = make_guess(desc["guess"], ref, n)
    tol = tol_x(ref)
    results = {}
    for perm in itertools.permutations(range(n)):
        isos_p, pures_p = build_all(comps, perm)  # fresh objects: no cached interpolator state carried over
        g = None if guess is None else [guess[j] for j in perm]
        try:
            l = call(pgiast.iast_point, ctx, isos_p, np.array([p[j] for j in perm]), warningoff=True,
                     adsorbed_mole_fraction_guess=g)
        except Inconclusive:
            continue
        l = np.asarray(l, dtype=float)
        back = np.empty(n)
        back[list(perm)] = l
        results[perm] = back
    if len(results) < 2:
        raise Inconclusive()
    ctx.label(f"orders_returned={len(results)}/{math.factorial(n)}")
    base_perm = min(results)
    base = results[base_perm]
    for perm, l in results.items():
        if not np.all(np.isfinite(l)) or np.any(l <= 0) or not np.all(np.isfinite(base)) or np.any(base <= 0):
            raise Violation(f"component order {perm}: loadings {_fmt(l)} / order {base_perm}: {_fmt(base)} (p={p})",
                            tag="nonfinite", detail=detail)
        xa, xb = l / l.sum(), base / base.sum()
        detail["min_x_ret"] = float(min(xa.min(), xb.min()))
        if np.any(np.abs(xa - xb) > 2 * tol * np.maximum(xa, xb)) or \
                abs(l.sum() - base.sum()) > 8 * tol.max() * base.sum():
            raise Violation(
                f"component order {list(perm)} gives loadings {_fmt(l)} (mapped back to the original order), order "
                f"{list(base_perm)} gives {_fmt(base)}; p={p}; reference {_fmt(ref['loadings'])}",
                tag="permutation", detail=detail)
    _nt(desc, ref, ctx)


# ---------------------------------------------------------------------------------------------------------------------
# 4. reverse problem and round trip
@st.composite
def strat_reverse(draw):
    d = draw(_mixture(pressures=False))
    n = len(d["comps"])
    m = draw(st.sampled_from([2, 3, 4, 6, 8, 10, 16, 24, 30]))
    cuts = sorted(draw(st.lists(st.integers(1, 2 ** m - 1), min_size=n - 1, max_size=n - 1, unique=True))) \
        if 2 ** m - 1 >= n - 1 else None
    if cuts is None:
        m, cuts = 4, list(range(1, n))
    edges = [0] + cuts + [2 ** m]
    d["m"] = m
    d["k"] = [b - a for a, b in zip(edges[:-1], edges[1:])]
    d["P"] = draw(_lg(1e-2, 1e2))
    d["guess"] = draw(_guess(n))
    return d


def check_reverse(desc, ctx):
    comps = desc["comps"]
    n = len(comps)
    isos, pures = build_all(comps)
    x = np.array(desc["k"], dtype=float) / float(2 ** desc["m"])  # dyadic: sums to 1.0 exactly
    P = desc["P"]
    ctx.label(f"n={n}", "kinds:" + "+".join(sorted({c['kind'] for c in comps})),
              "trace" if x.min() < TRACE else "no_trace")
    g = desc["guess"]
    guess = None
    if g is not None:
        w = np.asarray(g["w"][:n])
        guess = (w / w.sum()).tolist()
    detail = {"min_x_ref": float(x.min())}
    y, l = call(pgiast.reverse_iast, ctx, isos, x.tolist(), P, warningoff=True, gas_mole_fraction_guess=guess)
    y, l = np.asarray(y, dtype=float), np.asarray(l, dtype=float)
    ctx.label("reverse_returned")
    if not (np.all(np.isfinite(y)) and np.all(np.isfinite(l))):
        raise Violation(f"reverse_iast(x={_fmt(x)}, P={P}) returned y={_fmt(y)}, loadings={_fmt(l)}", tag="nonfinite",
                        detail=detail)
    if np.any(y < 0) or np.any(y > 1) or abs(float(y.sum()) - 1.0) > 1e-12:
        raise Violation(f"reverse_iast(x={_fmt(x)}, P={P}): gas fractions {_fmt(y)} not in [0,1] / not summing to one",
                        tag="fraction_range", detail=detail)
    if np.any(y == 0):
        raise Violation(f"reverse_iast(x={_fmt(x)}, P={P}): zero gas fraction {_fmt(y)} for a positive adsorbed "
                        "fraction", tag="nonfinite", detail=detail)
    # the reverse result is an IAST solution for the partial pressures P*y: same clauses, no separate reference
    xs = l / l.sum()
    if np.any(np.abs(xs - x) > 1e-12):
        raise Violation(f"reverse_iast(x={_fmt(x)}, P={P}): returned loadings {_fmt(l)} have fractions {_fmt(xs)}",
                        tag="reverse_fractions", detail=detail)
    p = P * y
    try:
        ref = R.ref_iast(pures, p)
    except R.OutOfDomain:
        ref = None
    if ref is not None:
        detail = {"min_x_ref": float(min(x.min(), ref["x"].min()))}
    detail["min_x_ret"] = float(y.min())  # reverse_iast solves for the gas fractions
    try:
        assess(isos, pures, p, l, ref, f"reverse_iast(x={_fmt(x)}, P={P}) -> y={_fmt(y)}", ctx)
    except Violation as v:
        v.detail = detail
        raise
    # forward with the returned gas fractions gives back x
    isos2, pures2 = build_all(comps)
    l2 = call(pgiast.iast_point_fraction, ctx, isos2, y, P, warningoff=True)
    l2 = np.asarray(l2, dtype=float)
    ctx.label("roundtrip_returned")
    if not np.all(np.isfinite(l2)) or np.any(l2 <= 0):
        raise Violation(f"iast_point_fraction(y={_fmt(y)}, P={P}) after reverse_iast returned {_fmt(l2)}",
                        tag="nonfinite", detail=detail)
    x2 = l2 / l2.sum()
    detail["min_x_ret"] = float(min(y.min(), x2.min()))
    tol = tol_x(ref) if ref is not None else np.full(n, 1e-5)
    if np.any(np.abs(x2 - x) > 2 * tol * x) or abs(l2.sum() - l.sum()) > 8 * tol.max() * l.sum():
        raise Violation(
            f"reverse_iast(x={_fmt(x)}, P={P}) -> y={_fmt(y)}, loadings {_fmt(l)}; iast_point_fraction(y, P) -> "
            f"loadings {_fmt(l2)} with fractions {_fmt(x2)}: not the starting point", tag="roundtrip", detail=detail)
    if x.min() >= 1e-9:
        ctx.nt(desc, desc)
    # and, when the forward result happens to be exactly normalised, reverse(forward) returns the gas fractions
    if float(np.sum(x2)) == 1.0:
        isos3, _ = build_all(comps)
        try:
            y3, l3 = call(pgiast.reverse_iast, ctx, isos3, x2, P, warningoff=True)
        except Inconclusive:
            return
        y3 = np.asarray(y3, dtype=float)
        ctx.label("second_reverse_returned")
        # y_i = x_i p0_i / P: relative error of y_i = that of p0_i = EPS_PI * Pi / n0_i
        if np.any(np.abs(y3 - y) > 3 * tol * np.maximum(y, y3) + 1e-300):
            raise Violation(f"reverse_iast(iast_point_fraction(y={_fmt(y)}, P={P})) returned y={_fmt(y3)}",
                            tag="roundtrip", detail=detail)


# ---------------------------------------------------------------------------------------------------------------------
# 5. helpers return exactly what the point calculation gives
@st.composite
def strat_wrappers(draw):
    which = draw(st.sampled_from(["fraction", "svp", "vle"]))
    d = draw(_mixture(n_max=2 if which != "fraction" else 4, pressures=False,
                      models=ALL_MODELS if which != "vle" else CHEAP_MODELS + ["Toth"]))
    n = len(d["comps"])
    d["which"] = which
    d["guess"] = draw(_guess(n))
    if d["guess"] is not None and d["guess"]["mode"] == "near":
        d["guess"]["mode"] = "simplex"
    if which == "fraction":
        w = [draw(st.floats(0.01, 1.0)) for _ in range(n)]
        d["y"] = [float(v / sum(w)) for v in w]
        d["P"] = draw(_lg(1e-2, 1e2))
    elif which == "svp":
        y1 = draw(st.floats(0.5, 0.999))
        d["y"] = [1.0 - y1, y1] if draw(st.booleans()) else [y1, 1.0 - y1]
        d["pressures"] = [draw(_lg(1e-2, 1e2)) for _ in range(draw(st.integers(1, 5)))]
    else:
        d["P"] = draw(_lg(1e-1, 1e1))
        d["npoints"] = draw(st.integers(2, 9))
    return d


def check_wrappers(desc, ctx):
    comps = desc["comps"]
    n = len(comps)
    which = desc["which"]
    g = desc["guess"]
    guess = None
    if g is not None:
        w = np.asarray(g["w"][:n])
        guess = (w / w.sum()).tolist()
    ctx.label(which, "kinds:" + "+".join(sorted({c['kind'] for c in comps})), "guess:" + (g["mode"] if g else "default"))

    def point(y, P):
        isos, _ = build_all(comps)  # fresh objects for every call: identical state for wrapper and direct call
        return np.asarray(call(pgiast.iast_point, ctx, isos, np.asarray(y) * P, warningoff=True,
                               adsorbed_mole_fraction_guess=guess), dtype=float)

    if which == "fraction":
        y, P = desc["y"], desc["P"]
        isos, _ = build_all(comps)
        got = np.asarray(call(pgiast.iast_point_fraction, ctx, isos, list(y), P, warningoff=True,
                              adsorbed_mole_fraction_guess=guess), dtype=float)
        want = point(y, P)
        if not np.array_equal(got, want, equal_nan=True):
            raise Violation(f"iast_point_fraction(y={y}, P={P}) = {_fmt(got)} but iast_point(y*P) = {_fmt(want)}",
                            tag="wrapper_fraction")
        ctx.nt(desc, desc)
    elif which == "svp":
        y, ps = desc["y"], desc["pressures"]
        if sum(y) != 1:
            ctx.label("fractions_not_exactly_one")
            return
        isos, _ = build_all(comps)
        res = call(pgiast.iast_binary_svp, ctx, isos, list(y), list(ps), warningoff=True,
                   adsorbed_mole_fraction_guess=guess)
        if not np.array_equal(np.asarray(res["pressure"], dtype=float), np.asarray(ps)):
            raise Violation(f"iast_binary_svp pressures {res['pressure']} != input {ps}", tag="wrapper_svp")
        want = []
        for P in ps:
            l = point(y, P)
            want.append((l[0] / y[0]) / (l[1] / y[1]))
        got = np.asarray(res["selectivity"], dtype=float)
        if not np.array_equal(got, np.asarray(want), equal_nan=True):
            raise Violation(f"iast_binary_svp(y={y}, pressures={ps}) selectivity {_fmt(got)} but the point calculation "
                            f"gives (n0/y0)/(n1/y1) = {_fmt(want)}", tag="wrapper_svp")
        ctx.nt(desc, desc)
    else:
        P, npts = desc["P"], desc["npoints"]
        isos, _ = build_all(comps)
        res = call(pgiast.iast_binary_vle, ctx, isos, P, npoints=npts, warningoff=True,
                   adsorbed_mole_fraction_guess=guess)
        ys = np.linspace(0.01, 0.99, npts)
        want_x = [0.0]
        for yv in ys:
            l = point([yv, 1 - yv], P)
            want_x.append(l[0] / (l[0] + l[1]))
        want_x.append(1.0)
        want_y = np.concatenate([[0], ys, [1]])
        gx, gy = np.asarray(res["x"], dtype=float), np.asarray(res["y"], dtype=float)
        if not (np.array_equal(gy, want_y) and np.array_equal(gx, np.asarray(want_x), equal_nan=True)):
            raise Violation(f"iast_binary_vle(P={P}, npoints={npts}) x={_fmt(gx)}, y={_fmt(gy)} but the point calculation "
                            f"gives x={_fmt(want_x)}, y={_fmt(want_y)}", tag="wrapper_vle")
        ctx.nt(desc, desc)


# ---------------------------------------------------------------------------------------------------------------------
# wrappers on a chosen branch: the helpers must hand their `branch` argument to the point calculation
@st.composite
def strat_wrappers_branch(draw):
    which = draw(st.sampled_from(["fraction", "svp", "vle"]))
    comps = []
    for _ in range(2):
        comps.append({"K_ads": draw(_lg(0.05, 20.0)), "n_ads": draw(_lg(0.5, 10.0)),
                      "K_des": draw(_lg(0.05, 20.0)), "n_des": draw(_lg(0.5, 10.0)), "npts": draw(st.integers(12, 40))})
    d = {"which": which, "comps": comps, "branch": draw(st.sampled_from(["des", "des", "ads"]))}
    y1 = draw(st.floats(0.1, 0.9))
    d["y"] = [y1, 1.0 - y1]
    d["P"] = draw(_lg(0.05, 5.0))
    d["pressures"] = [draw(_lg(0.05, 5.0)) for _ in range(draw(st.integers(1, 3)))]
    d["npoints"] = draw(st.integers(2, 5))
    return d


def _hysteretic_point_isotherm(c, j):
    """Point isotherm with an adsorption leg on one Langmuir curve and a desorption leg on another (hysteresis)."""
    import pandas as pd
    p_ads = np.geomspace(1e-3, 50.0, c["npts"])
    p_des = p_ads[::-1][1:]
    n_ads = c["n_ads"] * c["K_ads"] * p_ads / (1 + c["K_ads"] * p_ads)
    n_des = c["n_des"] * c["K_des"] * p_des / (1 + c["K_des"] * p_des)
    df = pd.DataFrame({"pressure": np.concatenate([p_ads, p_des]), "loading": np.concatenate([n_ads, n_des]),
                       "branch": [0] * len(p_ads) + [1] * len(p_des)})
    return pygaps.PointIsotherm(isotherm_data=df, pressure_key="pressure", loading_key="loading", material="m-c13",
                                adsorbate=["methane", "ethane", "propane", "nitrogen"][j], temperature=298.0,
                                pressure_mode="absolute", pressure_unit="bar", loading_basis="molar", loading_unit="mmol",
                                material_basis="mass", material_unit="g", temperature_unit="K")


def check_wrappers_branch(desc, ctx):
    which, branch = desc["which"], desc["branch"]
    y, P = desc["y"], desc["P"]

    def isos():
        return [_hysteretic_point_isotherm(c, j) for j, c in enumerate(desc["comps"])]

    def point(yv, Pv, br):
        return np.asarray(call(pgiast.iast_point, ctx, isos(), np.asarray(yv) * Pv, branch=br, warningoff=True), dtype=float)

    if which == "fraction":
        got = np.asarray(call(pgiast.iast_point_fraction, ctx, isos(), list(y), P, branch=branch, warningoff=True), dtype=float)
        want = point(y, P, branch)
        if not np.array_equal(got, want, equal_nan=True):
            raise Violation(f"iast_point_fraction(y={y}, P={P}, branch={branch!r}) = {_fmt(got)} but iast_point(y*P, "
                            f"branch={branch!r}) = {_fmt(want)}", tag="wrapper_fraction_branch")
    elif which == "svp":
        if sum(y) != 1:
            ctx.label("fractions_not_exactly_one")
            return
        res = call(pgiast.iast_binary_svp, ctx, isos(), list(y), list(desc["pressures"]), branch=branch, warningoff=True)
        want = []
        for Pv in desc["pressures"]:
            l = point(y, Pv, branch)
            want.append((l[0] / y[0]) / (l[1] / y[1]))
        got = np.asarray(res["selectivity"], dtype=float)
        if not np.array_equal(got, np.asarray(want), equal_nan=True):
            raise Violation(f"iast_binary_svp(y={y}, pressures={desc['pressures']}, branch={branch!r}) selectivity {_fmt(got)} "
                            f"but the point calculation on that branch gives {_fmt(want)}", tag="wrapper_svp_branch")
    else:
        res = call(pgiast.iast_binary_vle, ctx, isos(), P, npoints=desc["npoints"], branch=branch, warningoff=True)
        ys = np.linspace(0.01, 0.99, desc["npoints"])
        want_x = [0.0]
        for yv in ys:
            l = point([yv, 1 - yv], P, branch)
            want_x.append(l[0] / (l[0] + l[1]))
        want_x.append(1.0)
        gx = np.asarray(res["x"], dtype=float)
        if not np.array_equal(gx, np.asarray(want_x), equal_nan=True):
            raise Violation(f"iast_binary_vle(P={P}, npoints={desc['npoints']}, branch={branch!r}) x={_fmt(gx)} but the point "
                            f"calculation on that branch gives {_fmt(want_x)}", tag="wrapper_vle_branch")
    ctx.label(which, "branch:" + branch)
    if branch == "des":
        ctx.nt(desc, desc)


# ---------------------------------------------------------------------------------------------------------------------
# known finding (open): scipy root(method='lm') reports success at a stationary point of |residual|^2 that is not a
# root (or stops on its step tolerance far from the root); the library never checks the residual. Every observed
# instance has a trace mole fraction (< 1e-4) either in the true solution or in the point lm stopped at (the last
# component's fraction 1-sum(others) stuck at ~0).
_KF_TAGS = {"sp_unequal", "x_vs_ref", "total_vs_ref", "closed_form", "permutation", "roundtrip", "nonfinite"}


def kf_lm_nonroot_trace(check_name, desc, viol):
    d = getattr(viol, "detail", None) or {}
    xs = [d[k] for k in ("min_x_ref", "min_x_ret") if d.get(k) is not None]
    return viol.tag in _KF_TAGS and bool(xs) and min(xs) < TRACE


CHECKS = [
    Check("equations", check_equations, strategy=strat_equations, budget={"quick": 2400, "thorough": 16000},
          rule="iast_point on 2-4 component model/point mixtures: residuals of the IAST equations + reference solver"),
    Check("closed_forms", check_closed, strategy=strat_closed, budget={"quick": 1600, "thorough": 10000},
          rule="Henry mixtures n_i=K_i p_i; equal-capacity Langmuir mixtures = extended Langmuir"),
    Check("permutation", check_permutation, strategy=strat_permutation, budget={"quick": 160, "thorough": 1200},
          shrink_quick=False, exhaustive=True, rule="all n! orders of the components of one mixture"),
    Check("reverse", check_reverse, strategy=strat_reverse, budget={"quick": 1000, "thorough": 7000},
          rule="reverse_iast satisfies the equations; iast_point_fraction(reverse_iast(x)) = x; reverse(forward) = y"),
    Check("wrappers", check_wrappers, strategy=strat_wrappers, budget={"quick": 900, "thorough": 5000},
          rule="iast_point_fraction / iast_binary_svp / iast_binary_vle bit-equal to iast_point"),
    Check("wrappers_branch", check_wrappers_branch, strategy=strat_wrappers_branch, budget={"quick": 400, "thorough": 3000},
          rule="the same helpers on hysteretic point isotherms with branch='des' / 'ads': bit-equal to iast_point on that branch"),
]
