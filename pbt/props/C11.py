"""C11 - spreading pressure equals the integral of loading over ln p (models and point isotherms)."""
import math

import numpy as np
from hypothesis import strategies as st
from scipy import constants, special

import pygaps
import pygaps.modelling as pgm

from pbt import case as K
from pbt import ref_units as ru
from pbt.core import Check, HarnessError, Inconclusive, Violation

LEVEL = "exploration"
RULE = (
    "Model part: hypothesis-drawn (model of the 13 with a spreading pressure, parameter vector inside finite windows of "
    "param_default_bounds: K,Ka,Kb,b in [1e-3,1e3], n_m,a in [1e-2,1e2], C in [1e-2,1e3], BET N / GAB K in [0.01,1], "
    "Toth t, J-S c in [0.1,10], Freundlich m in [0.2,10], Temkin tht in [0,3], Quadratic also Ka>0>Kb, DR/DA RT/e in "
    "[35^(1/m)/690, 5], DA m in [1,3]; pressure log-uniform in the validity range: [1e-6,1e3], BET/GAB [1e-6,0.98] "
    "(N*p<1), Quadratic Kb<0 up to Ka/(2|Kb|) (loading >= 0), DR/DA [1e-6,1] incl. p=1; zero-limit clause p in "
    "[1e-30,1e-7]). Oracle = adaptive Gauss-Legendre quadrature in ln p of the model's own loading() (independent of "
    "every antiderivative; validated against closed forms at start-up). Clauses: value, zero limit, additivity + "
    "monotonicity over [p1,p2], p*dPi/dp = n by a symmetric difference quotient against the mean loading over the "
    "same short interval, and ModelIsotherm.spreading_pressure_at with the pressure given in any other unit/mode "
    "(reference conversion by ref_units). Point part: generated strictly increasing pressures (1-40 points, ratios "
    "1+1e-3..30) and non-decreasing loadings (plateaus, optional zero first loading); one FRESH PointIsotherm per "
    "query (the range guard is history dependent, property C04); queries below the first point, at the first / an "
    "inner / the last point, inside segments; oracle = quadrature of the independently built interpolant (Henry "
    "line to the first point, numpy.interp after); unit arguments for pressure (10 representations), loading (25 "
    "dimensional) and material (19). Non-trivial = non-degenerate parameter vector (always by construction) resp. "
    "query above the first data point (value/unit clauses) or an interval of positive length (laws); distinct by "
    "(check, model, parameters, pressures) resp. (data, query)."
)
ASSUMPTIONS = [
    "the integral is the integral of the library's own loading() (model) resp. of the Henry + piecewise-linear "
    "interpolant of the stored points (point isotherm); correctness of loading() itself is property C10",
    "closed-form models: rel 1e-9 plus abs 1e-14*(1+tht)*sum(n_m) (rounding of log(1+x) at small x); models "
    "integrated by scipy quad in the library (Toth, Jensen-Seaton, DR, DA): rel 1e-3 plus abs 5e-8 - QUADPACK's "
    "epsabs=epsrel=1.49e-8 are heuristic estimates that kinked integrands fool: measured true errors on the "
    "unchanged tree reach 2e-4 (Jensen-Seaton with a sharp knee, ~5e-5 of the cases; Toth 1.3e-6; DR/DA with "
    "RT/e >= 0.2: 2e-5); 1e-3 is the tolerance of the repository's own table test; the gross class (DR/DA with "
    "RT/e < 0.2, errors up to several 100 %) is ledger entry KF-C11-2",
    "difference quotients inherit (tol(Pi+) + tol(Pi-))/(2h); h = 0.01 (closed forms; smaller near the BET/GAB pole), "
    "0.5 for the numerically integrated models; the label noise_dominated counts cases where that exceeds 1 % of n",
    "DR/DA: (RT/e*690)^m >= 35 so that the part of the integral below the smallest positive double is < 1e-15",
    "point isotherms: rel 1e-9 plus abs 1e-13*max loading; unit clauses add tol_for(units)*(1+n/Pi) "
    "(2e-4 where the library table holds a rounded constant)",
    "Pi is compared at scalar pressures only; vectorised calls are not part of the property",
]

R_GAS = constants.gas_constant
MODELS = ["Henry", "Langmuir", "DSLangmuir", "TSLangmuir", "Quadratic", "BET", "GAB", "TemkinApprox", "Toth",
          "JensenSeaton", "Freundlich", "DR", "DA"]
QUAD_MODELS = ("Toth", "JensenSeaton", "DR", "DA")
DUBININ = ("DR", "DA")
RELATIVE_ONLY = ("BET", "GAB", "DR", "DA")

REL_CLOSED, REL_QUAD, ABS_QUAD = 1e-9, 1e-3, 5e-8
ACCURACY_TAGS = ("value", "zero_limit", "additivity", "monotone", "derivative", "unit_invariance")


def worker_init():
    K.reset_registries()


# =====================================================================================================================
# reference quadrature
# =====================================================================================================================
_X24, _W24 = np.polynomial.legendre.leggauss(24)
_X16, _W16 = np.polynomial.legendre.leggauss(16)


def _panels(f, lo, hi, x, w):
    mid, half = 0.5 * (lo + hi), 0.5 * (hi - lo)
    u = mid[:, None] + half[:, None] * x[None, :]
    v = np.asarray(f(np.exp(u)), dtype=float)
    return np.sum(v * w[None, :], axis=1) * half


def gl_adaptive(f, ua=None, ub=None, edges=None, max_iter=60):
    """Integral of f(exp(u)) du over [ua, ub] (or over the given increasing panel edges): 24-point Gauss-Legendre
    panels, bisected until the 16-point rule agrees to 1e-12 per panel.  Raises Inconclusive when it cannot."""
    if edges is None:
        if not ub > ua:
            return 0.0
        n0 = int(min(256, max(8, math.ceil((ub - ua) / 1.0))))
        edges = np.linspace(ua, ub, n0 + 1)
    edges = np.asarray(edges, dtype=float)
    lo, hi = edges[:-1], edges[1:]
    keep = hi > lo
    lo, hi = lo[keep], hi[keep]
    total, scale = 0.0, 0.0
    for it in range(max_iter):
        if lo.size == 0:
            return total
        i24 = _panels(f, lo, hi, _X24, _W24)
        i16 = _panels(f, lo, hi, _X16, _W16)
        if not np.all(np.isfinite(i24)):
            raise Inconclusive()
        if it == 0:
            scale = float(np.sum(np.abs(i24)))
        ok = np.abs(i24 - i16) <= 1e-12 * np.abs(i24) + 1e-16 * scale
        # a panel that cannot be split any more in floating point is accepted as it is
        ok |= (hi - lo) <= 1e-13 * np.maximum(1.0, np.abs(lo))
        total += float(np.sum(i24[ok]))
        lo, hi = lo[~ok], hi[~ok]
        mid = 0.5 * (lo + hi)
        lo, hi = np.concatenate([lo, mid]), np.concatenate([mid, hi])
    raise Inconclusive()


def ref_between(load, p1, p2):
    """int_{p1}^{p2} load(p)/p dp."""
    return gl_adaptive(load, math.log(p1), math.log(p2))


def ref_spreading(load, p):
    """int_0^p load(p')/p' dp' for a loading that becomes a power law c*p^s at low pressure: quadrature over 80
    e-folds below p plus the analytic power-law tail (exponent measured on the loading itself)."""
    ub = math.log(p)
    span = 80.0
    while True:
        pa = math.exp(ub - span)
        na, nb = float(load(pa)), float(load(pa / math.e))
        if math.isfinite(na) and math.isfinite(nb) and na > 1e-280 and nb > 0:
            break
        span /= 2
        if span < 2:
            raise Inconclusive()
    s = math.log(na / nb)
    if not s > 0.05:
        raise Inconclusive()
    return gl_adaptive(load, ub - span, ub) + na / s


def ref_spreading_dubinin(load, p, a, m):
    """DR / DA: n = n_m exp(-(a|ln p|)^m) is not a power law at low pressure; it is below exp(-40) n_m for
    |ln p| > 40^(1/m)/a, and the generator guarantees that this point (or exp(-35)) is reached above ln p = -700."""
    ub = math.log(p)
    ua = max(-700.0, -(40.0 ** (1.0 / m)) / a)
    if ua >= ub:
        return 0.0
    return gl_adaptive(load, ua, ub)


def dubinin_closed(n_m, a, m, p):
    """Closed form n_m/(a m) Gamma(1/m, (a|ln p|)^m); for m=2: n_m sqrt(pi)/(2a) erfc(a|ln p|)."""
    x = (a * abs(math.log(p))) ** m
    return n_m / (a * m) * special.gamma(1.0 / m) * special.gammaincc(1.0 / m, x)


# =====================================================================================================================
# model cases
# =====================================================================================================================
def _r6(x):
    return float(f"{x:.6g}")


def _lg(z, lo, hi):
    """z in [0,1] -> log-uniform in [10^lo, 10^hi]."""
    return _r6(10.0 ** (lo + z * (hi - lo)))


def make_params(model, z, T):
    """Deterministic map from uniform numbers z[0..7] to a parameter vector inside the windows named in RULE."""
    if model == "Henry":
        return {"K": _lg(z[0], -3, 3)}
    if model == "Langmuir":
        return {"K": _lg(z[0], -3, 3), "n_m": _lg(z[1], -2, 2)}
    if model == "DSLangmuir":
        return {"n_m1": _lg(z[0], -2, 2), "K1": _lg(z[1], -3, 3), "n_m2": _lg(z[2], -2, 2), "K2": _lg(z[3], -3, 3)}
    if model == "TSLangmuir":
        return {"n_m1": _lg(z[0], -2, 2), "K1": _lg(z[1], -3, 3), "n_m2": _lg(z[2], -2, 2), "K2": _lg(z[3], -3, 3),
                "n_m3": _lg(z[4], -2, 2), "K3": _lg(z[5], -3, 3)}
    if model == "Quadratic":
        ka, kb = _lg(z[1], -3, 3), _lg(z[2], -3, 3)
        if z[3] < 0.1:
            kb = 0.0
        elif z[3] < 0.2:
            ka = 0.0
        elif z[3] < 0.4:
            kb = -kb
        return {"n_m": _lg(z[0], -2, 2), "Ka": ka, "Kb": kb}
    if model == "BET":
        return {"n_m": _lg(z[0], -2, 2), "C": _lg(z[1], -2, 3), "N": _lg(z[2], -2, 0)}
    if model == "GAB":
        return {"n_m": _lg(z[0], -2, 2), "C": _lg(z[1], -2, 3), "K": _lg(z[2], -2, 0)}
    if model == "TemkinApprox":
        return {"n_m": _lg(z[0], -2, 2), "K": _lg(z[1], -3, 3), "tht": 0.0 if z[2] < 0.1 else _r6(3.0 * (z[2] - 0.1) / 0.9)}
    if model == "Toth":
        return {"n_m": _lg(z[0], -2, 2), "K": _lg(z[1], -3, 3), "t": _lg(z[2], -1, 1)}
    if model == "JensenSeaton":
        return {"K": _lg(z[0], -3, 3), "a": _lg(z[1], -2, 2), "b": _lg(z[2], -3, 1), "c": _lg(z[3], -1, 1)}
    if model == "Freundlich":
        return {"K": _lg(z[0], -3, 3), "m": _lg(z[1], math.log10(0.2), 1)}
    if model in DUBININ:
        m = 2.0 if model == "DR" else _r6(1.0 + 2.0 * z[2])
        a_min = 1.02 * 35.0 ** (1.0 / m) / 690.0
        a = a_min * (5.0 / a_min) ** z[1]
        par = {"n_m": _lg(z[0], -2, 2), "e": _r6(R_GAS * T / a)}
        if model == "DA":
            par["m"] = m
        return par
    raise HarnessError(model)


def window(model, par):
    """Pressure validity window of a parameter vector."""
    if model in ("BET", "GAB"):
        return 1e-6, 0.98
    if model in DUBININ:
        return 1e-6, 1.0
    if model == "Quadratic" and par["Kb"] < 0:
        return 1e-6 * min(1.0, par["Ka"] / (2 * -par["Kb"])), min(1e3, par["Ka"] / (2 * -par["Kb"]))
    return 1e-6, 1e3


def _p_in(win, z, top=False):
    lo, hi = win
    if top and z > 0.85:
        return hi
    return _r6(min(hi, max(lo, lo * (hi / lo) ** min(1.0, z / 0.85 if top else z))))


def capacity(model, par):
    """Saturation scale of the models whose antiderivative is a logarithm (absolute rounding allowance)."""
    if model in ("Langmuir", "Quadratic", "BET", "GAB", "Toth", "DR", "DA"):
        return par["n_m"]
    if model == "TemkinApprox":
        return par["n_m"] * (1.0 + par["tht"])
    if model == "DSLangmuir":
        return par["n_m1"] + par["n_m2"]
    if model == "TSLangmuir":
        return par["n_m1"] + par["n_m2"] + par["n_m3"]
    return 0.0


def dubinin_a(desc):
    return R_GAS * desc["T"] / desc["params"]["e"]


def build_model(desc):
    # the parameter mapping is keyed by name; it is written in one of four key orders (derived from the values, so that
    # the case stays a pure function of its descriptor)
    par = dict(desc["params"])
    keys = list(par)
    how = int(sum(abs(float(v)) for v in par.values()) * 1e6) % 4
    keys = [keys, keys[::-1], sorted(keys), sorted(keys, reverse=True)][how]
    mod = pgm.get_isotherm_model(desc["model"], parameters={k: par[k] for k in keys})
    if desc["model"] in DUBININ:
        # the fitting path of ModelIsotherm does exactly this (the model-instance path not doing it is not C11's topic)
        mod.__init_parameters__({"temperature": desc["T"]})
    return mod


def tol_pi(desc, value):
    """Allowed |library - integral| for one spreading-pressure value."""
    if desc["model"] in QUAD_MODELS:
        return REL_QUAD * abs(value) + ABS_QUAD
    return REL_CLOSED * abs(value) + 1e-14 * capacity(desc["model"], desc["params"])


def reference(desc, mod, p):
    if desc["model"] in DUBININ:
        return ref_spreading_dubinin(mod.loading, p, dubinin_a(desc), desc["params"].get("m", 2.0))
    return ref_spreading(mod.loading, p)


def lib_pi(mod, p):
    v = mod.spreading_pressure(p)
    return float(v)


# Toth and Jensen-Seaton integrate numerically with scipy.quad: one pressure per call
SCALAR_ONLY = ("Toth", "JensenSeaton")
_NZ = {"Henry": 1, "Langmuir": 2, "DSLangmuir": 4, "TSLangmuir": 6, "Quadratic": 4, "BET": 3, "GAB": 3,
       "TemkinApprox": 3, "Toth": 3, "JensenSeaton": 4, "Freundlich": 2, "DR": 2, "DA": 3}
# pressure representations with the two relative modes drawn about as often as the eight absolute units together
_P_WEIGHTED = list(ru.P_REPS) + [("relative", None), ("relative%", None)] * 3


def _model_strategy(kind):
    """kind: 'value' | 'zero' | 'pair' | 'deriv' | 'unit'.  One branch per model; every branch draws exactly the
    numbers it uses (unused draws would only produce duplicates)."""
    tab = K.backend_table()
    u01 = st.floats(0, 1)

    def make(model, z, zp, T, extra):
        T = _r6(T)
        par = make_params(model, list(z) + [0.0] * 8, T)
        win = window(model, par)
        d = {"model": model, "params": par, "T": T}
        dub = model in DUBININ
        if kind == "value":
            d["p"] = _p_in(win, zp, top=dub)
        elif kind == "zero":
            d["p"] = _r6(10.0 ** (-30.0 + (24.0 if dub else 23.0) * zp))
        elif kind == "pair":
            a, b = _p_in(win, zp, top=dub), _p_in(win, extra, top=dub)
            if a == b:  # hypothesis likes equal numbers; an empty interval says nothing
                b = win[1] if a < win[1] else win[0]
            d["p1"], d["p2"] = sorted((a, b))
        elif kind == "deriv":
            d["p"] = _p_in(win, zp)
        elif kind == "unit":
            ads, inat, iq, omit = extra
            d["adsorbate"] = ads
            d["p"] = _p_in(win, zp, top=dub)
            nat = ("relative", None) if model in RELATIVE_ONLY else _P_WEIGHTED[inat]
            others = [r for r in _P_WEIGHTED if r != nat]
            d["native"] = list(nat)
            d["query"] = list(others[iq % len(others)])
            d["omit_mode"] = omit
        return d

    branches = []
    for model in MODELS:
        zs = st.tuples(*([u01] * _NZ[model]))
        if kind == "unit":
            # the isotherm temperature is the adsorbate's: inside (Tt, Tc) so that relative pressures exist
            branches.append(st.tuples(st.integers(0, len(tab) - 1), u01).flatmap(
                lambda t, model=model, zs=zs: st.builds(
                    make, st.just(model), zs, u01, st.just(K.temperature_for(tab[t[0]], t[1])),
                    st.tuples(st.just(tab[t[0]][0]), st.integers(0, len(_P_WEIGHTED) - 1), st.integers(0, 40),
                              st.sampled_from([False, False, True])))))
        else:
            T = st.floats(60.0, 400.0) if model in DUBININ else st.just(300.0)
            extra = u01 if kind == "pair" else st.none()
            branches.append(st.builds(make, st.just(model), zs, u01, T, extra))
    return st.one_of(*branches)


def _nt_key(desc, *extra):
    return [desc["model"], sorted(desc["params"].items()), list(extra)]


def _viol(msg, tag, err, tol):
    return Violation(msg + f" (|diff| {err:.6g} > tol {tol:.6g})", tag=tag, detail={"err": float(err), "tol": float(tol)})


# ---- clause: value ---------------------------------------------------------------------------------------------------
def check_model_value(desc, ctx, tag="value"):
    mod = build_model(desc)
    p = desc["p"]
    ref = reference(desc, mod, p)
    lib = lib_pi(mod, p)
    tol = tol_pi(desc, ref)
    ctx.label(desc["model"])
    if desc["model"] in DUBININ:
        ctx.label("dubinin_a<0.2" if dubinin_a(desc) < 0.2 else "dubinin_a>=0.2")
    if tag == "zero_limit":
        # the limit clause: at a pressure 1e-7 .. 1e-30 the value is the (tiny) integral, nothing else survives
        ctx.label("pi_ref<1e-6*cap" if ref <= 1e-6 * max(capacity(desc["model"], desc["params"]), 1e-300) else "pi_ref_larger")
    if not (math.isfinite(lib) and abs(lib - ref) <= tol):
        v = _viol(f"{desc['model']} {desc['params']}{' T=%g' % desc['T'] if desc['model'] in DUBININ else ''}: "
                  f"spreading_pressure({p!r}) = {lib!r}, integral of loading/p over (0, p] = {ref!r}",
                  tag, abs(lib - ref) if math.isfinite(lib) else math.inf, tol)
        v.detail["diff"] = lib - ref
        raise v
    if tag == "value" and desc["model"] not in SCALAR_ONLY:
        # the same model asked for several pressures in one call (documented float or array): one value per pressure,
        # each the value the single call gives
        ps = [_r6(p * 0.5), p, _r6(p * 0.125)]  # neither ascending nor descending
        many = np.asarray(mod.spreading_pressure(np.array(ps)), dtype=float)
        ctx.label("array_call")
        if many.shape != (3,):
            raise Violation(f"{desc['model']} {desc['params']}: spreading_pressure(array of 3 pressures {ps}) returned shape "
                            f"{many.shape} ({many!r}), one value per pressure expected", tag="array_shape")
        for q, got in zip(ps, many):
            one = lib_pi(mod, q)
            t = tol_pi(desc, one)
            if not (math.isfinite(got) and abs(got - one) <= t):
                raise _viol(f"{desc['model']} {desc['params']}: spreading_pressure(array {ps}) gives {got!r} at {q!r}, "
                            f"the single call gives {one!r}", "array_value", abs(got - one), t)
    ctx.nt(_nt_key(desc, p), desc)


def check_model_zero(desc, ctx):
    check_model_value(desc, ctx, tag="zero_limit")


# ---- clause: additivity + increasing ------------------------------------------------------------------------------
def check_model_additivity(desc, ctx):
    mod = build_model(desc)
    p1, p2 = desc["p1"], desc["p2"]
    ctx.label(desc["model"])
    if not p2 > p1:
        ctx.label("degenerate_interval")
        return
    l1, l2 = lib_pi(mod, p1), lib_pi(mod, p2)
    ref = ref_between(mod.loading, p1, p2)
    tol = tol_pi(desc, l1) + tol_pi(desc, l2) + 1e-12 * abs(ref)
    if not abs((l2 - l1) - ref) <= tol:
        raise _viol(f"{desc['model']} {desc['params']}: Pi({p2!r}) - Pi({p1!r}) = {l2 - l1!r} but the integral of "
                    f"loading/p over [p1, p2] is {ref!r}", "additivity", abs((l2 - l1) - ref), tol)
    # increasing: the loading is positive on the window, hence the integral is; beyond the evaluation noise the
    # library values must be ordered strictly
    if ref > 2 * tol:
        ctx.label("strict_order_checked")
        if not l2 > l1:
            raise _viol(f"{desc['model']} {desc['params']}: not increasing, Pi({p1!r}) = {l1!r} >= Pi({p2!r}) = {l2!r}",
                        "monotone", l1 - l2 + ref, tol)
    ctx.nt(_nt_key(desc, p1, p2), desc)


# ---- clause: p dPi/dp = n -------------------------------------------------------------------------------------------
def check_model_derivative(desc, ctx):
    mod = build_model(desc)
    model, par = desc["model"], desc["params"]
    lo, hi = window(model, par)
    h = 0.5 if model in QUAD_MODELS else 0.01
    if model in ("BET", "GAB"):
        pole = par["N"] if model == "BET" else par["K"]
        h = min(h, 0.05 * -math.log(pole * hi))  # stay far from the pole relative to the step
    p = min(desc["p"], hi * math.exp(-h))
    pm, pp = p * math.exp(-h), p * math.exp(h)
    lm, lp = lib_pi(mod, pm), lib_pi(mod, pp)
    dq = (lp - lm) / (2 * h)
    mean = ref_between(mod.loading, pm, pp) / (2 * h)
    n_mid = float(mod.loading(p))
    tol = (tol_pi(desc, lm) + tol_pi(desc, lp)) / (2 * h) + 1e-12 * abs(mean)
    ctx.label(model)
    if not abs(dq - mean) <= tol:
        raise _viol(f"{model} {par}: [Pi(p e^h) - Pi(p e^-h)]/2h = {dq!r} at p = {p!r}, h = {h!r}, but the mean loading "
                    f"over that interval is {mean!r} (loading(p) = {n_mid!r})", "derivative", abs(dq - mean), tol)
    # the quotient must lie between the extreme loadings of the interval (ties it to n(p) itself)
    ns = np.asarray(mod.loading(np.exp(np.linspace(math.log(pm), math.log(pp), 33))), dtype=float)
    if not (ns.min() - tol <= dq <= ns.max() + tol):
        raise _viol(f"{model} {par}: p dPi/dp ~ {dq!r} at p = {p!r} lies outside the loading range "
                    f"[{ns.min()!r}, {ns.max()!r}] of [p e^-h, p e^h]", "derivative",
                    max(ns.min() - dq, dq - ns.max()), tol)
    ctx.label("resolving" if tol <= 0.01 * abs(n_mid) else "noise_dominated")
    ctx.nt(_nt_key(desc, p), desc)


# ---- clause: pressures in other units / modes are converted first --------------------------------------------------------
_ISO_UNITS = dict(loading_basis="molar", loading_unit="mmol", material_basis="mass", material_unit="g",
                  temperature_unit="K")


def check_model_units(desc, ctx):
    mod = build_model(desc)
    model = desc["model"]
    nat, qry = tuple(desc["native"]), tuple(desc["query"])
    entry = next(e for e in K.backend_table() if e[0] == desc["adsorbate"])
    fluid = entry[1]
    iso = pygaps.ModelIsotherm(model=mod, material="m-0", adsorbate=desc["adsorbate"], temperature=desc["T"],
                               pressure_mode=nat[0], pressure_unit=nat[1], **_ISO_UNITS)
    if model in DUBININ:
        iso.model.__init_parameters__({"temperature": desc["T"]})
    p = desc["p"]
    raw = lib_pi(mod, p)
    native = float(iso.spreading_pressure_at(p))
    if not abs(native - raw) <= 1e-14 * abs(raw):
        raise Violation(f"{model}: ModelIsotherm.spreading_pressure_at({p!r}) = {native!r} but model.spreading_pressure "
                        f"gives {raw!r}", tag="unit_native_mismatch")
    pq = ru.conv_pressure(p, nat, qry, fluid, desc["T"])
    kwargs = {}
    if qry[0] == "absolute":
        kwargs["pressure_unit"] = qry[1]
        if not (desc["omit_mode"] and nat[0] == "absolute"):
            kwargs["pressure_mode"] = "absolute"
    else:
        kwargs["pressure_mode"] = qry[0]
    conv = float(iso.spreading_pressure_at(pq, **kwargs))
    n_p = abs(float(mod.loading(p)))
    tol = tol_pi(desc, raw) * (2 if model in QUAD_MODELS else 1) + ru.tol_for(nat, qry) * (abs(raw) + n_p) \
        + 1e-14 * capacity(model, desc["params"])
    ctx.label(model, f"{nat[0]}->{qry[0]}", "mode_omitted" if "pressure_mode" not in kwargs else "mode_given")
    if not abs(conv - native) <= tol:
        raise _viol(f"{model} {desc['params']} ({desc['adsorbate']} at {desc['T']} K, isotherm in {nat}): "
                    f"spreading_pressure_at({pq!r}, {kwargs}) = {conv!r} but the same pressure in isotherm units "
                    f"({p!r}) gives {native!r}", "unit_invariance", abs(conv - native), tol)
    if model not in SCALAR_ONLY:
        # several pressures in one call (documented float or list), in the query representation
        # (three pressures in an order that is neither ascending nor descending)
        pq2 = ru.conv_pressure(_r6(p * 0.25), nat, qry, fluid, desc["T"])
        pq3 = ru.conv_pressure(_r6(p * 0.5), nat, qry, fluid, desc["T"])
        many = np.asarray(iso.spreading_pressure_at([pq, pq2, pq3], **kwargs), dtype=float)
        one2 = float(iso.spreading_pressure_at(pq2, **kwargs))
        one3 = float(iso.spreading_pressure_at(pq3, **kwargs))
        if many.shape != (3,) or not all(abs(g - w) <= 1e-12 * abs(w) for g, w in zip(many, (conv, one2, one3))):
            raise Violation(f"{model} {desc['params']} (isotherm in {nat}): spreading_pressure_at([{pq!r}, {pq2!r}, {pq3!r}], "
                            f"{kwargs}) = {many!r}, the single calls give {conv!r}, {one2!r} and {one3!r}", tag="list_call")
    ctx.nt(_nt_key(desc, p, nat, qry), desc)


# =====================================================================================================================
# point isotherms
# =====================================================================================================================
_POINT_KW = dict(material="m", adsorbate="N2", temperature=77, pressure_mode="absolute", pressure_unit="bar",
                 loading_basis="molar", loading_unit="mmol", material_basis="mass", material_unit="g",
                 temperature_unit="K")
KINDS = ("below", "first", "knot", "inside", "last")


def make_data(p0z, n0z, zero_first, steps, integral=False):
    """steps: list of (ratio_z, inc_z, plateau) -> strictly increasing pressures, non-decreasing loadings.
    integral: whole numbers handed over as python ints (the table then holds integer columns)."""
    if integral:
        P = [1 + int(9 * p0z)]
        N = [0 if zero_first else 1 + int(20 * n0z)]
        for rz, iz, flat in steps:
            P.append(P[-1] + 1 + int(30 * rz))
            N.append(N[-1] if flat else N[-1] + 1 + int(20 * iz))
        return P, N
    P = [_r6(10.0 ** (-6 + 7 * p0z))]
    N = [0.0 if zero_first else _r6(10.0 ** (-3 + 4 * n0z))]
    for rz, iz, flat in steps:
        ratio = 1.0 + 10.0 ** (-3 + 4.5 * rz)
        nxt = _r6(P[-1] * ratio)
        if not nxt > P[-1]:
            nxt = float(np.nextafter(P[-1] * 1.000001, math.inf))
        P.append(nxt)
        N.append(N[-1] if flat else _r6(N[-1] + 10.0 ** (-4 + 5 * iz)))
    return P, N


def _data():
    step = st.tuples(st.floats(0, 1), st.floats(0, 1), st.sampled_from([False, False, False, False, True]))
    steps = st.one_of(st.lists(step, min_size=0, max_size=2), st.lists(step, min_size=3, max_size=12),
                      st.lists(step, min_size=13, max_size=39))
    return st.builds(make_data, st.floats(0, 1), st.floats(0, 1), st.sampled_from([False] * 9 + [True]), steps,
                     st.sampled_from([False] * 4 + [True]))


def _query():
    return st.builds(lambda kind, k, u: {"kind": kind, "k": k, "u": u},
                     st.sampled_from(["inside", "below", "first", "knot", "inside", "last", "last"]),
                     st.integers(0, 60), st.floats(0.01, 0.99))


def resolve_query(P, q):
    """-> (pressure, effective kind, index of the data point or None)."""
    n = len(P)
    kind = q["kind"]
    if kind == "inside" and n < 2:
        kind = "below"
    if kind == "knot":
        idx = q["k"] % n
        kind = "first" if idx == 0 else "last" if idx == n - 1 else "knot"
    if kind == "last" and n == 1:
        kind = "first"
    if kind == "below":
        return P[0] * 10.0 ** (-8 * q["u"]), kind, None
    if kind == "first":
        return P[0], kind, 0
    if kind == "last":
        return P[-1], kind, n - 1
    if kind == "knot":
        return P[idx], kind, idx
    i = q["k"] % (n - 1)
    p = P[i] * (P[i + 1] / P[i]) ** q["u"]
    return min(max(p, P[i]), P[i + 1]), kind, None


def query_pressure(P, q):
    return resolve_query(P, q)[0]


def interpolant(P, N):
    """The independent model of the measured isotherm: Henry's law up to the first point, numpy.interp after."""
    Pa, Na = np.asarray(P, dtype=float), np.asarray(N, dtype=float)
    h = Na[0] / Pa[0]

    def f(p):
        p = np.asarray(p, dtype=float)
        return np.where(p < Pa[0], h * p, np.interp(p, Pa, Na))
    return f


def ref_point_between(P, N, p1, p2):
    """Quadrature of interpolant/p over [p1, p2]: panel edges at the data points, at most 0.5 wide in ln p."""
    f = interpolant(P, N)
    u1, u2 = math.log(p1), math.log(p2)
    if not u2 > u1:
        return 0.0
    knots = [u1] + [math.log(x) for x in P if p1 < x < p2] + [u2]
    edges = []
    for a, b in zip(knots[:-1], knots[1:]):
        k = max(1, int(math.ceil((b - a) / 0.5)))
        edges.extend(np.linspace(a, b, k + 1)[:-1].tolist())
    edges.append(u2)
    return gl_adaptive(f, edges=np.array(edges))


def ref_point(P, N, p):
    """int_0^p: the Henry part is elementary (n1/p1 * min(p, p1)), the rest by quadrature."""
    henry = N[0] / P[0] * min(p, P[0])
    if p <= P[0]:
        return henry
    return henry + ref_point_between(P, N, P[0], p)


def closed_point(P, N, p):
    """Per-segment closed form (used only to validate the quadrature at start-up)."""
    tot = N[0] / P[0] * min(p, P[0])
    for i in range(len(P) - 1):
        if p <= P[i]:
            break
        x = min(p, P[i + 1])
        s = (N[i + 1] - N[i]) / (P[i + 1] - P[i])
        tot += s * (x - P[i]) + (N[i] - s * P[i]) * math.log(x / P[i])
    return tot


def fresh_point(P, N, **over):
    kw = dict(_POINT_KW)
    kw.update(over)
    return pygaps.PointIsotherm(pressure=list(P), loading=list(N), **kw)


def tol_point(N, value):
    return 1e-9 * abs(value) + 1e-13 * max(N)


def strat_point_value():
    return st.builds(lambda d, qs: {"pressure": d[0], "loading": d[1], "queries": qs}, _data(),
                     st.lists(_query(), min_size=1, max_size=3))


def check_point_value(desc, ctx):
    P, N = desc["pressure"], desc["loading"]
    ctx.label(f"points_{'1' if len(P) == 1 else '2-5' if len(P) <= 5 else '6+'}")
    ctx.label("integer_data" if all(isinstance(v, int) for v in P) else "float_data")
    if N[0] == 0:
        ctx.label("zero_first_loading")
    for q in desc["queries"]:
        p, kind, _ = resolve_query(P, q)
        iso = fresh_point(P, N)  # fresh: the range guard depends on earlier calls (C04)
        lib = float(iso.spreading_pressure_at(p))
        ref = ref_point(P, N, p)
        tol = tol_point(N, ref)
        ctx.label(kind)
        if not (math.isfinite(lib) and abs(lib - ref) <= tol):
            raise _viol(f"PointIsotherm(pressure={P}, loading={N}).spreading_pressure_at({p!r}) [{kind}] = {lib!r}, "
                        f"integral of the Henry + linear interpolant = {ref!r}", f"point_value:{kind}",
                        abs(lib - ref) if math.isfinite(lib) else math.inf, tol)
        if p > P[0]:
            ctx.nt([P, N, p], {"pressure": P, "loading": N, "p": p})


def strat_point_laws():
    return st.builds(lambda d, q1, q2, q3: {"pressure": d[0], "loading": d[1], "q1": q1, "q2": q2, "qd": q3},
                     _data(), _query(), _query(), _query())


def check_point_laws(desc, ctx):
    P, N = desc["pressure"], desc["loading"]
    f = interpolant(P, N)
    pa, pb = sorted((query_pressure(P, desc["q1"]), query_pressure(P, desc["q2"])))
    if pa == pb:  # the two queries resolved to the same pressure: use the far end of the data (or the Henry region)
        pa, pb = (pa, P[-1]) if pa < P[-1] else (0.5 * P[0], pb)
    la = float(fresh_point(P, N).spreading_pressure_at(pa))
    lb = float(fresh_point(P, N).spreading_pressure_at(pb))
    # zero limit: below the first point the interpolant is Henry's law, so Pi(p) = n1/p1 * p -> 0 linearly
    pz = P[0] * 10.0 ** (-3 - 9 * desc["q1"]["u"])
    lz = float(fresh_point(P, N).spreading_pressure_at(pz))
    if not abs(lz - N[0] / P[0] * pz) <= 1e-12 * N[0] * (pz / P[0]):
        raise _viol(f"PointIsotherm(pressure={P}, loading={N}): Pi({pz!r}) = {lz!r} does not vanish like "
                    f"n1/p1*p = {N[0] / P[0] * pz!r}", "point_zero_limit", abs(lz - N[0] / P[0] * pz), 1e-12 * N[0] * pz / P[0])
    if pb > pa:
        ref = ref_point_between(P, N, pa, pb)
        tol = tol_point(N, la) + tol_point(N, lb)
        if not abs((lb - la) - ref) <= tol:
            raise _viol(f"PointIsotherm(pressure={P}, loading={N}): Pi({pb!r}) - Pi({pa!r}) = {lb - la!r}, integral of "
                        f"the interpolant over [pa, pb] = {ref!r}", "point_additivity", abs((lb - la) - ref), tol)
        if ref > 2 * tol:
            ctx.label("strict_order_checked")
            if not lb > la:
                raise _viol(f"PointIsotherm(pressure={P}, loading={N}): not increasing: Pi({pa!r}) = {la!r}, "
                            f"Pi({pb!r}) = {lb!r}", "point_monotone", la - lb + ref, tol)
        ctx.label("interval")
        ctx.nt([P, N, pa, pb], desc)
    else:
        ctx.label("degenerate_interval")
    # p dPi/dp = n(p): symmetric difference quotient; the loading is non-decreasing, hence the quotient (the mean
    # loading over the interval) is enclosed by the interpolated loadings at the interval ends
    pc = query_pressure(P, desc["qd"])
    h = 1e-3
    top = P[-1] if len(P) > 1 else P[0]
    pc = min(pc, top * math.exp(-h))
    pm, pp = pc * math.exp(-h), min(pc * math.exp(h), top)
    lm = float(fresh_point(P, N).spreading_pressure_at(pm))
    lp = float(fresh_point(P, N).spreading_pressure_at(pp))
    width = math.log(pp / pm)
    dq = (lp - lm) / width
    tol = (tol_point(N, lm) + tol_point(N, lp)) / width
    mean = ref_point_between(P, N, pm, pp) / width
    n_lo, n_hi, n_c = float(f(pm)), float(f(pp)), float(f(pc))
    if not abs(dq - mean) <= tol + 1e-12 * abs(mean):
        raise _viol(f"PointIsotherm(pressure={P}, loading={N}): [Pi({pp!r}) - Pi({pm!r})]/ln(pp/pm) = {dq!r}, mean "
                    f"interpolated loading there = {mean!r} (n({pc!r}) = {n_c!r})", "point_derivative", abs(dq - mean), tol)
    if not (n_lo - tol - 1e-12 * n_hi <= dq <= n_hi + tol + 1e-12 * n_hi):
        raise _viol(f"PointIsotherm(pressure={P}, loading={N}): p dPi/dp ~ {dq!r} near p = {pc!r} outside "
                    f"[n({pm!r}), n({pp!r})] = [{n_lo!r}, {n_hi!r}]", "point_derivative",
                    max(n_lo - dq, dq - n_hi), tol)
    ctx.label("derivative_" + ("henry" if pp <= P[0] else "data"))
    ctx.nt([P, N, "d", pc], desc)


# ---- unit arguments -------------------------------------------------------------------------------------------------
_L_DIM = [r for r in ru.L_REPS if r[1] is not None]


def strat_point_units():
    tab = K.backend_table()

    def make(data, q, at, ip, iq, il, ilq, im, imq, dens, mm, which):
        P, N = data
        entry = tab[at[0]]
        nat_p = _P_WEIGHTED[ip]
        d = {"pressure": P, "loading": N, "query": q, "adsorbate": entry[0], "T": _r6(K.temperature_for(entry, at[1])),
             "native_p": list(nat_p), "native_l": list(_L_DIM[il]), "native_m": list(ru.M_REPS[im]),
             "material": {"name": "m-c11", "density": _r6(dens), "molar_mass": _r6(mm)},
             "query_p": list(_P_WEIGHTED[iq]) if which[0] else None,
             "query_l": list(_L_DIM[ilq]) if which[1] else None,
             "query_m": list(ru.M_REPS[imq]) if which[2] else None}
        if not (which[0] or which[1] or which[2]):
            d["query_p"] = list(_P_WEIGHTED[iq])
        if which[1] and not which[2] and ilq % 3 == 0:
            # the two unit-less loading bases, asked for the ordinary way: the basis alone (no unit goes with it)
            d["query_l"] = [["fraction", None], ["percent", None]][(ilq // 3) % 2]
        return d

    nP = len(_P_WEIGHTED)
    return st.builds(make, _data(), _query(), st.tuples(st.integers(0, len(tab) - 1), st.floats(0, 1)),
                     st.integers(0, nP - 1), st.integers(0, nP - 1), st.integers(0, len(_L_DIM) - 1),
                     st.integers(0, len(_L_DIM) - 1), st.integers(0, 18), st.integers(0, 18),
                     st.floats(0.05, 25.0), st.floats(10.0, 5000.0),
                     st.tuples(st.sampled_from([True, True, False]), st.booleans(), st.booleans()))


def _build_unit_iso(desc):
    nat_p, nat_l, nat_m = desc["native_p"], desc["native_l"], desc["native_m"]
    return pygaps.PointIsotherm(
        pressure=list(desc["pressure"]), loading=list(desc["loading"]),
        material=K.build_material(desc["material"]), adsorbate=desc["adsorbate"], temperature=desc["T"],
        pressure_mode=nat_p[0], pressure_unit=nat_p[1], loading_basis=nat_l[0], loading_unit=nat_l[1],
        material_basis=nat_m[0], material_unit=nat_m[1], temperature_unit="K")


def check_point_units(desc, ctx):
    P, N = desc["pressure"], desc["loading"]
    entry = next(e for e in K.backend_table() if e[0] == desc["adsorbate"])
    fluid, T = entry[1], desc["T"]
    nat_p, nat_l, nat_m = tuple(desc["native_p"]), tuple(desc["native_l"]), tuple(desc["native_m"])
    q_p = tuple(desc["query_p"]) if desc["query_p"] else None
    q_l = tuple(desc["query_l"]) if desc["query_l"] else None
    q_m = tuple(desc["query_m"]) if desc["query_m"] else None
    q = desc["query"]
    p, kind, idx = resolve_query(P, q)
    native = float(_build_unit_iso(desc).spreading_pressure_at(p))
    ref_native = ref_point(P, N, p)
    if not abs(native - ref_native) <= tol_point(N, ref_native):
        raise _viol(f"PointIsotherm(pressure={P}, loading={N}) in {nat_p}/{nat_l}/{nat_m}: spreading_pressure_at({p!r}) = "
                    f"{native!r}, integral of the interpolant = {ref_native!r}", f"point_value:{kind}",
                    abs(native - ref_native), tol_point(N, ref_native))
    kwargs = {}
    pq = p
    if q_p is not None:
        if q_p[0] == "absolute":
            kwargs.update(pressure_mode="absolute", pressure_unit=q_p[1])
        else:
            kwargs.update(pressure_mode=q_p[0])
        if kind in ("first", "last", "knot"):
            # the edge / data point as the library itself reports it in the requested representation
            pkw = {k: v for k, v in kwargs.items() if k.startswith("pressure_")}
            pq = float(_build_unit_iso(desc).pressure(branch="ads", **pkw)[idx])
            want = ru.conv_pressure(P[idx], nat_p, q_p, fluid, T)
            if not abs(pq - want) <= ru.tol_for(nat_p, q_p) * abs(want):
                raise Violation(f"PointIsotherm stored in {nat_p}: data pressure {P[idx]!r} is reported as {pq!r} in "
                                f"{q_p}, reference conversion {want!r}", tag="point_unit:data_pressure")
        else:
            pq = ru.conv_pressure(p, nat_p, q_p, fluid, T)
    if q_l is not None:
        kwargs.update(loading_basis=q_l[0], loading_unit=q_l[1])
    if q_m is not None:
        kwargs.update(material_basis=q_m[0], material_unit=q_m[1])
    conv = float(_build_unit_iso(desc).spreading_pressure_at(pq, **kwargs))
    factor = ru.conv_full_loading(1.0, nat_l, nat_m, q_l or nat_l, q_m or nat_m, fluid, T,
                                  desc["material"]["density"], desc["material"]["molar_mass"])
    want = native * factor
    n_p = float(interpolant(P, N)(p))
    tol = (tol_point(N, native) + (ru.tol_for(nat_p, q_p) if q_p else 0.0) * (abs(native) + n_p)
           + (ru.tol_for(nat_l, q_l, nat_m, q_m) if (q_l or q_m) else 0.0) * abs(native)) * abs(factor)
    ctx.label(kind, "P" if q_p else "-", "L" if q_l else "-", "M" if q_m else "-")
    if q_p:
        ctx.label(f"{nat_p[0]}->{q_p[0]}")
    if not (math.isfinite(conv) and abs(conv - want) <= tol):
        raise _viol(f"PointIsotherm(pressure={P}, loading={N}; {desc['adsorbate']} at {T} K, material "
                    f"{desc['material']}) stored in {nat_p}/{nat_l}/{nat_m}: spreading_pressure_at({pq!r}, {kwargs}) "
                    f"[{kind}] = {conv!r}; in isotherm units it is {native!r}, converted by the reference: {want!r}",
                    "point_unit:" + ("P" if q_p else "") + ("L" if q_l else "") + ("M" if q_m else ""),
                    abs(conv - want) if math.isfinite(conv) else math.inf, tol)
    if p > P[0]:
        ctx.nt([P, N, p, q_p, q_l, q_m, nat_p, nat_l, nat_m], desc)


# =====================================================================================================================
# known findings (predicates referenced from findings/pending/C11.json)
# =====================================================================================================================
def kf_temkin_constant(check_name, desc, viol):
    """TemkinApprox.spreading_pressure is the integral plus the constant n_m*tht/2 (antiderivative constant missing).
    Only absolute values are affected; matches only when removing exactly that constant would satisfy the clause."""
    if desc.get("model") != "TemkinApprox" or viol.tag not in ("value", "zero_limit"):
        return False
    par = desc["params"]
    if not par["tht"] > 0:
        return False
    d = viol.detail or {}
    return abs(d.get("diff", math.inf) - par["n_m"] * par["tht"] / 2.0) <= d.get("tol", 0.0) + 1e-12 * par["n_m"] * par["tht"]


def kf_dubinin_quadrature(check_name, desc, viol):
    """DR / DA integrate loading(x)/x over [0, p] in linear x; for RT/e < 0.2 the integrand is a spike next to 0 that
    QUADPACK does not resolve (errors from 1e-4 up to several 100 %)."""
    if desc.get("model") not in DUBININ or viol.tag not in ACCURACY_TAGS:
        return False
    return dubinin_a(desc) < 0.2


def kf_model_relative_guard(check_name, desc, viol):
    """ModelIsotherm.spreading_pressure_at tests `not pressure_unit and self.pressure_mode.startswith('relative')`
    instead of `pressure_mode == 'absolute' and not pressure_unit`: a relative / relative% pressure given to an
    isotherm stored in a relative mode is refused with 'Must specify a pressure unit ...'."""
    return (viol.tag == "crash:ParameterError:src/pygaps/core/modelisotherm.py:spreading_pressure_at"
            and desc["native"][0] != "absolute" and desc["query"][0] != "absolute")


def kf_point_edge_roundtrip(check_name, desc, viol):
    """PointIsotherm.spreading_pressure_at at the last data point given in another pressure unit / mode: the
    last segment calls loading_at, which converts the pressure back to isotherm units; a one-ulp round-trip error
    puts it above the interpolation range and scipy's ValueError escapes."""
    if viol.tag != "crash:ValueError:src/pygaps/utilities/isotherm_interpolator.py:__call__":
        return False
    if "above the interpolation range" not in viol.message or not desc.get("query_p"):
        return False
    return resolve_query(desc["pressure"], desc["query"])[1] == "last"


# =====================================================================================================================
def self_validate():
    """Reference quadrature against closed forms; closed forms against each other."""
    def same(a, b, rel, what):
        if not abs(a - b) <= rel * max(abs(a), abs(b)) + 1e-300:
            raise HarnessError(f"self-validation failed: {what}: {a!r} vs {b!r}")
    lang = pgm.get_isotherm_model("Langmuir", parameters={"K": 37.0, "n_m": 2.5})
    for p in (1e-20, 1e-6, 1e-3, 1.0, 1e3):
        same(ref_spreading(lang.loading, p), 2.5 * math.log1p(37.0 * p), 1e-12, f"Langmuir at {p}")
    same(ref_between(lang.loading, 0.01, 10.0), 2.5 * (math.log1p(370.0) - math.log1p(0.37)), 1e-12, "Langmuir interval")
    fr = pgm.get_isotherm_model("Freundlich", parameters={"K": 3.0, "m": 7.0})
    for p in (1e-25, 1e-6, 1.0, 1e3):
        same(ref_spreading(fr.loading, p), 21.0 * p ** (1 / 7.0), 1e-12, f"Freundlich at {p}")
    bet = pgm.get_isotherm_model("BET", parameters={"n_m": 2.0, "C": 50.0, "N": 1.0})
    same(ref_spreading(bet.loading, 0.98), 2.0 * math.log((1 - 0.98 + 49.0) / (1 - 0.98)), 1e-11, "BET near the pole")
    for name, m, a in (("DR", 2.0, 0.5), ("DR", 2.0, 0.02), ("DA", 1.1, 0.06), ("DA", 3.0, 0.006), ("DA", 2.4, 4.0)):
        par = {"n_m": 10.0, "e": R_GAS * 300.0 / a}
        if name == "DA":
            par["m"] = m
        mod = build_model({"model": name, "params": par, "T": 300.0})
        for p in (1e-6, 0.1, 1.0):
            cf = dubinin_closed(10.0, a, m, p)
            got = ref_spreading_dubinin(mod.loading, p, a, m)
            if not abs(got - cf) <= 1e-11 * cf + 1e-14 * 10.0 / a:
                raise HarnessError(f"self-validation failed: {name} a={a} m={m} p={p}: {got!r} vs {cf!r}")
    same(dubinin_closed(10.0, 0.5, 2.0, 0.1), 10.0 * math.sqrt(math.pi) / (2 * 0.5) * special.erfc(0.5 * math.log(10.0)),
         1e-13, "Gamma(1/2,x^2) = sqrt(pi) erfc(x)")
    P, N = [0.1, 0.5, 0.50001, 2.0, 300.0], [1.0, 1.5, 4.0, 4.0, 9.0]
    for p in (0.01, 0.1, 0.3, 0.5, 0.500005, 1.0, 2.0, 299.0, 300.0):
        same(ref_point(P, N, p), closed_point(P, N, p), 1e-12, f"interpolant at {p}")
    problems = ru.check_names_against_library()
    if problems:
        raise HarnessError("unit tables: " + "; ".join(problems))


CHECKS = [
    Check("model_value", check_model_value, strategy=lambda: _model_strategy("value"),
          budget={"quick": 6500, "thorough": 104000},
          rule="13 models x parameters x p in the validity range: spreading_pressure(p) vs quadrature of loading/p"),
    Check("model_zero_limit", check_model_zero, strategy=lambda: _model_strategy("zero"),
          budget={"quick": 2600, "thorough": 31200},
          rule="p in [1e-30, 1e-7]: the value is the (vanishing) integral; a constant offset survives nowhere"),
    Check("model_additivity", check_model_additivity, strategy=lambda: _model_strategy("pair"),
          budget={"quick": 3900, "thorough": 62400},
          rule="Pi(p2) - Pi(p1) vs quadrature over [p1, p2]; strictly increasing beyond the evaluation noise"),
    Check("model_derivative", check_model_derivative, strategy=lambda: _model_strategy("deriv"),
          budget={"quick": 3900, "thorough": 62400},
          rule="symmetric difference quotient in ln p (h = 0.01; 0.5 for the numerically integrated models) vs the mean "
               "loading over the interval, enclosed by the extreme loadings of the interval"),
    Check("model_units", check_model_units, strategy=lambda: _model_strategy("unit"),
          budget={"quick": 3250, "thorough": 41600},
          rule="ModelIsotherm in any of the 10 pressure representations (BET/GAB/DR/DA: relative), query in any other; "
               "mode omitted for unit-only changes in 30 % of the cases"),
    Check("point_value", check_point_value, strategy=strat_point_value, budget={"quick": 1200, "thorough": 19200},
          rule="up to 3 queries per generated data set, a fresh isotherm per query"),
    Check("point_laws", check_point_laws, strategy=strat_point_laws, budget={"quick": 1000, "thorough": 14400},
          rule="zero limit below the first point, additivity and order over two queries, difference quotient"),
    Check("point_units", check_point_units, strategy=strat_point_units, budget={"quick": 1400, "thorough": 21600},
          rule="stored representation (10 x 25 x 19) x requested pressure / loading / material representation"),
]
