"""C09 helper: sqlite3 shim with a statement counter and a fault plan, database images through an independent
connection, forked kill runs.

No repository hook is needed: `pygaps.parsing.sqlite` looks `sqlite3` up as a module attribute, so that attribute is
replaced (only while a run is in progress) by a shim object that forwards everything to the real module except
`connect`, which passes `factory=` a Connection subclass whose `cursor()` returns a counting Cursor subclass and whose
`commit()` can be intercepted.  The harness itself always uses the real `sqlite3` module."""
import contextlib
import os
import shutil
import sqlite3 as real_sqlite3
import tempfile

EXIT_PLANNED = 77  # exit code of a forked child that died at the planned instant
EXIT_NOT_REACHED = 78  # child ran to completion: the planned instant was never reached (harness error)
EXIT_CHILD_ERROR = 79  # child raised before the planned instant (harness error)

RAISE_KINDS = {
    "IntegrityError": real_sqlite3.IntegrityError,
    "InterfaceError": real_sqlite3.InterfaceError,
    "OperationalError": real_sqlite3.OperationalError,
}
KILL_STMT_KINDS = ("exit_before", "exit_after")
KILL_COMMIT_KINDS = ("exit_before_commit", "exit_after_commit")
RAISE_COMMIT_KIND = "raise_at_commit"  # the commit itself fails in the storage layer (e.g. 'database is locked')
_STMT_MODES = tuple(RAISE_KINDS) + KILL_STMT_KINDS


class Plan:
    """mode: None (pass-through, still counting) | a key of RAISE_KINDS | one of the exit kinds."""

    def __init__(self):
        self.reset()

    def reset(self, mode=None, k=None):
        self.mode = mode
        self.k = k
        self.n = 0  # statements issued so far (execute / executemany / executescript calls)
        self.log = []  # the SQL text of every statement issued
        self.fired = False
        self.commit_calls = 0
        self.commits = 0
        self.rollbacks = 0
        self.connections = 0


PLAN = Plan()


def _make_exc(kind, i):
    cls = RAISE_KINDS[kind]
    return cls(f"injected {kind} at statement {i}")


def _before(cursor, sql):
    i = PLAN.n
    PLAN.n += 1
    PLAN.log.append(sql)
    if PLAN.k == i and not PLAN.fired and PLAN.mode in _STMT_MODES:
        if PLAN.mode in RAISE_KINDS:
            PLAN.fired = True
            # A real execute() first resets the statement that is still active on this cursor (e.g. a SELECT read with
            # fetchone() only) and then fails; mimic the reset, otherwise the un-reset read statement keeps the
            # connection alive as a zombie after close() for as long as a traceback references the cursor.
            real_sqlite3.Cursor.execute(cursor, "SELECT 1")
            real_sqlite3.Cursor.fetchall(cursor)
            raise _make_exc(PLAN.mode, i)
        if PLAN.mode == "exit_before":
            os._exit(EXIT_PLANNED)
    return i


def _after(i):
    if PLAN.k == i and PLAN.mode == "exit_after":
        os._exit(EXIT_PLANNED)


class FaultCursor(real_sqlite3.Cursor):
    def execute(self, sql, *args):
        i = _before(self, sql)
        r = super().execute(sql, *args)
        _after(i)
        return r

    def executemany(self, sql, *args):
        i = _before(self, sql)
        r = super().executemany(sql, *args)
        _after(i)
        return r

    def executescript(self, sql):
        i = _before(self, sql)
        r = super().executescript(sql)
        _after(i)
        return r


class FaultConnection(real_sqlite3.Connection):
    def cursor(self, factory=None):
        return super().cursor(FaultCursor)

    def execute(self, sql, *args):  # shortcut methods create a cursor internally; route them through ours
        return self.cursor().execute(sql, *args)

    def executemany(self, sql, *args):
        return self.cursor().executemany(sql, *args)

    def executescript(self, sql):
        return self.cursor().executescript(sql)

    def commit(self):
        j = PLAN.commit_calls  # commits are numbered; the plan's k selects one (None = the first)
        PLAN.commit_calls += 1
        if PLAN.mode == "exit_before_commit" and (PLAN.k or 0) == j:
            os._exit(EXIT_PLANNED)
        if PLAN.mode == RAISE_COMMIT_KIND and (PLAN.k or 0) == j and not PLAN.fired:
            PLAN.fired = True
            raise real_sqlite3.OperationalError("injected OperationalError at commit: database is locked")
        super().commit()
        PLAN.commits += 1
        if PLAN.mode == "exit_after_commit" and (PLAN.k or 0) == j:
            os._exit(EXIT_PLANNED)

    def rollback(self):
        PLAN.rollbacks += 1
        super().rollback()


class _Shim:
    """Stands in for the `sqlite3` module inside pygaps.parsing.sqlite."""

    def __getattr__(self, name):
        return getattr(real_sqlite3, name)

    @staticmethod
    def connect(database, *args, **kwargs):
        kwargs["factory"] = FaultConnection
        # nothing else accesses the file: a lock wait can only be a self-inflicted deadlock; do not sit out the
        # default 5 s busy timeout
        kwargs.setdefault("timeout", 0.25)
        PLAN.connections += 1
        return real_sqlite3.connect(database, *args, **kwargs)


SHIM = _Shim()


@contextlib.contextmanager
def installed(mode=None, k=None):
    """Install the shim with a fresh plan; always restore the real module."""
    import pygaps.parsing.sqlite as target
    PLAN.reset(mode, k)
    prev = target.sqlite3
    target.sqlite3 = SHIM
    try:
        yield PLAN
    finally:
        target.sqlite3 = prev


# ---- scratch directories -----------------------------------------------------------------------------------------------
def scratch_root():
    for cand in ("/dev/shm",):
        if os.path.isdir(cand) and os.access(cand, os.W_OK):
            return cand
    return None


@contextlib.contextmanager
def scratch_dir():
    d = tempfile.mkdtemp(prefix="verif_C09_", dir=scratch_root())
    try:
        yield d
    finally:
        shutil.rmtree(d, ignore_errors=True)


_TEMPLATE = None


def template_bytes():
    """An empty store created by the CURRENT tree's db_create (once per process tree; forked workers inherit it)."""
    global _TEMPLATE
    if _TEMPLATE is None:
        from pygaps.utilities.sqlite_db_creator import db_create
        from pbt import case as K
        with scratch_dir() as d:
            p = os.path.join(d, "template.db")
            db_create(p)
            with open(p, "rb") as f:
                _TEMPLATE = f.read()
        K.reset_registries()
    return _TEMPLATE


def forget_library_state():
    """Every run of a scenario stands for a fresh process working on a file put back to a known content: whatever the
    library memoises at module level about database files (functools caches of connections, ...) is dropped before the
    file is rewritten underneath it. Inside a run nothing is reset, so what a failed call leaves behind in such a memo
    is seen by the calls that follow it."""
    import gc
    import pygaps.parsing.sqlite as target
    for obj in list(vars(target).values()):
        clear = getattr(obj, "cache_clear", None)
        if callable(clear):
            clear()
    gc.collect()


def write_db(path, content):
    forget_library_state()
    for suffix in ("-journal", "-wal", "-shm"):
        if os.path.exists(path + suffix):
            os.remove(path + suffix)
    with open(path, "wb") as f:
        f.write(content)


def read_db(path):
    with open(path, "rb") as f:
        return f.read()


# ---- images through an independent connection -----------------------------------------------------------------------------
def _rows(cur, sql):
    return cur.execute(sql).fetchall()


_IMAGE_SQL = {
    # autoincrement ids are dropped; references to them are replaced by the referenced name. Ordering is done by
    # SQLite (total order over all storage classes), so the lists compare directly.
    "adsorbates": "SELECT name FROM adsorbates ORDER BY 1",
    "adsorbate_properties":
        "SELECT COALESCE(a.name, '<no adsorbate ' || p.ads_id || '>'), p.type, typeof(p.value), p.value "
        "FROM adsorbate_properties p LEFT JOIN adsorbates a ON a.id = p.ads_id ORDER BY 1, 2, 3, 4",
    "adsorbate_properties_type": "SELECT type, unit, description FROM adsorbate_properties_type ORDER BY 1, 2, 3",
    "materials": "SELECT name FROM materials ORDER BY 1",
    "material_properties":
        "SELECT COALESCE(m.name, '<no material ' || p.mat_id || '>'), p.type, typeof(p.value), p.value "
        "FROM material_properties p LEFT JOIN materials m ON m.id = p.mat_id ORDER BY 1, 2, 3, 4",
    "material_properties_type": "SELECT type, unit, description FROM material_properties_type ORDER BY 1, 2, 3",
    "isotherm_type": "SELECT type, description FROM isotherm_type ORDER BY 1, 2",
    "isotherms": "SELECT id, iso_type, material, adsorbate, typeof(temperature), temperature FROM isotherms "
                 "ORDER BY 1, 2, 3, 4, 5, 6",
    "isotherm_properties": "SELECT iso_id, type, typeof(value), value FROM isotherm_properties ORDER BY 1, 2, 3, 4",
    "isotherm_data": "SELECT iso_id, type, dtype, typeof(data), data FROM isotherm_data ORDER BY 1, 2, 3, 4, 5",
    "_tables": "SELECT name FROM sqlite_master WHERE type = 'table' AND name != 'sqlite_sequence' ORDER BY 1",
}


_RAW_TABLES = ("adsorbates", "adsorbate_properties", "adsorbate_properties_type", "materials", "material_properties",
               "material_properties_type", "isotherm_type", "isotherms", "isotherm_properties", "isotherm_data")


class Image(dict):
    """Canonical contents (dict table -> rows); `.raw` holds the rows as stored, ids included."""
    raw = None


def image(path, refs=()):
    """(canonical table contents modulo autoincrement ids, list of pragma problems) read through an independent
    connection (a hot journal left by a killed writer is rolled back by SQLite when this connection first reads).
    Shortcut: when the rows as stored (ids included) equal those of one of `refs`, the canonical form is the same
    and is reused instead of recomputed (the join + sort over ~2000 shipped adsorbate properties dominates)."""
    conn = real_sqlite3.connect(path)
    try:
        cur = conn.cursor()
        raw = {t: _rows(cur, f'SELECT * FROM "{t}"') for t in _RAW_TABLES}
        raw["_tables"] = _rows(cur, _IMAGE_SQL["_tables"])
        img = None
        for r in refs:
            if r.raw == raw:
                img = r
                break
        if img is None:
            img = Image({name: _rows(cur, sql) for name, sql in _IMAGE_SQL.items()})
            img.raw = raw
        problems = []
        fk = _rows(cur, "PRAGMA foreign_key_check")
        if fk:
            problems.append("foreign_key_check: " + repr([tuple(r) for r in fk[:5]]))
        ic = _rows(cur, "PRAGMA integrity_check")
        if [tuple(r) for r in ic] != [("ok",)]:
            problems.append("integrity_check: " + repr([tuple(r) for r in ic[:5]]))
        return img, problems
    finally:
        conn.close()


def column(path, sql):
    """First column of a query through an independent connection."""
    conn = real_sqlite3.connect(path)
    try:
        return [r[0] for r in conn.execute(sql).fetchall()]
    finally:
        conn.close()


def diff_images(a, b, limit=4):
    """Human-readable difference of two images (rows only in a / only in b per table)."""
    out = []
    for t in sorted(set(a) | set(b)):
        ra, rb = a.get(t, []), b.get(t, [])
        if ra == rb:
            continue
        ca, cb = list(ra), list(rb)
        for x in list(ca):
            if x in cb:
                ca.remove(x)
                cb.remove(x)
        out.append(f"{t}: -{ca[:limit]} +{cb[:limit]}")
    return "; ".join(out)


# ---- forked kill run ------------------------------------------------------------------------------------------------
def run_killed(fn, mode, k):
    """Run fn() in a forked child with the plan (mode, k); the child dies by os._exit at the planned instant.
    Returns the child's exit code (EXIT_PLANNED when the instant was reached)."""
    pid = os.fork()
    if pid == 0:
        code = EXIT_NOT_REACHED
        try:
            with installed(mode, k):
                fn()
        except BaseException:  # noqa
            code = EXIT_CHILD_ERROR
        finally:
            os._exit(code)
    while True:
        try:
            _, status = os.waitpid(pid, 0)
            break
        except InterruptedError:
            continue
    if os.WIFEXITED(status):
        return os.WEXITSTATUS(status)
    return -os.WTERMSIG(status) if os.WIFSIGNALED(status) else -999
