"""C10 - isotherm model equations are mutually inverse, monotonic and physically bounded."""
import math

import numpy as np
from hypothesis import strategies as st

import pygaps
from pygaps.modelling import _MODELS, get_isotherm_model
from pygaps.utilities.exceptions import CalculationError

from pbt import case as K
from pbt import ref_units as ru
from pbt import strategies as S
from pbt.core import Check, HarnessError, Inconclusive, Violation

LEVEL = "exploration"
RULE = (
    "Cases = hypothesis-drawn (model, parameter vector, positions in the validity range). Parameter windows (finite "
    "sub-windows of param_default_bounds, log-uniform unless noted): capacities n_m in [1e-2,1e2]; affinities K in "
    "[1e-3,1e3]; BET C in [1e-2,1e3], N in [1e-3,0.99]; GAB C in [1e-2,1e3], K in [1e-3,0.99]; Freundlich m in [0.2,10]; "
    "DR/DA e in [300,3e4] with RT = 1000 (class default) or R*T for T in [60,400] K, DA m uniform [1,3]; Quadratic "
    "Ka in {0} u [1e-3,1e3], Kb in [1e-3,1e3] (non-negative constants, quantifier); TemkinApprox tht uniform [0,3] "
    "(quantifier); Toth t in [0.2,5]; Jensen-Seaton K in [1e-2,1e2], a in [0.1,10], b in [1e-3,10], c in [0.2,5]; "
    "Virial K in [1e-2,1e2], A in [-2,2], B in [-0.5,0.5], C in [-0.05,0.05]; FH-VST a1v uniform [-0.9,5]; W-VST "
    "L1v, Lv1 in [0.1,10]. Validity range of the explicit variable: K*p in [1e-6,1e3] (Langmuir family, Henry, "
    "Temkin, Toth capped so that 1+(Kp)^t <= 1e5+1, J-S scaled by a/K); BET/GAB from the Henry regime to 0.99 x pole; "
    "DR/DA relative pressure from theta ~ 1e-13 to 0.9999; Virial loadings up to 0.9 x the first point where "
    "dlnp/dlnn < 0.1 (<= 5); FH-VST theta in [1e-6,0.999]; W-VST theta up to 0.9 x the turning point of the typed "
    "reference formula. Positions are half log-uniform, half linear in the range; the zero point is added by flag. "
    "Input forms: python float, numpy.float64, 0-d array, 1-d array of 1..40 values. Oracles: conditioning-aware "
    "inverse law in both spaces (closed forms), residual in the space of the explicit function against the SciPy "
    "solver tolerance (numerical inverses, only where the library returns), scalar/array agreement, loading(0) = 0, "
    "loading >= 0, non-decreasing on a sorted grid, loading <= saturation capacity, loading/p -> Henry constant, and "
    "ModelIsotherm.loading_at / pressure_at == bare model composed with the independent reference conversion "
    "(ref_units; 10 pressure x 25 dimensional loading x 19 material representations, native and requested). "
    "Non-trivial = parameters strictly inside the window and at least one strictly positive abscissa evaluated; "
    "distinct by (check, model, parameter vector rounded to 6 significant digits)."
)
ASSUMPTIONS = [
    "closed-form inverse law tolerance: |p'-p| <= 1e-9*max(1,kappa)*p and |n(p')-n(p)| <= 1e-9*max(1,1/kappa)*n with "
    "kappa = n/(p dn/dp) estimated by the harness from central differences (h = 1e-5) of the explicit function; "
    "abscissae with kappa > 1e6 are only checked in the well-conditioned space (4.5e6 x double rounding is allowed "
    "per unit of conditioning, so legitimately amplified rounding passes, a wrong branch/constant does not)",
    "numerical inverses (TSLangmuir, TemkinApprox, Jensen-Seaton pressure; Virial, FH-VST, W-VST loading): residual "
    "|explicit(inverse(y)) - y| <= 100 * 1.49e-8 * ||max(slope(0), slope(x)) * x||_2 + 1e-12*|y| (MINPACK hybr xtol is "
    "relative to the norm of the solution vector scaled by the Jacobian column norms, first taken at the start "
    "x0 = 0); CalculationError is 'library reports failure' = inconclusive",
    "scalar / 0-d / 1-d agreement of one formula: 1e-10*max(1, conditioning) relative (ulp-level differences between "
    "numpy's scalar and vector pow/exp/log paths are legitimate)",
    "Henry limit evaluated where the model's typed first-order deviation is <= 1e-8; tolerance 1e-6",
    "ModelIsotherm clause: CoolProp PropsSI + SI tables of pbt.ref_units are the conversion truth; the library's "
    "input-side factor may differ from the reference by the unit tolerance (1e-9; 2e-4 per rounded library constant), "
    "so the expected value is the band the monotone bare model function spans over argument*(1 +- tol), "
    "reference-converted and widened by the output-side unit tolerance (+ solver tolerance for numerical inverses, "
    "+ the rounding noise of the quadratic-formula inverses, KF-C10-2); abscissae where the model amplifies its "
    "argument by > 1e3 are left out; fraction/percent loading bases are left to C03 (accessor semantics); the zero "
    "point and Virial.loading_at are not routed through this check",
    "Quadratic Kb = 0 (leading coefficient of its closed-form inverse vanishes identically) is outside the window; "
    "BET C = N and GAB C = 1 are inside (hypothesis draws C = 1 often) and fall under KF-C10-1 / KF-C10-2",
    "open known findings (findings/pending/C10.json): KF-C10-1 scalar 0/0 -> nan_to_num(copy=False) ValueError; "
    "KF-C10-2 cancellation in the quadratic-formula inverses (error must be explained by 64 eps y^2/|4xc|); KF-C10-3/4 "
    "Virial.loading (Nelder-Mead, absolute tolerances; arrays crash); KF-C10-5 FH-VST/W-VST loading returns a "
    "non-solution with success. Cases of these classes are still generated, examined completely, and counted as "
    "excluded_known; any violation outside the narrow predicates is reported",
]

EPS = 2.220446049250313e-16
XTOL = 1.49012e-8
R_GAS = 8.31446261815324

CLOSED = ("Henry", "Langmuir", "DSLangmuir", "BET", "GAB", "Freundlich", "DR", "DA", "Quadratic", "Toth")
NUMERIC_P = ("TSLangmuir", "TemkinApprox", "JensenSeaton")  # loading explicit, pressure by root finding
NUMERIC_L = ("Virial", "FHVST", "WVST")  # pressure explicit, loading by root finding / minimisation
ALL_MODELS = CLOSED + NUMERIC_P + NUMERIC_L
QUADRATIC_FORMULA = ("BET", "GAB", "DSLangmuir", "Quadratic")
ZERO_DEFINED = tuple(m for m in ALL_MODELS if m not in ("DR", "DA"))  # ln(0) is not defined by the DR/DA equations


def worker_init():
    K.reset_registries()


def self_validate():
    """The harness pieces that decide domains / tolerances are checked against closed forms."""
    if sorted(ALL_MODELS) != sorted(_MODELS):
        raise HarnessError(f"model list changed: library {_MODELS}")
    # conditioning estimator against the analytic Langmuir value 1 + K p
    x = np.array([1e-3, 0.5, 40.0])
    e = elasticity(lambda p: 3.0 * 2.0 * p / (1.0 + 2.0 * p), x)
    if not np.allclose(1.0 / e, 1.0 + 2.0 * x, rtol=1e-6):
        raise HarnessError("elasticity estimator is off")
    # Virial turning point: p = n exp(-n) turns at n = 1
    if not abs(virial_limit({"K": 1.0, "A": -1.0, "B": 0.0, "C": 0.0}) - 0.9 * 0.9) < 5e-3:
        raise HarnessError("virial_limit is off")
    # W-VST reference with L1v = Lv1 = 1 is the ideal (Langmuir) vacancy solution
    th = np.array([0.1, 0.5, 0.9])
    if not np.allclose(ref_wvst_lnp({"n_m": 2.0, "K": 3.0, "L1v": 1.0, "Lv1": 1.0}, th),
                       np.log(2.0 / 3.0 * th / (1 - th)), rtol=1e-12):
        raise HarnessError("ref_wvst_lnp is off")
    # Henry constants of the typed table against a numeric limit of an independent closed form (Langmuir family)
    if henry_constant("DSLangmuir", {"n_m1": 1.0, "K1": 2.0, "n_m2": 3.0, "K2": 4.0}) != 14.0:
        raise HarnessError("henry table is off")
    problems = ru.check_names_against_library()
    if problems:
        raise HarnessError("ref_units names: " + "; ".join(problems))


# =====================================================================================================================
# model specifications (typed independently of the library: domains, saturation capacities, Henry constants)
# =====================================================================================================================
def _lg(lo, hi):
    """log-uniform float in [lo, hi]"""
    return st.floats(math.log10(lo), math.log10(hi)).map(lambda e: float(10.0 ** e))


def _params(model):
    cap = _lg(1e-2, 1e2)
    aff = _lg(1e-3, 1e3)
    if model == "Henry":
        return st.fixed_dictionaries({"K": aff})
    if model == "Langmuir":
        return st.fixed_dictionaries({"K": aff, "n_m": cap})
    if model == "DSLangmuir":
        return st.fixed_dictionaries({"n_m1": cap, "K1": aff, "n_m2": cap, "K2": aff})
    if model == "TSLangmuir":
        return st.fixed_dictionaries({"n_m1": cap, "n_m2": cap, "n_m3": cap, "K1": aff, "K2": aff, "K3": aff})
    if model == "BET":
        return st.fixed_dictionaries({"n_m": cap, "C": _lg(1e-2, 1e3), "N": _lg(1e-3, 0.99)})
    if model == "GAB":
        return st.fixed_dictionaries({"n_m": cap, "C": _lg(1e-2, 1e3), "K": _lg(1e-3, 0.99)})
    if model == "Freundlich":
        return st.fixed_dictionaries({"K": aff, "m": _lg(0.2, 10.0)})
    if model == "DR":
        return st.fixed_dictionaries({"n_m": cap, "e": _lg(300.0, 3e4)})
    if model == "DA":
        return st.fixed_dictionaries({"n_m": cap, "e": _lg(300.0, 3e4), "m": st.floats(1.0, 3.0)})
    if model == "Quadratic":
        return st.fixed_dictionaries({"n_m": cap, "Ka": st.one_of(aff, aff, aff, st.just(0.0)), "Kb": aff})
    if model == "TemkinApprox":
        return st.fixed_dictionaries({"n_m": cap, "K": aff, "tht": st.floats(0.0, 3.0)})
    if model == "Toth":
        return st.fixed_dictionaries({"n_m": cap, "K": aff, "t": _lg(0.2, 5.0)})
    if model == "JensenSeaton":
        return st.fixed_dictionaries({"K": _lg(1e-2, 1e2), "a": _lg(0.1, 10.0), "b": _lg(1e-3, 10.0), "c": _lg(0.2, 5.0)})
    if model == "Virial":
        return st.fixed_dictionaries({"K": _lg(1e-2, 1e2), "A": st.floats(-2.0, 2.0), "B": st.floats(-0.5, 0.5),
                                      "C": st.floats(-0.05, 0.05)})
    if model == "FHVST":
        return st.fixed_dictionaries({"n_m": cap, "K": _lg(1e-2, 1e2), "a1v": st.floats(-0.9, 5.0)})
    if model == "WVST":
        return st.fixed_dictionaries({"n_m": cap, "K": _lg(1e-2, 1e2), "L1v": _lg(0.1, 10.0), "Lv1": _lg(0.1, 10.0)})
    raise KeyError(model)


# declared bounds of the pinned tree (typed from the model classes). The quantifier is "any parameters inside its declared
# bounds": where the library under test declares MORE than this table, half of the draws of that parameter are moved into
# the newly declared region (mirror image below a lower bound that moved down, beyond an upper bound that moved up), so that
# the clauses are asked of what the library now says it accepts. With the pinned bounds the strategies are exactly _params.
_INF = math.inf
_DECLARED = {
    "Henry": {"K": (0, _INF)}, "Langmuir": {"K": (0, _INF), "n_m": (0, _INF)},
    "DSLangmuir": {k: (0, _INF) for k in ("n_m1", "K1", "n_m2", "K2")},
    "TSLangmuir": {k: (0, _INF) for k in ("n_m1", "n_m2", "n_m3", "K1", "K2", "K3")},
    "BET": {"n_m": (0, _INF), "C": (0, _INF), "N": (0, 1)}, "GAB": {"n_m": (0, _INF), "C": (0, _INF), "K": (0, 1)},
    "Freundlich": {"K": (0, _INF), "m": (0, _INF)}, "DA": {"n_m": (0, _INF), "e": (0, _INF), "m": (1, 3)},
    "DR": {"n_m": (0, _INF), "e": (0, _INF)}, "Quadratic": {"n_m": (0, _INF), "Ka": (-_INF, _INF), "Kb": (-_INF, _INF)},
    "TemkinApprox": {"n_m": (0, _INF), "K": (0, _INF), "tht": (0, _INF)},
    "Virial": {"K": (0, _INF), "A": (-_INF, _INF), "B": (-_INF, _INF), "C": (-_INF, _INF)},
    "Toth": {"n_m": (0, _INF), "K": (0, _INF), "t": (0, _INF)},
    "JensenSeaton": {k: (0, _INF) for k in ("K", "a", "b", "c")},
    "FHVST": {"n_m": (0, _INF), "K": (0, _INF), "a1v": (-_INF, _INF)},
    "WVST": {"n_m": (0, _INF), "K": (0, _INF), "L1v": (-_INF, _INF), "Lv1": (-_INF, _INF)},
}


def _widened(model):
    """{parameter: 'lo' | 'hi'} for the bounds the library under test declares wider than the pinned table."""
    m = get_isotherm_model(model)
    out = {}
    for name, (lo, hi) in zip(m.param_names, m.param_default_bounds):
        plo, phi = _DECLARED[model][name]
        if float(lo) < plo:
            out[name] = ("lo", float(lo), plo)
        elif float(hi) > phi:
            out[name] = ("hi", float(hi), phi)
    return out


def _params_declared(model):
    base = _params(model)
    wide = _widened(model)
    if not wide:
        return base

    def move(P, which, on):
        name = sorted(wide)[which % len(wide)]
        if not on:
            return P
        side, now, pinned = wide[name]
        v = float(P[name])
        P = dict(P)
        if side == "lo":
            P[name] = max(now, 2.0 * pinned - v) if v != pinned else pinned - 1.0  # mirror image below the old bound
        else:
            P[name] = min(now, pinned + abs(v)) if math.isfinite(pinned) else v
        return P
    return st.builds(move, base, st.integers(0, 7), st.booleans())


_WINDOW_EDGES = {
    # parameter -> values that are edges of the generation window (a vector touching one is not counted non-trivial)
    "tht": (0.0, 3.0), "m_DA": (1.0, 3.0), "a1v": (-0.9, 5.0), "Ka": (0.0,),
}


def interior(model, P):
    for k, v in P.items():
        key = "m_DA" if (model == "DA" and k == "m") else k
        if key in _WINDOW_EDGES and v in _WINDOW_EDGES[key]:
            return False
    return True


def _temperature():
    return st.one_of(st.none(), st.floats(60.0, 400.0))


_STRAT_CACHE = {}


def strat_case(models, max_len=40):
    """One descriptor strategy per model, built once (rebuilding inside flatmap dominates the run time)."""
    def one(model):
        key = (model, max_len)
        if key not in _STRAT_CACHE:
            _STRAT_CACHE[key] = st.builds(
                lambda P, v, zero, T: {"model": model, "params": P, "v": v, "zero": zero,
                                       "T": T if model in ("DR", "DA") else None},
                _params_declared(model), st.lists(st.floats(0.0, 1.0), min_size=1, max_size=max_len), st.booleans(),
                _temperature())
        return _STRAT_CACHE[key]
    return st.one_of([one(m) for m in models])


def build(model, P, T):
    # the parameter mapping is keyed by name; written in one of four key orders (a pure function of the values)
    keys = list(P)
    how = int(sum(abs(float(v)) for v in P.values()) * 1e6) % 4
    keys = [keys, keys[::-1], sorted(keys), sorted(keys, reverse=True)][how]
    m = get_isotherm_model(model, parameters={k: P[k] for k in keys})
    if model in ("DR", "DA") and T is not None:
        m.__init_parameters__({"temperature": T})
    return m


def explicit_is_loading(model):
    return model not in NUMERIC_L


def virial_limit(P):
    """0.9 x first loading (<= 5) where dlnp/dlnn = 1 + A n + 2 B n^2 + 3 C n^3 drops below 0.1."""
    n = np.linspace(0.0, 5.0, 5001)
    e = 1.0 + P["A"] * n + 2.0 * P["B"] * n ** 2 + 3.0 * P["C"] * n ** 3
    bad = np.nonzero(e < 0.1)[0]
    top = n[bad[0]] if bad.size else 5.0
    return 0.9 * top


def ref_wvst_lnp(P, theta):
    """ln p of the Wilson VST equation (Suwanayuen & Danner 1980), typed from the paper's form; used only to find
    the monotone domain."""
    L1, L2 = P["L1v"], P["Lv1"]
    t = np.asarray(theta, dtype=float)
    return (np.log(P["n_m"] / P["K"]) + np.log(t) - np.log1p(-t)
            + np.log(L1) + np.log(1.0 - (1.0 - L2) * t) - np.log(L1 + (1.0 - L1) * t)
            - L2 * (1.0 - L2) * t / (1.0 - (1.0 - L2) * t) - (1.0 - L1) * t / (L1 + (1.0 - L1) * t))


def wvst_limit(P):
    t = np.linspace(1e-4, 0.999, 4000)
    d = np.diff(ref_wvst_lnp(P, t)) / np.diff(np.log(t))  # dlnp/dlntheta
    bad = np.nonzero(d < 0.1)[0]
    return 0.999 if not bad.size else 0.9 * t[bad[0]]


def rt_over_e(model, P, T):
    rt = 1000.0 if T is None else R_GAS * T
    return rt / P["e"]


def x_range(model, P, T):
    """(lo, hi) of the explicit variable (pressure for loading-explicit models, loading otherwise)."""
    if model in ("Henry", "Langmuir", "TemkinApprox"):
        return 1e-6 / P["K"], 1e3 / P["K"]
    if model == "DSLangmuir":
        return 1e-6 / max(P["K1"], P["K2"]), 1e3 / min(P["K1"], P["K2"])
    if model == "TSLangmuir":
        return 1e-6 / max(P["K1"], P["K2"], P["K3"]), 1e3 / min(P["K1"], P["K2"], P["K3"])
    if model == "BET":
        return 1e-6 / max(P["C"], P["N"]), 0.99 / P["N"]
    if model == "GAB":
        return 1e-6 / (P["K"] * max(P["C"], 1.0)), 0.99 / P["K"]
    if model == "Freundlich":
        return 1e-6, 1e3
    if model in ("DR", "DA"):
        a = rt_over_e(model, P, T)
        mexp = 2.0 if model == "DR" else P["m"]
        return max(math.exp(-(30.0 ** (1.0 / mexp)) / a), 1e-12), 0.9999
    if model == "Quadratic":
        scales = [1.0 / math.sqrt(P["Kb"])]
        if P["Ka"] > 0:
            scales.append(1.0 / P["Ka"])
        return 1e-6 * min(scales), 1e3 * max(scales)
    if model == "Toth":
        return 1e-6 / P["K"], min(1e3, 10.0 ** (5.0 / P["t"])) / P["K"]
    if model == "JensenSeaton":
        return 1e-6 * P["a"] / P["K"], 1e3 * P["a"] / P["K"]
    if model == "Virial":
        return 1e-6, virial_limit(P)
    if model == "FHVST":
        return 1e-6 * P["n_m"], 0.999 * P["n_m"]
    if model == "WVST":
        return 1e-6 * P["n_m"], wvst_limit(P) * P["n_m"]
    raise KeyError(model)


def place(lo, hi, v):
    """position v in [0,1] -> abscissa: lower half log-uniform, upper half linear in [lo, hi]."""
    if v < 0.5:
        return float(lo * (hi / lo) ** (2.0 * v))
    return float(min(hi, lo + (2.0 * v - 1.0) * (hi - lo)))


def abscissae(desc):
    lo, hi = x_range(desc["model"], desc["params"], desc.get("T"))
    return [place(lo, hi, v) for v in desc["v"]]


def saturation(model, P):
    """Saturation capacity of the model equation, None where it has none."""
    if model in ("Langmuir", "TemkinApprox", "Toth", "DR", "DA", "FHVST", "WVST"):
        return P["n_m"]
    if model == "DSLangmuir":
        return P["n_m1"] + P["n_m2"]
    if model == "TSLangmuir":
        return P["n_m1"] + P["n_m2"] + P["n_m3"]
    if model == "Quadratic":
        return 2.0 * P["n_m"]
    return None


def henry_constant(model, P):
    """lim n/p for p -> 0, None for models without a Henry regime."""
    if model in ("Henry", "JensenSeaton", "Virial", "FHVST", "WVST"):
        return P["K"]
    if model in ("Langmuir", "TemkinApprox", "Toth"):
        return P["n_m"] * P["K"]
    if model == "DSLangmuir":
        return P["n_m1"] * P["K1"] + P["n_m2"] * P["K2"]
    if model == "TSLangmuir":
        return P["n_m1"] * P["K1"] + P["n_m2"] * P["K2"] + P["n_m3"] * P["K3"]
    if model == "BET":
        return P["n_m"] * P["C"]
    if model == "GAB":
        return P["n_m"] * P["C"] * P["K"]
    if model == "Quadratic":
        return P["n_m"] * P["Ka"] if P["Ka"] > 0 else None
    return None


def henry_abscissa(model, P):
    """An abscissa of the explicit variable at which the typed first-order deviation from Henry's law is <= 1e-8."""
    d = 1e-8
    if model == "Henry":
        return 1.0 / P["K"]
    if model in ("Langmuir",):
        return d / P["K"]
    if model == "DSLangmuir":
        return d / max(P["K1"], P["K2"])
    if model == "TSLangmuir":
        return d / max(P["K1"], P["K2"], P["K3"])
    if model == "BET":
        return d / (P["C"] + 2.0 * P["N"])
    if model == "GAB":
        return d / (P["K"] * (P["C"] + 2.0))
    if model == "Quadratic":
        return d / (P["Ka"] + 2.0 * P["Kb"] / P["Ka"])
    if model == "TemkinApprox":
        return d / (P["K"] * (1.0 + abs(P["tht"])))
    if model == "Toth":
        # n/(n_m K p) = (1 + (Kp)^t)^(-1/t) ~ 1 - (Kp)^t / t
        return (d * P["t"]) ** (1.0 / P["t"]) / P["K"]
    if model == "JensenSeaton":
        # ~ 1 - (Kp/a)^c / c
        return (d * P["c"]) ** (1.0 / P["c"]) * P["a"] / P["K"]
    if model == "Virial":
        return d / max(1.0, abs(P["A"]), abs(P["B"]), abs(P["C"]))
    if model == "FHVST":
        return d * P["n_m"] / (1.0 + P["a1v"] ** 2)
    if model == "WVST":
        L1, L2 = P["L1v"], P["Lv1"]
        c = 2.0 + 2.0 * abs(1.0 - L1) / L1 + abs(L2 * (1.0 - L2)) + abs(1.0 - L2)
        return d * P["n_m"] / c
    raise KeyError(model)


def elasticity(f, x, h=1e-5):
    """dln f / dln x by central differences of the library's own explicit function."""
    x = np.asarray(x, dtype=float)
    with np.errstate(all="ignore"):
        up = np.asarray(f(x * (1.0 + h)), dtype=float)
        dn = np.asarray(f(x * (1.0 - h)), dtype=float)
        mid = np.asarray(f(x), dtype=float)
        return (up - dn) / (2.0 * h * mid)


def cancel_factor(model, P, n):
    """y^2 / |4 x c| of the quadratic a library inverse solves, when the branch it takes subtracts nearly equal
    numbers (used only by the known-finding predicate), else 0."""
    n = float(n)
    if n <= 0:
        return 0.0
    if model == "BET":
        x = n * P["N"] * (P["N"] - P["C"])
        y = n * P["C"] - 2 * n * P["N"] - P["n_m"] * P["C"]
        cancelling = y < 0
    elif model == "GAB":
        x = n * (1 - P["C"]) * P["K"] ** 2
        y = (n * (P["C"] - 2) - P["n_m"] * P["C"]) * P["K"]
        cancelling = y < 0
    elif model == "Quadratic":
        x = (n - 2 * P["n_m"]) * P["Kb"]
        y = (n - P["n_m"]) * P["Ka"]
        cancelling = y < 0
    elif model == "DSLangmuir":
        x = (P["n_m1"] + P["n_m2"] - n) * P["K1"] * P["K2"]
        y = P["n_m1"] * P["K1"] + P["n_m2"] * P["K2"] - n * (P["K1"] + P["K2"])
        cancelling = y > 0
    else:
        return 0.0
    if not cancelling:
        return 0.0
    if x == 0:
        return float("inf")  # leading coefficient vanishes (BET C = N, GAB C = 1): the formula divides 0 by 0
    return y * y / abs(4.0 * x * n)


def _key(model, P):
    return [model, [float(f"{P[k]:.6g}") for k in sorted(P)]]


def _fmt(model, P, T=None):
    s = f"{model}({', '.join(f'{k}={P[k]!r}' for k in P)})"
    if T is not None:
        s += f"[T={T!r}]"
    return s


def _finite(a):
    return bool(np.all(np.isfinite(np.asarray(a, dtype=float))))


# =====================================================================================================================
# 1. closed-form pairs: inverse law on 1-d arrays (incl. the zero point)
# =====================================================================================================================
def _explained_by_cancellation(v):
    """The relative error the library's quadratic-formula branch can make is ~ eps * y^2/|4xc| (allowance 64 eps);
    once that bound reaches 100 % the returned pressure carries no information and any error is explained."""
    d = v.detail or {}
    cf = d.get("cancel", 0.0)
    if not cf > 0:
        return False
    bound = 64.0 * EPS * cf
    return bound >= 1.0 or d.get("err_units", float("inf")) <= bound


def _inverse_law(model, P, T, m, p, n, p_back, n_again, what, ctx=None):
    """Conditioning-aware inverse law on matching 1-d arrays (all strictly positive abscissae).  All elements are
    examined; a violation that the known cancellation class does not explain is raised in preference to one it does."""
    E = elasticity(m.loading, p)
    found = []
    for i in range(len(p)):
        if not (np.isfinite(n[i]) and n[i] > 0):
            raise Violation(f"{_fmt(model, P, T)}: loading({p[i]!r}) = {n[i]!r} is not a positive finite number ({what})",
                            tag="loading_value")
        e = E[i]
        amp_n = max(1.0, e) if np.isfinite(e) else 1.0
        cf = cancel_factor(model, P, n[i])
        # loading space (well conditioned where pressure space is not)
        err_n = abs(n_again[i] - n[i]) / n[i] if np.isfinite(n_again[i]) else float("inf")
        if not err_n <= 1e-9 * amp_n:
            found.append(Violation(
                f"{_fmt(model, P, T)} {what}: p={p[i]!r} -> n={n[i]!r} -> p'={p_back[i]!r} -> n'={n_again[i]!r}; "
                f"|n'-n|/n = {err_n:.3e} > 1e-9*{amp_n:.3g}", tag="inverse_n",
                detail={"model": model, "err_units": err_n / amp_n, "cancel": cf}))
            continue
        if np.isfinite(e) and e >= 1e-6:
            kappa = 1.0 / e
            amp_p = max(1.0, kappa)
            err_p = abs(p_back[i] - p[i]) / p[i] if np.isfinite(p_back[i]) else float("inf")
            if not err_p <= 1e-9 * amp_p:
                found.append(Violation(
                    f"{_fmt(model, P, T)} {what}: pressure(loading({p[i]!r})) = {p_back[i]!r}; relative error "
                    f"{err_p:.3e} > 1e-9*kappa, kappa = {kappa:.3g}", tag="inverse_p",
                    detail={"model": model, "err_units": err_p / amp_p, "cancel": cf}))
        elif ctx is not None:
            ctx.label("illconditioned_p_space_skipped")
    for v in found:
        if not _explained_by_cancellation(v):
            raise v
    if found:
        raise found[0]


def check_inverse_closed(desc, ctx):
    model, P, T = desc["model"], desc["params"], desc.get("T")
    m = build(model, P, T)
    xs = abscissae(desc)
    p = np.array(xs, dtype=float)
    zero = desc["zero"] and model in ZERO_DEFINED
    arr = np.concatenate([[0.0], p]) if zero else p
    n_arr = np.asarray(m.loading(arr.copy()), dtype=float)
    if n_arr.shape != arr.shape:
        raise Violation(f"{_fmt(model, P, T)}: loading of a {arr.shape} array has shape {n_arr.shape}", tag="shape")
    p_back = np.asarray(m.pressure(n_arr.copy()), dtype=float)
    if p_back.shape != arr.shape:
        raise Violation(f"{_fmt(model, P, T)}: pressure of a {arr.shape} array has shape {p_back.shape}", tag="shape")
    n_again = np.asarray(m.loading(p_back.copy()), dtype=float)
    if zero:
        if not n_arr[0] == 0:
            raise Violation(f"{_fmt(model, P, T)}: loading([0, ...])[0] = {n_arr[0]!r}, expected 0", tag="zero_loading")
        if not p_back[0] == 0:
            raise Violation(f"{_fmt(model, P, T)}: pressure(loading([0, ...]))[0] = {p_back[0]!r}, expected 0",
                            tag="zero_inverse")
        n_arr, p_back, n_again = n_arr[1:], p_back[1:], n_again[1:]
        ctx.label("zero_in_array")
    ctx.label(model)
    try:
        _inverse_law(model, P, T, m, p, n_arr, p_back, n_again, f"1-d array of {len(arr)}", ctx)
    except Violation as v:
        if _explained_by_cancellation(v) and interior(model, P):
            # every element was examined and nothing but the recorded cancellation class was found
            ctx.nt(_key(model, P), desc)
        raise
    ctx.label(model + "_clean")
    if interior(model, P):
        ctx.nt(_key(model, P), desc)


# =====================================================================================================================
# 2. numerical inverses: residual in the space of the explicit function, arrays
# =====================================================================================================================
def _explicit_and_inverse(model, m):
    if model in NUMERIC_L:
        return m.pressure, m.loading, "pressure", "loading"
    return m.loading, m.pressure, "loading", "pressure"


def _residual_check(model, P, T, f, fname, gname, y, x_sol, what):
    """|f(g(y)) - y| against the solver tolerance mapped through the local slope."""
    y = np.atleast_1d(np.asarray(y, dtype=float))
    x_sol = np.asarray(x_sol, dtype=float)
    if x_sol.size != y.size:
        raise Violation(f"{_fmt(model, P, T)}: {gname} of {y.size} value(s) returned {x_sol.size} value(s) ({what})",
                        tag="shape")
    x_sol = x_sol.reshape(y.shape)
    if not _finite(x_sol):
        raise Violation(f"{_fmt(model, P, T)}: {gname}({y.tolist()!r}) returned {x_sol.tolist()!r} ({what})",
                        tag="numeric_residual", detail={"model": model})
    y_back = np.asarray(f(x_sol.copy()), dtype=float)
    E = elasticity(f, x_sol)
    with np.errstate(all="ignore"):
        slope = np.where(np.isfinite(E) & (x_sol != 0), np.abs(E * y_back / np.where(x_sol != 0, x_sol, 1.0)), 0.0)
    # MINPACK scales the unknowns by the column norms of the Jacobian, first evaluated at the start x0 = 0 and only
    # ever increased: the scale of component j is at least max(slope at 0, slope at the solution)
    tiny = 1e-9 * x_range(model, P, T)[0]
    slope0 = abs(float(np.asarray(f(tiny), dtype=float)) / tiny)
    S = float(np.sqrt(np.sum((np.maximum(slope, slope0) * x_sol) ** 2)))
    for i in range(y.size):
        tol = 100.0 * XTOL * S + 1e-12 * abs(y[i])
        if not abs(y_back[i] - y[i]) <= tol:
            raise Violation(
                f"{_fmt(model, P, T)} {what}: {gname}({y[i]!r}) returned {x_sol[i]!r} and reported success, but "
                f"{fname}({x_sol[i]!r}) = {y_back[i]!r}; residual {abs(y_back[i] - y[i]):.3e} > {tol:.3e}",
                tag="numeric_residual", detail={"model": model, "returned": float(x_sol[i]), "target": float(y[i])})


def check_inverse_numeric(desc, ctx):
    model, P, T = desc["model"], desc["params"], None
    m = build(model, P, T)
    f, g, fname, gname = _explicit_and_inverse(model, m)
    x = np.array(abscissae(desc), dtype=float)
    if desc["zero"]:
        x = np.concatenate([[0.0], x])
    y = np.asarray(f(x.copy()), dtype=float)
    if not _finite(y) or np.any(y < 0):
        raise Violation(f"{_fmt(model, P)}: {fname}({x.tolist()!r}) = {y.tolist()!r}", tag="explicit_value")
    try:
        x_sol = g(y.copy())
    except CalculationError:
        ctx.label("library_reported_failure")
        raise Inconclusive()
    _residual_check(model, P, T, f, fname, gname, y, x_sol, f"1-d array of {len(y)}")
    if desc["zero"]:
        xs_all = np.asarray(x_sol, dtype=float).ravel()
        x0 = float(xs_all[0])
        scale = saturation(model, P) or 1.0
        xscale = scale if model in NUMERIC_L else x_range(model, P, T)[0]
        # joint solve: the solver's tolerance is relative to the norm of the whole solution vector
        if not abs(x0) <= max(1e-9 * xscale, 100.0 * XTOL * float(np.sqrt(np.sum(xs_all ** 2)))):
            raise Violation(f"{_fmt(model, P)}: {gname}([0, ...])[0] = {x0!r}, expected 0", tag="zero_inverse",
                            detail={"model": model})
        ctx.label("zero_in_array")
    ctx.label(model, "len1" if len(y) == 1 else "len>1")
    if interior(model, P):
        ctx.nt(_key(model, P), desc)


# =====================================================================================================================
# 3. scalar forms: python float, numpy.float64, 0-d array; agreement with the 1-d result; zero scalar
# =====================================================================================================================
_FORMS = (("float", float), ("float64", np.float64), ("0-d", lambda v: np.array(float(v))))
_INT_FORMS = (("int", int), ("int64", np.int64), ("0-d int64", lambda v: np.array(int(v), dtype=np.int64)),
              ("1-d int64", lambda v: np.array([int(v)], dtype=np.int64)))


def _scalar(v, what):
    a = np.asarray(v, dtype=float)
    if a.size != 1:
        raise Violation(f"{what}: scalar input gave {a.size} values", tag="shape")
    return float(a.ravel()[0])


def check_scalar_forms(desc, ctx):
    model, P, T = desc["model"], desc["params"], desc.get("T")
    m = build(model, P, T)
    numeric = model not in CLOSED
    f, g, fname, gname = _explicit_and_inverse(model, m)
    xs = abscissae(desc)[:4]
    x = np.array(xs, dtype=float)
    y_arr = np.asarray(f(x.copy()), dtype=float)
    E = elasticity(f, x)
    if not numeric:
        p_back_arr = np.asarray(g(y_arr.copy()), dtype=float)
    deferred = []

    def judged(fn, *args):
        """Run one clause; a violation of an already recorded known class is kept for the end of the case so that
        the remaining clauses are still examined."""
        try:
            fn(*args)
        except Violation as v:
            if any(pred("scalar_forms", desc, v) for pred in
                   (kf_quadratic_cancellation, kf_virial_loading_inaccurate, kf_vst_unphysical_root)):
                deferred.append(v)
            else:
                raise

    def same_inverse(what_g, xb, ref, i, e, yv):
        if not abs(xb - ref) <= 1e-9 * max(1.0, 1.0 / e) * abs(ref):
            raise Violation(f"{what_g} = {xb!r} but element {i} of the 1-d result is {ref!r}", tag="form_inverse",
                            detail={"model": model, "cancel": cancel_factor(model, P, yv),
                                    "err_units": abs(xb - ref) / abs(ref) / max(1.0, 1.0 / e)})

    for i, xv in enumerate(xs):
        e = E[i] if np.isfinite(E[i]) else 1.0
        for form_name, form in _FORMS:
            what = f"{_fmt(model, P, T)} {fname}({form_name} {xv!r})"
            yv = _scalar(f(form(xv)), what)
            # (a) the explicit function gives the same number for every input form
            if not abs(yv - y_arr[i]) <= 1e-10 * max(1.0, abs(e)) * abs(y_arr[i]):
                raise Violation(f"{what} = {yv!r} but element {i} of the 1-d result is {y_arr[i]!r}", tag="form_explicit")
            if not (np.isfinite(yv) and yv > 0):
                raise Violation(f"{what} = {yv!r}", tag="loading_value")
            # (b) inverse law on scalars
            what_g = f"{_fmt(model, P, T)} {gname}({form_name} {yv!r})"
            if numeric:
                try:
                    xb = g(form(yv))
                except CalculationError:
                    ctx.label("library_reported_failure")
                    continue
                judged(_residual_check, model, P, T, f, fname, gname, yv, xb, f"{form_name} scalar")
            else:
                xb = _scalar(g(form(yv)), what_g)
                xa = _scalar(f(form(xb)), what_g) if np.isfinite(xb) else float("nan")
                judged(_inverse_law, model, P, T, m, np.array([xv]), np.array([yv]), np.array([xb]), np.array([xa]),
                       f"{form_name} scalar")
                # (c) closed-form inverse: same number for every input form
                if e >= 1e-6:
                    judged(same_inverse, what_g, xb, p_back_arr[i], i, e, yv)
        ctx.label("forms_checked")
    if desc["zero"] and model in ZERO_DEFINED:
        scale_x = (saturation(model, P) or 1.0) if model in NUMERIC_L else x_range(model, P, T)[0]
        for form_name, form in _FORMS:
            y0 = _scalar(f(form(0.0)), f"{_fmt(model, P, T)} {fname}({form_name} 0)")
            if not y0 == 0:
                raise Violation(f"{_fmt(model, P, T)}: {fname}({form_name} 0.0) = {y0!r}, expected 0",
                                tag="zero_loading" if fname == "loading" else "zero_pressure")
            try:
                x0 = g(form(0.0))  # a crash here (library frame innermost) becomes a crash:<Type>:<where> violation
            except CalculationError:
                ctx.label("library_reported_failure")
                continue
            x0 = _scalar(x0, f"{_fmt(model, P, T)} {gname}({form_name} 0)")
            ok = (abs(x0) <= 1e-9 * scale_x) if numeric else (x0 == 0)
            if not ok:
                raise Violation(f"{_fmt(model, P, T)}: {gname}({form_name} 0.0) = {x0!r}, expected 0",
                                tag="zero_inverse", detail={"model": model})
        ctx.label("zero_scalar")
    # (d) integral abscissae handed over with an integer type give the value of the same number as a float
    lo_x, hi_x = x_range(model, P, T)
    with np.errstate(all="ignore"):
        try:
            y_ends = sorted(float(np.ravel(np.asarray(f(np.array([v])), dtype=float))[0]) for v in (lo_x, hi_x))
        except CalculationError:
            y_ends = None
    for fn, nm, rng in ((f, fname, (lo_x, hi_x)), (g, gname, y_ends)):
        if rng is None or not all(np.isfinite(rng)):
            continue
        ks = sorted({k for k in (math.ceil(rng[0]), math.floor(rng[1]), (math.ceil(rng[0]) + math.floor(rng[1])) // 2)
                     if rng[0] <= k <= rng[1] and 0 < k < 2 ** 40})
        for k in ks:
            try:
                ref = _scalar(fn(float(k)), f"{nm}({float(k)!r})")
            except CalculationError:
                ctx.label("library_reported_failure")
                continue
            for form_name, form in _INT_FORMS:
                what = f"{_fmt(model, P, T)} {nm}({form_name} {k})"
                try:
                    got = _scalar(fn(form(k)), what)
                except CalculationError:
                    raise Violation(f"{what} is refused although {nm}({float(k)!r}) = {ref!r}", tag="form_integer")
                # (the integer and the float of the same number may take slightly different arithmetic paths, e.g.
                #  int ** float; near a pole of the inverse that is amplified - a wrong dtype gives gross errors instead)
                if not (got == ref or abs(got - ref) <= 1e-8 * abs(ref) or (np.isnan(got) and np.isnan(ref))):
                    raise Violation(f"{what} = {got!r} but {nm}({float(k)!r}) = {ref!r}", tag="form_integer")
            ctx.label("integer_forms_checked")
    if deferred:
        raise deferred[0]
    ctx.label(model)
    if interior(model, P):
        ctx.nt(_key(model, P), desc)


# =====================================================================================================================
# 4. shape: zero, non-negative, non-decreasing, bounded by the saturation capacity, Henry limit
# =====================================================================================================================
def check_shape(desc, ctx):
    model, P, T = desc["model"], desc["params"], desc.get("T")
    m = build(model, P, T)
    xs = sorted(set(abscissae(desc)))
    x = np.array(xs, dtype=float)
    sat = saturation(model, P)
    kh = henry_constant(model, P)
    name = _fmt(model, P, T)
    if model not in ZERO_DEFINED:
        # DR / DA: ln(0) is outside the equations. The zero point may be refused; a value that is returned for it must
        # not break 'non-negative and non-decreasing in pressure' (the equations tend to zero loading)
        tiny = float(np.min(x))
        for form_name, arg, pick in (("float", 0.0, None), ("1-d", np.array([0.0, tiny]), 0)):
            try:
                with np.errstate(all="ignore"):
                    r0 = np.asarray(m.loading(arg), dtype=float)
                    rt = float(np.ravel(np.asarray(m.loading(tiny), dtype=float))[0])
            except (CalculationError, ZeroDivisionError, FloatingPointError):
                ctx.label("zero_point_refused")
                continue
            n0 = float(np.ravel(r0)[0 if pick is None else pick])
            if not (0.0 <= n0 <= rt * (1 + 1e-9)):
                raise Violation(f"{name}: loading({form_name} 0) = {n0!r} although loading({tiny!r}) = {rt!r} "
                                "(zero point: non-negative, not above the loading at any positive pressure)", tag="zero_loading")
            ctx.label("zero_point_value")
    if explicit_is_loading(model):
        n = np.asarray(m.loading(x.copy()), dtype=float)
        if not _finite(n):
            raise Violation(f"{name}: loading({xs!r}) = {n.tolist()!r}", tag="loading_value")
        if np.any(n < 0):
            i = int(np.argmax(n < 0))
            raise Violation(f"{name}: loading({xs[i]!r}) = {n[i]!r} < 0", tag="negative")
        for i in range(len(xs) - 1):
            if not n[i + 1] >= n[i] * (1.0 - 1e-9):
                raise Violation(f"{name}: loading decreases: n({xs[i]!r}) = {n[i]!r} > n({xs[i + 1]!r}) = {n[i + 1]!r}",
                                tag="monotone")
        if sat is not None:
            i = int(np.argmax(n))
            if not n[i] <= sat * (1.0 + 1e-12):
                raise Violation(f"{name}: loading({xs[i]!r}) = {n[i]!r} exceeds the saturation capacity {sat!r}",
                                tag="saturation")
            ctx.label("saturation_checked")
        if model in ZERO_DEFINED:
            for z in (0.0, np.array([0.0])):
                n0 = float(np.asarray(m.loading(z), dtype=float).ravel()[0])
                if not n0 == 0:
                    raise Violation(f"{name}: loading({z!r}) = {n0!r}, expected 0", tag="zero_loading")
        if kh is not None:
            # "tends to": at the abscissa where the typed deviation is 1e-8 and everywhere further down (1e-4 and
            # 1e-8 of it: a limit that is approached and then left again is not a limit)
            for p0 in [henry_abscissa(model, P) * s for s in (1.0, 1e-4, 1e-8)]:
                for form in (float, lambda v: np.array([v])):
                    n0 = float(np.asarray(m.loading(form(p0)), dtype=float).ravel()[0])
                    if not abs(n0 / p0 - kh) <= 1e-6 * kh:
                        raise Violation(f"{name}: loading({p0!r})/p = {n0 / p0!r}, Henry constant {kh!r}", tag="henry")
            ctx.label("henry_checked")
    else:
        p = np.asarray(m.pressure(x.copy()), dtype=float)
        if not _finite(p) or np.any(p < 0):
            raise Violation(f"{name}: pressure({xs!r}) = {p.tolist()!r}", tag="explicit_value")
        # loading non-decreasing in pressure <=> the explicit p(n) is increasing before its turning point
        for i in range(len(xs) - 1):
            if not p[i + 1] >= p[i] * (1.0 - 1e-9):
                raise Violation(f"{name}: p(n) decreases inside the monotone domain: p({xs[i]!r}) = {p[i]!r} > "
                                f"p({xs[i + 1]!r}) = {p[i + 1]!r}", tag="monotone")
        p00 = float(np.asarray(m.pressure(0.0), dtype=float))
        if not p00 == 0:
            raise Violation(f"{name}: pressure(0.0) = {p00!r}, expected 0", tag="zero_pressure")
        for n0 in [henry_abscissa(model, P) * s for s in (1.0, 1e-4, 1e-8)]:
            p0 = float(np.asarray(m.pressure(n0), dtype=float))
            if not abs(n0 / p0 - kh) <= 1e-6 * kh:
                raise Violation(f"{name}: n/pressure(n) at n = {n0!r} is {n0 / p0!r}, Henry constant {kh!r}", tag="henry")
        ctx.label("henry_checked")
        if model != "Virial":
            # the numerical loading (where the library returns): non-negative, below saturation, order preserving,
            # Henry slope, zero.  (Virial.loading is the subject of known findings and is judged in checks 2 and 3.)
            sel = sorted(set([0, len(xs) // 2, len(xs) - 1]))
            got = []
            for i in sel:
                try:
                    got.append((p[i], float(np.asarray(m.loading(float(p[i])), dtype=float).ravel()[0])))
                except CalculationError:
                    ctx.label("library_reported_failure")
            try:
                got_h = float(np.asarray(m.loading(p0), dtype=float).ravel()[0])
                if not abs(got_h / p0 - kh) <= 1e-6 * kh:
                    raise Violation(f"{name}: loading({p0!r})/p = {got_h / p0!r}, Henry constant {kh!r}", tag="henry")
                z = float(np.asarray(m.loading(0.0), dtype=float).ravel()[0])
                if not abs(z) <= 1e-9 * sat:
                    raise Violation(f"{name}: loading(0.0) = {z!r}, expected 0", tag="zero_loading")
            except CalculationError:
                ctx.label("library_reported_failure")
            for pv, nv in got:
                if not (np.isfinite(nv) and nv >= 0):
                    raise Violation(f"{name}: loading({pv!r}) = {nv!r} (library reported success)", tag="negative",
                                    detail={"numeric_loading": True})
                if not nv <= sat * (1.0 + 1e-9):
                    raise Violation(f"{name}: loading({pv!r}) = {nv!r} exceeds the saturation capacity {sat!r} "
                                    "(library reported success)", tag="saturation", detail={"numeric_loading": True})
            for (pa, na), (pb, nb) in zip(got, got[1:]):
                if pb > pa and not nb >= na * (1.0 - 1e-6):
                    raise Violation(f"{name}: loading decreases: n({pa!r}) = {na!r} > n({pb!r}) = {nb!r} "
                                    "(library reported success)", tag="monotone", detail={"numeric_loading": True})
            ctx.label("saturation_checked")
    ctx.label(model)
    if interior(model, P):
        ctx.nt(_key(model, P), desc)


# =====================================================================================================================
# 5. ModelIsotherm.loading_at / pressure_at == bare model o reference conversion
# =====================================================================================================================
_L_DIM = [r for r in ru.L_REPS if r[1] is not None]


def strat_model_isotherm():
    tab = K.backend_table()

    def one(model):
        return st.builds(
            lambda P, v, i, u, dens, mm, reps, how, direction, form, tunit: {
                # the ModelIsotherm constructor initialises DR/DA with the isotherm's kelvin temperature: the bare
                # model of the oracle is initialised with the same temperature
                "model": model, "params": P, "v": v,
                "T": K.temperature_for(tab[i], u) if model in ("DR", "DA") else None, "zero": False,
                "adsorbate": tab[i][0], "T_iso": K.temperature_for(tab[i], u), "density": dens, "molar_mass": mm,
                "native": [list(reps[0]), list(reps[1]), list(reps[2])],
                "requested": [list(reps[3]), list(reps[4]), list(reps[5])],
                "how": list(how), "direction": direction, "form": form, "temperature_unit": tunit},
            _params(model), st.lists(st.floats(0.0, 1.0), min_size=1, max_size=4),
            st.integers(0, len(tab) - 1), st.floats(0, 1), st.floats(0.05, 25.0), st.floats(10.0, 5000.0),
            # requested loading: dimensional, or fraction / percent (used for the loading_at output only - the
            # direction the library gets right; the other fraction paths are the open finding KF-C03-1 of property C03)
            st.tuples(S.p_rep(), st.sampled_from(_L_DIM), S.m_rep(), S.p_rep(),
                      st.sampled_from(_L_DIM * 2 + [("fraction", None), ("percent", None)] * 8), S.m_rep()),
            # per quantity: 'full' = pass basis/mode and unit, 'native' = request nothing (keep the isotherm's own),
            # 'unit' = pass only the unit (only used when the basis/mode is the native one and has a unit)
            st.tuples(st.sampled_from(["full", "full", "native", "unit"]),
                      st.sampled_from(["full", "full", "native", "unit"]), st.sampled_from(["full", "full", "native"])),
            st.sampled_from(["loading_at", "pressure_at"]), st.sampled_from(["float", "0-d", "1-d", "list"]),
            st.sampled_from(["K", "°C"]))
    return st.one_of([one(m) for m in ALL_MODELS])


def check_model_isotherm(desc, ctx):
    model, P = desc["model"], desc["params"]
    direction = desc["direction"]
    if model == "Virial" and direction == "loading_at":
        direction = "pressure_at"  # Virial.loading: see the known findings; judged in checks 2 and 3
    entry = next(e for e in K.backend_table() if e[0] == desc["adsorbate"])
    fluid, T = entry[1], desc["T_iso"]
    pn, ln, mn = (tuple(r) for r in desc["native"])
    pr, lr, mr = (tuple(r) for r in desc["requested"])
    how = list(desc["how"])
    if lr[1] is None:
        if direction == "loading_at":
            how[1] = "full"
            ctx.label("to_fraction_or_percent")
        else:
            lr = ln  # fraction / percent input to pressure_at: not exercised here
    # resolve what is requested for each quantity
    if how[0] == "unit" and not (pr[0] == pn[0] == "absolute"):
        how[0] = "full"
    if how[1] == "unit" and lr[0] != ln[0]:
        how[1] = "full"
    if how[0] == "native":
        pr = pn
    if how[1] == "native":
        lr = ln
    if how[2] == "native":
        mr = mn
    kwargs = {}
    if how[0] == "full":
        kwargs.update(pressure_mode=pr[0], pressure_unit=pr[1])
    elif how[0] == "unit":
        kwargs.update(pressure_unit=pr[1])
    if how[1] == "full":
        kwargs.update(loading_basis=lr[0], loading_unit=lr[1])
    elif how[1] == "unit":
        kwargs.update(loading_unit=lr[1])
    if how[2] == "full":
        kwargs.update(material_basis=mr[0], material_unit=mr[1])

    m = build(model, P, desc.get("T"))
    material = K.build_material({"name": "m-c10", "density": desc["density"], "molar_mass": desc["molar_mass"]})
    t_in = T if desc["temperature_unit"] == "K" else T - 273.15
    iso = pygaps.ModelIsotherm(model=m, material=material, adsorbate=desc["adsorbate"], temperature=t_in,
                               **K.units_dict(pn, ln, mn, desc["temperature_unit"]))
    dens, mm = desc["density"], desc["molar_mass"]

    def p_conv(v, a, b):
        return ru.conv_pressure(v, a, b, fluid, T)

    def l_conv(v, la, ma, lb, mb):
        return ru.conv_full_loading(v, la, ma, lb, mb, fluid, T, dens, mm)

    f, g, fname, gname = _explicit_and_inverse(model, m)
    loading_explicit = explicit_is_loading(model)
    xs = abscissae(desc)  # native abscissae of the explicit variable
    x_nat = np.array(xs, dtype=float)
    if (direction == "loading_at") == loading_explicit:
        arg_nat = x_nat  # the accessor evaluates the explicit function
        fun, numeric = f, False
    else:
        arg_nat = np.asarray(f(x_nat.copy()), dtype=float)  # the accessor evaluates the inverse
        fun, numeric = g, model not in CLOSED
        if not _finite(arg_nat) or np.any(arg_nat <= 0):
            raise Violation(f"{_fmt(model, P)}: {fname}({xs!r}) = {arg_nat.tolist()!r}", tag="explicit_value")
    # conditioning of the function the accessor applies (from the explicit function's elasticity); the clause is
    # about unit handling, so abscissae where the model function amplifies its argument by more than 1e3 are left out
    E = elasticity(f, x_nat)
    good = np.isfinite(E) & (E > 0)
    E = np.where(good, E, 1.0)
    amp = np.where(good, E if fun is f else 1.0 / E, np.inf)
    keep = amp <= 1e3
    if not np.any(keep):
        ctx.label("illconditioned_skipped")
        return
    arg_nat, amp = arg_nat[keep], amp[keep]

    if direction == "loading_at":
        arg_req = np.array([p_conv(v, pn, pr) for v in arg_nat])
        tol_in = ru.tol_for(pn, pr)
        tol_out = ru.tol_for(ln, lr) + ru.tol_for(mn, mr) + (ru.tol_for(mr) if lr[1] is None else 0.0)
    else:
        arg_req = np.array([l_conv(v, ln, mn, lr, mr) for v in arg_nat])
        tol_in = ru.tol_for(ln, lr) + ru.tol_for(mn, mr)
        tol_out = ru.tol_for(pn, pr)
    if not _finite(arg_req):
        raise HarnessError(f"reference conversion gave {arg_req!r}")
    form = desc["form"]
    if form in ("float", "0-d"):
        arg_req, arg_nat, amp = arg_req[:1], arg_nat[:1], amp[:1]
        arg_in = float(arg_req[0]) if form == "float" else np.array(float(arg_req[0]))
    elif form == "list":
        arg_in = [float(v) for v in arg_req]
    else:
        arg_in = arg_req.copy()
    # The library's conversion factor may differ from the reference one by tol_in (rounded table constants), so the
    # native argument the model sees lies in arg_nat*(1 +- tol_in): the expected value is the band the (monotone)
    # bare model function spans over that interval, reference-converted, widened by the output-side unit tolerance.
    try:
        band = [np.asarray(fun(arg_nat * s), dtype=float).reshape(arg_nat.shape)
                for s in (1.0 - tol_in, 1.0, 1.0 + tol_in)]
        got = getattr(iso, direction)(arg_in, **kwargs)
    except CalculationError:
        ctx.label("library_reported_failure")
        raise Inconclusive()
    got = np.asarray(got, dtype=float)
    if got.size != arg_nat.size:
        raise Violation(f"{_fmt(model, P)}: {direction} of {arg_nat.size} value(s) returned {got.size}", tag="shape")
    got = got.reshape(arg_nat.shape)
    conv_out = (lambda v: l_conv(v, ln, mn, lr, mr)) if direction == "loading_at" else (lambda v: p_conv(v, pn, pr))
    solver = 100.0 * XTOL * math.sqrt(len(arg_nat)) * float(np.max(amp)) if numeric else 0.0
    widen = tol_out + solver + 1e-11 * float(np.max(amp)) + 1e-12
    if fun is g and model in QUADRATIC_FORMULA:
        # rounding noise of the library's quadratic-formula inverse (known finding KF-C10-2) is judged in check 1
        widen += 64.0 * EPS * max(cancel_factor(model, P, v) for v in arg_nat)
    checked = 0
    for i in range(len(arg_nat)):
        vals = [b[i] for b in band]
        if not all(np.isfinite(v) and v > 0 for v in vals):
            ctx.label("band_leaves_validity_range_skipped")
            continue
        lo_w, hi_w = conv_out(min(vals)) * (1.0 - widen), conv_out(max(vals)) * (1.0 + widen)
        if not lo_w <= got[i] <= hi_w:
            raise Violation(
                f"{_fmt(model, P)} as ModelIsotherm({desc['adsorbate']} at {T!r} K, native {pn}/{ln}/{mn}, density "
                f"{dens!r}, molar mass {mm!r}): {direction}({np.asarray(arg_in).tolist()!r}, {kwargs}) -> element {i} = "
                f"{got[i]!r}; bare model o reference conversion gives [{lo_w!r}, {hi_w!r}]",
                tag=f"model_isotherm_{direction}")
        checked += 1
    if not checked:
        return
    ctx.label(model, direction, "form_" + form, "p_" + how[0], "l_" + how[1], "m_" + how[2])
    if pn[0] != pr[0]:
        ctx.label("pressure_mode_change")
    if ln[0] != lr[0]:
        ctx.label("loading_basis_change")
    if mn[0] != mr[0]:
        ctx.label("material_basis_change")
    if interior(model, P) and (pn, ln, mn) != (pr, lr, mr):
        ctx.nt([direction] + _key(model, P), desc)


# =====================================================================================================================
# known-finding predicates (narrow classes; anything else is still reported)
# =====================================================================================================================
def kf_zero_scalar_nan_to_num(check_name, desc, viol):
    """BET / GAB pressure() of a python scalar / numpy scalar / 0-d array where the textbook quadratic formula gives
    0/0 = nan (loading 0; or vanishing leading coefficient: BET C = N, GAB C = 1): nan_to_num(copy=False) raises
    ValueError under numpy >= 2."""
    P = desc["params"]
    degenerate = (desc["model"] == "BET" and P["C"] == P["N"]) or (desc["model"] == "GAB" and P["C"] == 1.0)
    where = ((check_name == "scalar_forms" and (bool(desc["zero"]) or degenerate))
             or (check_name == "model_isotherm" and degenerate and desc["direction"] == "pressure_at"
                 and desc["form"] in ("float", "0-d")))
    return (desc["model"] in ("BET", "GAB") and where
            and viol.tag in ("crash:ValueError:src/pygaps/modelling/bet.py:pressure",
                             "crash:ValueError:src/pygaps/modelling/gab.py:pressure"))


def kf_quadratic_cancellation(check_name, desc, viol):
    """BET / GAB / DSLangmuir / Quadratic pressure(): the textbook quadratic formula subtracts nearly equal numbers
    at low loading (and near a vanishing leading coefficient); the observed error must be explained by that
    cancellation (<= 64 eps y^2/|4xc|, anything once that bound reaches 100 %)."""
    return (check_name in ("inverse_closed", "scalar_forms") and desc["model"] in QUADRATIC_FORMULA
            and viol.tag in ("inverse_p", "inverse_n", "form_inverse") and _explained_by_cancellation(viol))


def kf_virial_loading_inaccurate(check_name, desc, viol):
    """Virial.loading: Nelder-Mead on the squared residual with absolute tolerances, started at x0 = pressure,
    reports success at a point that is not a root."""
    return (check_name in ("inverse_numeric", "scalar_forms") and desc["model"] == "Virial"
            and viol.tag in ("numeric_residual", "zero_inverse"))


def kf_virial_loading_array(check_name, desc, viol):
    """Virial.loading of a 1-d array with more than one element: scipy refuses the vector-valued objective."""
    return (check_name == "inverse_numeric" and desc["model"] == "Virial"
            and len(desc["v"]) + (1 if desc["zero"] else 0) >= 2
            and viol.tag == "crash:ValueError:src/pygaps/modelling/virial.py:loading")


def kf_vst_unphysical_root(check_name, desc, viol):
    """FHVST / WVST.loading (MINPACK hybr started at 0, unbounded) reports success at a non-solution: a root of
    p(n) - p outside [0, n_m] (negative loading / above the saturation capacity), its starting point 0, or - in the
    joint solve of a 1-d array with several elements - a stalled iterate (trust region shrunk below xtol)."""
    d = viol.detail or {}
    if desc["model"] not in ("FHVST", "WVST"):
        return False
    if check_name == "shape":
        return viol.tag in ("negative", "saturation", "monotone") and d.get("numeric_loading") is True
    if check_name in ("inverse_numeric", "scalar_forms"):
        joint = check_name == "inverse_numeric" and len(desc["v"]) + (1 if desc["zero"] else 0) >= 2
        return viol.tag == "numeric_residual" and d.get("target", 0.0) > 0 and (d.get("returned") == 0.0 or joint)
    return False


CHECKS = [
    Check("inverse_closed", check_inverse_closed, strategy=lambda: strat_case(CLOSED),
          budget={"quick": 7000, "thorough": 200000},
          rule="10 closed-form pairs: pressure(loading(p)) on 1-d arrays of 1..40 (+ zero point), both spaces"),
    Check("inverse_numeric", check_inverse_numeric, strategy=lambda: strat_case(NUMERIC_P + NUMERIC_L),
          budget={"quick": 3200, "thorough": 60000}, shrink_quick=False,
          rule="6 numerical inverses on 1-d arrays of 1..40 (+ zero point): residual in the explicit space"),
    Check("scalar_forms", check_scalar_forms, strategy=lambda: strat_case(ALL_MODELS, max_len=4),
          budget={"quick": 5600, "thorough": 100000},
          rule="16 models x python float / numpy.float64 / 0-d array: same numbers as the 1-d result, inverse law, zero"),
    Check("shape", check_shape, strategy=lambda: strat_case(ALL_MODELS),
          budget={"quick": 6400, "thorough": 120000},
          rule="16 models: loading(0)=0, >=0, non-decreasing on the sorted grid, <= saturation capacity, Henry limit"),
    Check("model_isotherm", check_model_isotherm, strategy=strat_model_isotherm,
          budget={"quick": 3200, "thorough": 60000}, shrink_quick=False,
          rule="16 models through ModelIsotherm.loading_at / pressure_at with native and requested unit "
               "representations vs bare model o ref_units"),
]
